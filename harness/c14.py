"""C14 - probing a machine and deriving the place-and-route machine model.

The abstract machine state is generated here; the *bytes* the simulated machine
serves (info replies, P2P table words, vcpu blocks, IOBUF chains, router
registers, sver replies) are produced from it by the Lean machine
specification (RigModel/Model/C14.lean, ops spec_*).  A real MachineController
probes the simulated machine through the real SCPConnection; what it returns is
compared with the Lean model of the decoding code run on the same bytes
(correspondence) and judged by the Lean property predicates (info_ok,
sysinfo_ok, dead_ok, machine_ok, reservations_ok, core_ok, sver_ok) against the
abstract state (oracle)."""
import os
import struct

from harness import common, simnet, simmachine

CLAIM = dict(
    text=("Machine-checked proof (Lean 4) for ALL machine states: decoding the `info` reply built by the machine "
          "specification returns the chip's core count, per-core states (truncated to the core count), working links, "
          "largest free SDRAM/SRAM/router block, Ethernet flag, IP and nearest Ethernet chip over the full width of "
          "every field; the P2P table entry of (x, y) is read from word y/8, bits 3(y mod 8) of column block x for every "
          "width/height up to 255 and the table's keys are distinct; the system description contains exactly the listed "
          "chips that answer, dead chips / dead links are the complement; END TO END (probe_to_machine_exact): from the "
          "P2P table memory and the per-chip info replies of any machine state, get_system_info returns a well-formed "
          "description, and the Machine built from it by build_machine plus the reservations of build_core_constraints "
          "contain exactly the listed chips that answer, exactly their working links, exactly their core counts and free "
          "SDRAM/SRAM, and reserve exactly once every working non-idle core and nothing else; SystemInfo.__contains__ "
          "(chip / link / core / core+state), links(), cores() and build_routing_table_target_lengths report exactly the "
          "described chips, working links, (core, state) pairs - each once - and the probed largest free router block, "
          "also end to end on the probed description (probe_views_exact); the console buffer is the concatenation of "
          "`length` bytes of every block of the chain; both software-version encodings and the router counters decode to "
          "the machine's values; the 128-byte status block laid out by the specification decodes to exactly the status "
          "record (status_block: every field from its documented position, renaming, enumeration check, version split, "
          "name stripped of NULs) and get_processor_status reads it from sv.vcpu_base + 128 p; the machine model built "
          "from ANY description with distinct keys inside its extent has exactly its chips, links and per-chip "
          "quantities; the generated core reservations applying to a chip are pairwise disjoint and cover exactly its "
          "non-idle cores. The four oracle predicates the harness evaluates on the implementation's outputs (sysinfo_ok, "
          "dead_ok, machine_ok, reservations_ok) are proved to decide exactly these properties (set equality / all core "
          "numbers) and to accept the model's outputs. Tied to the code by running the real MachineController against a "
          "simulated machine whose reply bytes are produced by the Lean machine specification, exact comparison with the "
          "Lean model of the decoding code (incl. a batch of __contains__ queries per description), and the Lean property "
          "predicates evaluated on the implementation's own outputs. SESSIONS: besides the single-probe stream (fresh "
          "controller per probe), one controller makes 2-6 probes (console buffer, status, chip info, router counters, "
          "P2P table, system info, sv / vcpu struct fields) addressed to different chips whose system variables "
          "(iobuf_size, vcpu_base, p2p_dims, sdram_sys, rtr_copy, ...) and contents differ, with new console output, state "
          "changes and re-boots with other sizes in between; every result must be what the Lean specification says for "
          "that chip at that moment (the decoders' model is a function of that chip's memory only), so a value kept from "
          "an earlier probe is reported as `probe-depends-on-earlier-probe` with the whole session as replay. CALLER "
          "EDITS: in sessions, and in a probe / derive stream (get_system_info, get_machine, build_machine, "
          "build_core_constraints, target lengths, membership, dead sets, on two controllers), the caller edits in place "
          "the objects it was given where they are mutable (working_links sets, core_states lists, SystemInfo entries, "
          "status register lists, P2P dictionaries, Machine.dead_links / dead_chips / chip_resource_exceptions / "
          "chip_resources, constraint lists, target-length dictionaries) and then probes and derives again with the same "
          "and a second controller; every later probe is judged by the same Lean oracles against the machine's state at "
          "that moment and every later derivation against the Lean model of the (caller-owned, possibly edited) "
          "description, so state shared between returned objects and later results - per controller or process-wide - is "
          "reported as `probe-affected-by-caller-mutation` with the whole script incl. the edits as replay. STRUCT "
          "LAYOUTS: the struct definitions in force (MachineController.structs) are a parameter of the Lean model (`...L` "
          "functions, proved to be the original functions at the bundled definitions: layout_default_instance) and of "
          "the Lean machine specification; simulated chips / machines come in six layouts (sv block at another base, "
          "same-sized sv fields exchanged, 160-byte vcpu blocks with every field moved, vcpu fields exchanged) whose "
          "struct-file text is parsed by rig's read_struct_file for the controller and independently for Lean; sessions "
          "put the same struct-reading probe to chips of different layouts with one controller per layout (structs= "
          "argument) or with controllers whose .structs is replaced (what boot() does), derive scripts read sv.p2p_dims "
          "before a boot that installs other definitions; every probe is judged against the machine laid out under its "
          "own layout. A failing probe that is right when made alone in a new process is reported as "
          "`probe-depends-on-process-history`; probes are cut off after 3000 datagrams / 2 s CPU."),
    design="3/C14",
    note=("Proved relative to the Lean machine specification (layout of the info word, P2P packing, vcpu block, IOBUF "
          "header, sver reply) written from the layouts the code documents; only the bytes concerned are constrained "
          "(dimension register + the 32768-byte table region; non-vacuity examples are in Props/C14.lean). Validated only "
          "(differential correspondence, not theorems): that the Lean model is the Python code - every clause above is "
          "about the model; the exception kinds on malformed replies; get_iobuf's text decoding (compared for ASCII "
          "buffers only); ethernet_connected_chips is not modelled. Remote reads are byte exact by C07. OUT OF SCOPE: "
          "UTF-8 beyond ASCII - application name, version string and IOBUF text are restricted to bytes < 128 (version "
          "strings also without newlines) in generators, model (`UnicodeDomain` / `TextDomain`) and theorems; "
          "multi-byte decoding is neither modelled nor proved. Other domain limits: state bytes of absent cores are "
          "valid state codes; at most 18 core slots per chip; core numbers are naturals (a negative p is simply absent "
          "in the code); one-byte status fields are unconstrained naturals in the model; at least one listed chip "
          "(otherwise the code raises ValueError, sysinfo_empty). "
          "EXPLORATION (what each stream validates; verdicts always from the Lean oracles / model): "
          "[1 argument kinds] session probes pass x, y, p as int / numpy.int64 / bool / int subclass (IntEnum-like), by "
          "position, keyword or contextual arguments (`with mc(x=, y=, p=)`); descriptions built by the caller are "
          "SystemInfo or a subclass, from a dict / list of pairs / one-shot iterator / keyword width-height, records "
          "ChipInfo or a subclass with set / frozenset links and list / tuple states, quantities up to 2**100; resource "
          "identifiers of build_machine / build_core_constraints are the defaults, '%'/'{}' strings, tuples of length "
          "0-3, namedtuples, frozensets, plain objects, the ints 0/1/-1, by position and keyword; membership queries pass "
          "bool / int-subclass core numbers. Not applicable: no function in scope takes byte strings or collections "
          "other than the description itself; numpy integers inside `(x, y, p) in system_info` are only legal as far as "
          "six.integer_types goes (numpy.int64 is not one) - not generated. "
          "[2 optional parameters] non-default values: read_struct_field(p=), get_software_version(x, y, processor), "
          "get_system_info(x, y) and defaults, get_machine(x, y, default_num_cores) by position and keyword, "
          "build_machine(core_resource, sdram_resource, sram_resource), build_core_constraints(core_resource), "
          "SystemInfo(*args, **kwargs), MachineController(n_tries, timeout, structs); left at the default: scp_port / "
          "boot_port / initial_context of the controller (C06 / C18), _get_minimal_core_reservations(chip) is private. "
          "[3 scale] descriptions 1 x N, N x 1, 2 x N with N up to 4097 chips, console output chained over 257-1100 "
          "blocks, P2P tables 255 x 255 (the dimension register is two bytes: 256 cannot be expressed), nothing in scope "
          "is counted in 16 bits; any exception there is a finding (the models are total). "
          "[4 histories] sessions and derive scripts: same call repeated, twins differing in one chip / layout / "
          "controller in both orders, two controllers and two layouts alternately; every batch of 40 histories starts "
          "with the in-scope rig modules imported afresh and a failing history is re-run alone after a fresh import - if "
          "it then passes, the replay carries all histories of the batch before it (kind `histories`). "
          "[5 caller keeps and edits] (a) descriptions passed to the derivations are edited and passed again, (b) every "
          "mutable returned object is edited (see CALLER EDITS), (c) every unedited result is kept and compared at the "
          "end of the history with what it was when returned (`kept-result-changed`), (d) the generators of SystemInfo "
          "and Machine are advanced alternately, in twins, abandoned half-way and resumed after other calls. "
          "[6 faults] during a session probe one datagram is lost once (retry succeeds: judged normally), a command and "
          "all its retries are lost, or an error code comes back (SCPError permitted; get_system_info may drop the chip: "
          "tagged, not judged), then the same call is repeated and the controller used further - all judged. "
          "[7 configuration] per chip: system variables, struct layout, version string / buffer size in sver, core "
          "states, links; per case: SCP buffer 64-512, n_tries 1-5, timeout, root chip; window size is fixed at 1 by the "
          "code (no public way to change it). [8 non-termination] every implementation call runs under "
          "common.cpu_limit (10 s per probe, 30 s per derivation bundle, quartered - never below 2 s - after 3 hangs; the largest CPU time of one call is in the evidence: max_impl_call_cpu_s) and a datagram budget; a "
          "call that does not return is `did-not-return` (the Lean models are total). "
          "WHICH CORES ANSWER - an ASSUMPTION of the machine specification, taken from the SARK / SC&MP documentation of "
          "the application states (consts.AppState), not something rig's code states: in the specification (Lean "
          "`coreAnswers`, theorem monitor_always_answers) and in the simulator that takes its list of states from it, a "
          "command addressed to core p of a chip is answered by the monitor (SC&MP) when p = 0 and otherwise only while "
          "SARK's event handling is alive on that core. ANSWERING states: wait (5), c_main (6), run (7), sync0 (8), sync1 "
          "(9), pause (10); a core that reports a software version counts as running. NOT answering: dead (0), power_down "
          "(1), runtime_exception (2), watchdog (3), idle (15) and - the cautious reading - the transitory init (4) and "
          "the finished exit (11): they get NO reply (the controller's timeout SCPError). Every probe in scope must "
          "still return the machine's values for cores in EVERY state: checked for get_processor_status, get_iobuf / "
          "get_iobuf_bytes, read_vcpu_struct_field, read_struct_field, get_router_diagnostics, get_p2p_routing_table, "
          "get_chip_info, get_system_info in all streams (core states of the status block, the info reply and the "
          "simulator agree). Explicitly addressed cores (read_struct_field(p=), get_software_version(processor=)) are "
          "only cores that answer. KNOWN FINDING `probe-in-core-context-times-out`: when the core number is supplied "
          "through the CONTEXT (`with mc(x=, y=, p=)`), rig's internal reads of sv.vcpu_base / sv.iobuf_size / the vcpu "
          "block / the console blocks pick it up and go to that core instead of the monitor, so the probe times out for "
          "cores that do not answer. ONE fixed case reproduces it on every run (chip (3, 0), core 4 idle, "
          "get_processor_status inside `with mc(x=3, y=0, p=4)` vs. with explicit arguments); the key is used only there, "
          "only when the explicit probe is right and datagrams addressed to the idle core went unanswered. The generators "
          "stay away from it (the context carries p only for cores that answer; C14_CTX_ANY_CORE=1 lifts that), so any "
          "other failure - e.g. an internal read sent to core p although p was given explicitly - keeps its own key. "
          "FULL RANGE: every 32-bit quantity read "
          "back (router counters, registers, psr/sp/lr, mailbox words, file / line / time, user words, free SDRAM / SRAM, "
          "block time / ms / length, sv words, IOBUF block addresses on both sides of 2**31) and every 16- / 8-bit field is "
          "drawn over its full range with the edges 0, 1, 2**(k-1) - 1, 2**(k-1), 2**k - 1; a negative number in a result "
          "is judged wrong without consulting the oracle (all quantities are unsigned)."),
    technique="Lean 4 theorems over decode model o machine specification + correspondence against a simulated machine")

THEOREMS = ["consts_documented", "chipinfo_roundtrip", "p2p_roundtrip", "p2p_table_mem", "sysinfo_exact",
            "sysinfo_mem", "sysinfo_extent", "dead_chips_complement", "dead_links_complement",
            "build_machine_exact", "reservations_partition", "global_reservation_shared", "iobuf_chain",
            "iobuf_bytes_exact", "sver_both_encodings", "status_fields_partial", "router_counters",
            "status_block", "processor_status_exact", "p2p_keys_nodup", "get_system_info_exact",
            "probe_to_machine_exact", "contains_exact", "links_cores_enumerate", "target_lengths_exact",
            "probe_views_exact", "sysinfo_oracle_exact", "reservations_oracle_exact", "dead_oracle_exact",
            "machine_oracle_exact", "links_cores_once", "struct_field_exact",
            "layout_default_instance", "monitor_always_answers"]

RULE = ("cases = machine states: (system) P2P dimensions 1..12 x 1..12 and sparse 255-wide/high tables, listed / "
        "unlisted / unresponsive (silent or error-code) / ghost chips, per-chip core counts, state patterns shared by "
        "every chip and chip-specific, link subsets, free-memory figures at edge values, Ethernet details; (direct) "
        "SystemInfo objects built directly; (chip) single info replies over full field widths incl. malformed ones; "
        "(core) vcpu block, IOBUF chains of 0-4 blocks, router counters; (sver) both version encodings; (session) one "
        "controller, 2-4 chips with different system variables, 2-6 probes with console output / state changes / "
        "re-boots between them, the caller editing returned objects and repeating the probe on the same / a second "
        "controller, 40% of the sessions with chips of 2-3 different struct layouts (re-boots may change a chip's "
        "layout); (derive) a system-case machine (40% under a non-bundled struct layout, read before and after the boot "
        "that installs it), two controllers, a script of probes (get_system_info / "
        "get_machine), derivations, edits of the description and of derived objects. non-trivial = session probing "
        ">= 2 chips, derive case whose description has >= 2 chips and a busy core or dead chip, (options of every "
        "session step: calling convention pos/kw/context, integer kind int/numpy/bool/int-subclass, network fault "
        "lose1/loseall/rc + retry; of every direct / derive case: kind of description object, resource identifiers, "
        "lazy consumption, kind of query integers; scale: 2+ huge descriptions and 2+ chains of 257-1100 blocks per run) "
        "system/direct case with >= 2 described chips and a busy non-monitor core or a dead chip, chip case in the "
        "valid domain, core case with >= 1 block, sver case in the string encoding; distinct = distinct canonical JSON")

VALID_STATES = [0, 1, 2, 3, 4, 5, 6, 7, 8, 9, 10, 11, 15]
IDLE, RUN = 15, 7
FATAL_CODES = [0x87, 0x8b, 0x8c, 0x8e, 0x8f, 0x83, 0x86]


# --------------------------------------------------------------------------- simulated machine
_ANSWERING = [None]     # states in which an application core answers commands (from the Lean machine specification)


def ensure_answering(ctx):
    if _ANSWERING[0] is None:
        _ANSWERING[0] = set(ctx.lean([{"suite": "c14", "op": "spec_answers"}])[0]["app"])


class ProbeMachine(simmachine.SimMachine):
    """SimMachine + the `info` command and configurable sver replies; every byte it
    serves comes from the Lean machine specification."""

    def __init__(self, root=(0, 0), buffer_size=256):
        simmachine.SimMachine.__init__(self, 256, 256, buffer_size=buffer_size, root=root)
        self.info = {}
        self.sver = {}
        self.core_state = {}        # (x, y, p) -> state; cores never mentioned are idle
        self.unanswered = 0

    def set_states(self, x, y, states):
        for q, st in enumerate(states):
            self.core_state[(x, y, q)] = st

    def answers(self, x, y, p):
        """the Lean machine specification's `coreAnswers`: the monitor always; an application core only while
        SARK is alive on it (a core that reports a software version is running that software)"""
        x, y = self.chip(x, y)
        if p == 0 or (x, y, p) in self.sver:
            return True
        ok = self.core_state.get((x, y, p), IDLE) in _ANSWERING[0]
        if not ok:
            self.unanswered += 1
        return ok

    def cmd_31(self, req):
        r = self.info.get((req["x"], req["y"]))
        if r is None:
            return 0x87, (), b""
        return simmachine.OK, (r["arg1"], r["arg2"], r["arg3"]), bytes(r["data"])

    def cmd_0(self, req):
        r = self.sver.get((req["x"], req["y"], req["p"]))
        if r is None:
            return simmachine.SimMachine.cmd_0(self, req)
        return simmachine.OK, (r["arg1"], r["arg2"], r["arg3"]), bytes(r["data"])


def run_controller(machine, fn, silent=(), rc_chips=None, n_tries=3):
    """fn(mc) with a real controller talking to `machine`; chips in `silent` never answer,
    chips in `rc_chips` answer with that error code"""
    from rig.machine_control import scp_connection as sc
    rc_chips = rc_chips or {}
    silent = set(map(tuple, silent))

    def scr(k, data):
        q = simnet.parse_scp(data)
        if not machine.answers(q["x"], q["y"], q["p"]):
            return []               # nobody is listening on that core
        xy = machine.chip(q["x"], q["y"])
        if xy in silent and q["cmd"] == 31:
            return []
        if xy in rc_chips and q["cmd"] == 31:
            return [(1, ("rc", rc_chips[xy]))]
        return [(1, "ok")]

    net = simnet.Net(machine.handle, scr)
    with simnet.installed(net):
        mc = simmachine.make_controller(net, n_tries=n_tries, timeout=2.0)
        return guard(lambda: limited(lambda: fn(mc)))


class Runaway(BaseException):
    """a single probe sent more datagrams than any probe of these machines can need"""


class Budget(object):
    """network script that answers every datagram, stops a probe that runs away (e.g. one that walks memory it was
    never meant to read) and injects the fault planned for the current probe: ("lose1", i) = the i-th datagram of
    the probe is lost once (the retry gets through), ("loseall", i, n) = it and its n - 1 retries are lost,
    ("rc", i) = it is answered with an error code"""

    def __init__(self, limit=3000, machine=None):
        self.limit, self.machine = limit, machine
        self.reset()

    def reset(self, plan=None):
        self.left, self.sent, self.plan, self.hit = self.limit, 0, plan, False

    def __call__(self, k, data):
        self.left -= 1
        if self.left < 0:
            raise Runaway()
        i = self.sent
        self.sent += 1
        if self.machine is not None:
            q = simnet.parse_scp(data)
            if not self.machine.answers(q["x"], q["y"], q["p"]):
                return []           # nobody is listening on that core
        if self.plan:
            mode, at = self.plan[0], self.plan[1]
            if mode == "lose1" and i == at or mode == "loseall" and at <= i < at + self.plan[2]:
                self.hit = True
                return []
            if mode == "rc" and i == at:
                self.hit = True
                return [(1, ("rc", 0x87))]
        return [(1, "ok")]


_HANGS = [0]
_CTX = [None]
_MAX_CPU = [0.0]          # largest CPU time of one limited call of the implementation (goes to the evidence)
RIG_STATEFUL = ["rig.machine_control.machine_controller", "rig.machine_control.common", "rig.place_and_route.utils",
                "rig.place_and_route.machine", "rig.routing_table.utils"]


def limited(fn, seconds=2):
    """fn() within a CPU-time limit ~100x what a call on these machines takes (milliseconds); after three hangs
    the limit drops so a broken tree does not make the run long"""
    # budgets: 5x the nominal value (a probe of the largest thorough-tier machine uses a few tenths of a second of CPU
    # on an idle machine, but CPU time per call grows 2-4x when all cores are busy - a 2 s budget, quartered after
    # three hangs, once reported `did-not-return` on the unchanged tree under a load average of 25); never below 2 s
    import time
    budget = 5.0 * seconds
    if _HANGS[0] >= 3:
        budget = max(2.0, budget / (4.0 if _HANGS[0] < 10 else 10.0))
    t0 = time.process_time()
    try:
        with common.cpu_limit(budget):
            return fn()
    except common.ImplHang:
        _HANGS[0] += 1
        raise
    finally:
        _MAX_CPU[0] = max(_MAX_CPU[0], time.process_time() - t0)
        if _CTX[0] is not None:
            _CTX[0].extra["max_impl_call_cpu_s"] = round(_MAX_CPU[0], 3)


def fresh_rig():
    """a history starts with the in-scope rig modules imported afresh (module-level tables, default-argument
    objects and class attributes are as in a new process), so the case alone is a replayable history"""
    import importlib
    import sys
    for k in RIG_STATEFUL:
        sys.modules.pop(k, None)
    for k in RIG_STATEFUL:
        importlib.import_module(k)


class _Coord(int):
    """an int subclass, as an IntEnum member is"""


def as_kind(v, kind):
    """the integer argument v in another kind the API accepts"""
    if kind == "np":
        import numpy
        return numpy.int64(v)          # what indexing a default integer array gives
    if kind == "bool" and v in (0, 1):
        return bool(v)
    if kind == "enum":
        return _Coord(v)
    return v


def guard(fn):
    """{"ok": fn()} or the exception mapped to the model's error enumeration"""
    from rig.machine_control import scp_connection as sc
    try:
        return {"ok": fn()}
    except Runaway:
        return {"err": "Runaway"}
    except common.ImplHang as e:
        return {"err": "DidNotReturn (%s)" % (e,)}
    except sc.SCPError:
        return {"err": "SCPError"}
    except ValueError as e:
        return {"err": "UnicodeDomain" if isinstance(e, UnicodeError) else "ValueError"}
    except struct.error:
        return {"err": "struct.error"}
    except AssertionError:
        return {"err": "AssertionError"}
    except (KeyError, IndexError, TypeError) as e:
        return {"err": type(e).__name__}
    except Exception as e:      # noqa: any other exception is a result to be judged, not a harness failure
        return {"err": "Exception:" + type(e).__name__}


# --------------------------------------------------------------------------- canonical forms
def parse_ip(s):
    parts = s.split(".") if isinstance(s, str) else []
    try:
        vals = [int(p) for p in parts]
    except ValueError:
        return []
    if len(vals) != 4 or any(str(v) != p or v < 0 for v, p in zip(vals, parts)):
        return []
    return vals


def ci_json(ci):
    return {"num_cores": int(ci.num_cores), "core_states": [int(s) for s in ci.core_states],
            "links": sorted(int(l) for l in ci.working_links), "sdram": int(ci.largest_free_sdram_block),
            "sram": int(ci.largest_free_sram_block), "rtr": int(ci.largest_free_rtr_mc_block),
            "eth_up": bool(ci.ethernet_up), "ip": parse_ip(ci.ip_address),
            "eth_chip": [int(v) for v in ci.local_ethernet_chip]}


def si_json(si):
    return {"width": int(si.width), "height": int(si.height),
            "chips": [dict(ci_json(ci), x=int(xy[0]), y=int(xy[1])) for xy, ci in si.items()]}


def resource_ids(idx):
    """(core, sdram, sram) resource identifiers: None = the defaults; otherwise hashable objects of every kind"""
    import collections
    if not idx:
        return None
    if idx == 1:
        return ("cores %d%% {}", "sdram{0}", "%s")
    if idx == 2:
        return ((), ("sdram",), ("sram", 1, 2))
    if idx == 3:
        R = collections.namedtuple("R", "name n")
        return (R("cores", 0), R("sdram", 1), R("sram", 2))
    if idx == 4:
        return (frozenset(), frozenset([1]), frozenset(["a", "b"]))
    if idx == 5:
        return (object(), object(), object())
    return (0, 1, -1)


def machine_json(m, res=None):
    """(canonical form of a place-and-route Machine, whether its resource dictionaries have the expected keys)"""
    from rig.place_and_route.machine import Cores, SDRAM, SRAM
    C, S, R = res or (Cores, SDRAM, SRAM)
    ok_shape = (set(m.chip_resources) == {C, S, R} and
                all(set(r) == {C, S, R} for r in m.chip_resource_exceptions.values()))
    mj = {"width": int(m.width), "height": int(m.height),
          "cores": int(m.chip_resources.get(C, -1) if ok_shape else 0),
          "sdram": int(m.chip_resources.get(S, 0)), "sram": int(m.chip_resources.get(R, 0)),
          "exceptions": sorted([int(x), int(y), int(r.get(C, 0)), int(r.get(S, 0)), int(r.get(R, 0))]
                               for (x, y), r in m.chip_resource_exceptions.items()),
          "dead_chips": sorted([int(x), int(y)] for x, y in m.dead_chips),
          "dead_links": sorted([int(x), int(y), int(l)] for x, y, l in m.dead_links)}
    return mj, ok_shape


def machine_views(m, queries, res, everything):
    """Machine.__contains__ for chips and links, Machine.__getitem__, and (small machines) iter(machine) and
    machine.iter_links()"""
    from rig.links import Links
    from rig.place_and_route.machine import Cores, SDRAM, SRAM
    C, S, R = res or (Cores, SDRAM, SRAM)
    answers = []
    for x, y, l in queries:
        try:
            r = m[(x, y)]
            r = [int(r[C]), int(r[S]), int(r[R])]
        except IndexError:
            r = None
        answers.append([bool((x, y) in m), bool((x, y, Links(l)) in m), r])
    out = {"answers": answers, "chips": [], "links": []}
    if everything:
        a, b = iter(m), m.iter_links()          # two lazy views advanced alternately
        chips, links = [], []
        while a is not None or b is not None:
            for which in ("a", "b"):
                it = a if which == "a" else b
                if it is None:
                    continue
                try:
                    v = next(it)
                    (chips if which == "a" else links).append([int(q) for q in v])
                except StopIteration:
                    if which == "a":
                        a = None
                    else:
                        b = None
        out["chips"], out["links"] = sorted(chips), sorted(links)
    return out


def lazy_views(si, seed):
    """the generators SystemInfo hands out, consumed lazily: advanced alternately, one abandoned half-way and
    started again, the others resumed after other calls on the same description"""
    import random
    from rig.place_and_route.utils import build_machine
    r = random.Random(seed)
    names = ["dead_chips", "dead_links", "links", "cores"]
    gens = {k: getattr(si, k)() for k in names}
    gens.update({k + "'": getattr(si, k)() for k in names})     # a twin of every generator, advanced alternately
    got = {k: [] for k in gens}
    live = sorted(gens)
    abandoned = r.choice(names)
    steps = 0
    while live:
        k = r.choice(live)
        try:
            got[k].append(next(gens[k]))
        except StopIteration:
            live.remove(k)
        steps += 1
        if steps == 7:
            build_machine(si)                   # other calls on the same description in between
            (0, 0) in si
            list(si.chips())
        if steps == 11 and abandoned in live:
            gens[abandoned] = getattr(si, abandoned)()      # abandoned half-way, a new one started
            got[abandoned] = []
    # twins must agree; if they do not, the shorter one is what gets judged
    return {k: min(got[k], got[k + "'"], key=len) if sorted(got[k]) != sorted(got[k + "'"]) else got[k] for k in names}


def derived_json(si, keep=None, opts=None):
    """`derive_all` within a CPU-time limit; {"failed": ...} when a derivation raises or does not return (the Lean
    models of all of them are total functions without error cases)"""
    try:
        return limited(lambda: derive_all(si, keep, opts), 6)
    except common.ImplHang as e:
        return {"failed": "DidNotReturn (%s)" % (e,)}
    except Exception as e:      # noqa: reported as a finding by the caller
        return {"failed": "Exception:%s: %s" % (type(e).__name__, e)}


def derive_all(si, keep=None, opts=None):
    """everything the code derives from a SystemInfo (set-valued results sorted); the objects themselves are
    put into `keep` when given.  opts: "res" = kind of resource identifiers (passed by keyword or position),
    "lazy" = seed for lazy consumption of the generators, "qkind" = kind of the integers in membership queries"""
    from rig.place_and_route.utils import build_machine, build_core_constraints
    from rig.place_and_route.machine import Cores
    from rig.routing_table.utils import build_routing_table_target_lengths
    opts = opts or {}
    res = resource_ids(opts.get("res", 0))
    if res is None:
        m = build_machine(si)
        constraints = build_core_constraints(si)
    elif opts.get("res_kw"):
        m = build_machine(si, sram_resource=res[2], core_resource=res[0], sdram_resource=res[1])
        constraints = build_core_constraints(si, core_resource=res[0])
    else:
        m = build_machine(si, res[0], res[1], res[2])
        constraints = build_core_constraints(si, res[0])
    mj, ok_shape = machine_json(m, res)
    cons = []
    target_lengths = build_routing_table_target_lengths(si)
    if keep is not None:
        keep.update(machine=m, constraints=constraints, target_lengths=target_lengths, res=res)
    for c in constraints:
        ok_shape = ok_shape and c.resource is (res[0] if res else Cores) and c.reservation.step is None
        cons.append({"start": int(c.reservation.start), "stop": int(c.reservation.stop),
                     "chip": None if c.location is None else [int(c.location[0]), int(c.location[1])]})
    sj = si_json(si)
    qs = member_queries(sj)
    mq = [[q[1], q[2], q[3] % 6] for q in qs if q[0] == 1][:40] + [[x, y, (x + y) % 6] for x in range(3) for y in range(3)]
    small = si.width * si.height <= 1024
    if opts.get("lazy") is not None:
        lz = lazy_views(si, opts["lazy"])
    else:
        lz = {"dead_chips": si.dead_chips(), "dead_links": si.dead_links(), "links": si.links(), "cores": si.cores()}
    return {"machine": mj, "constraints": cons, "shape_ok": bool(ok_shape),
            "member_queries": qs, "member": member_answers(si, qs, opts.get("qkind", "int")),
            "machine_queries": mq, "machine_iter": small, "machine_views": machine_views(m, mq, res, small),
            "dead_chips": sorted([int(x), int(y)] for x, y in lz["dead_chips"]),
            "dead_links": sorted([int(x), int(y), int(l)] for x, y, l in lz["dead_links"]),
            "links": sorted([int(x), int(y), int(l)] for x, y, l in lz["links"]),
            "cores": [[int(x), int(y), int(p), int(s)] for x, y, p, s in lz["cores"]],
            "target_lengths": sorted([int(x), int(y), int(n)] for (x, y), n in target_lengths.items())}


# --------------------------------------------------------------------------- the caller edits what it got back
def _try(log, what, fn):
    """an edit of a returned object; results that are immutable are left alone (no alarm)"""
    try:
        fn()
        log.append(what)
    except (AttributeError, TypeError, KeyError, IndexError):
        log.append(what + " [not possible: immutable]")


def mutate_chipinfo(ci, r, log, tag):
    from rig.links import Links
    from rig.machine_control.consts import AppState
    k = r.randrange(6)
    links = sorted(int(l) for l in ci.working_links)
    if k <= 1 and links:
        l = r.choice(links)
        _try(log, "%s.working_links.discard(%d)" % (tag, l), lambda: ci.working_links.discard(Links(l)))
    elif k <= 2 and len(links) < 6:
        l = r.choice([l for l in range(6) if l not in links])
        _try(log, "%s.working_links.add(%d)" % (tag, l), lambda: ci.working_links.add(Links(l)))
    elif k == 3:
        _try(log, "%s.working_links.clear()" % tag, lambda: ci.working_links.clear())
    elif k == 4 and len(ci.core_states):
        p, v = r.randrange(len(ci.core_states)), r.choice([IDLE, RUN, 5])
        _try(log, "%s.core_states[%d] = %d" % (tag, p, v), lambda: ci.core_states.__setitem__(p, AppState(v)))
    elif len(ci.core_states):
        _try(log, "%s.core_states.pop()" % tag, lambda: ci.core_states.pop())


def mutate_sysinfo(si, r, log):
    for _ in range(r.randrange(1, 4)):
        keys = sorted(si)
        k = r.randrange(6)
        if k <= 3 and keys:
            xy = r.choice(keys)
            mutate_chipinfo(si[xy], r, log, "si[%r]" % (xy,))
        elif k == 4 and len(keys) > 1:
            xy = r.choice(keys)
            _try(log, "del si[%r]" % (xy,), lambda: si.__delitem__(xy))
        elif keys:
            dead = sorted((x, y) for x in range(si.width) for y in range(si.height) if (x, y) not in si)
            if dead:
                src, dst = r.choice(keys), r.choice(dead)
                _try(log, "si[%r] = copy of si[%r]" % (dst, src), lambda: si.__setitem__(dst, si[src]._replace(
                    working_links=set(si[src].working_links), core_states=list(si[src].core_states))))


def mutate_result(raw, op, seed):
    """the caller edits, in place, the object a probe returned; returns the list of edits made"""
    import random
    r = random.Random(seed)
    log = []
    if op == "chip_info":
        mutate_chipinfo(raw, r, log, "chip_info")
        if r.random() < 0.5:
            mutate_chipinfo(raw, r, log, "chip_info")
    elif op == "system_info":
        mutate_sysinfo(raw, r, log)
    elif op == "status":
        _try(log, "status.registers[2] ^= 1", lambda: raw.registers.__setitem__(2, raw.registers[2] ^ 1))
        _try(log, "status.user_vars.pop()", lambda: raw.user_vars.pop())
    elif op == "p2p":
        keys = sorted(raw)
        if keys:
            xy = r.choice(keys)
            _try(log, "del p2p[%r]" % (xy,), lambda: raw.__delitem__(xy))
    return log


def mutate_derived(keep, r, log):
    """the caller edits the Machine / constraints / target lengths derived from a description"""
    from rig.place_and_route.machine import Cores
    m = keep["machine"]
    for _ in range(r.randrange(1, 4)):
        k = r.randrange(7)
        if k == 0 and m.dead_links:
            e = sorted(m.dead_links)[r.randrange(len(m.dead_links))]
            _try(log, "machine.dead_links.discard(%r)" % (tuple(map(int, e)),), lambda: m.dead_links.discard(e))
        elif k == 1:
            _try(log, "machine.dead_links.clear()", lambda: m.dead_links.clear())
        elif k == 2:
            xy = (r.randrange(m.width), r.randrange(m.height))
            _try(log, "machine.dead_chips.add(%r)" % (xy,), lambda: m.dead_chips.add(xy))
        elif k == 3 and m.chip_resource_exceptions:
            xy = sorted(m.chip_resource_exceptions)[0]
            _try(log, "del machine.chip_resource_exceptions[%r]" % (xy,), lambda: m.chip_resource_exceptions.__delitem__(xy))
        elif k == 4:
            _try(log, "machine.chip_resources[Cores] += 1",
                 lambda: m.chip_resources.__setitem__(Cores, m.chip_resources[Cores] + 1))
        elif k == 5 and keep["constraints"]:
            _try(log, "constraints.pop()", lambda: keep["constraints"].pop())
        elif keep["target_lengths"]:
            xy = sorted(keep["target_lengths"])[0]
            _try(log, "del target_lengths[%r]" % (xy,), lambda: keep["target_lengths"].__delitem__(xy))


def member_queries(sj):
    """deterministic membership queries [kind, x, y, a, b] for a description (kind 0 chip, 1 link a, 2 core a,
    3 core a in state b): every link, boundary core numbers and present / other states of the first chips, and
    a 3 x 3 corner of coordinates whether described or not"""
    qs = []
    for ch in sj["chips"][:8]:
        x, y, n, cs = ch["x"], ch["y"], ch["num_cores"], ch["core_states"]
        qs.append([0, x, y, 0, 0])
        qs += [[1, x, y, l, 0] for l in range(6)]
        for p in sorted({0, max(n - 1, 0), n, 17, 18, 19}):
            qs.append([2, x, y, p, 0])
            qs += [[3, x, y, p, s] for s in sorted({cs[p] if p < len(cs) else IDLE, IDLE, RUN})]
    for x in range(3):
        for y in range(3):
            qs += [[0, x, y, 0, 0], [1, x, y, 2, 0], [2, x, y, 1, 0], [3, x, y, 0, RUN]]
    return qs


def member_answers(si, qs, kind="int"):
    from rig.links import Links
    from rig.machine_control.consts import AppState
    out = []
    for k, x, y, a, b in qs:
        x, y = as_kind(x, kind), as_kind(y, kind)
        if k in (2, 3):
            a = as_kind(a, kind)            # a core number that is a bool / an int subclass is still a core number
        try:
            if k == 0:
                r = (x, y) in si
            elif k == 1:
                r = (x, y, Links(a)) in si
            elif k == 2:
                r = (x, y, a) in si
            else:
                r = (x, y, a, AppState(b)) in si
            out.append(bool(r))
        except IndexError:
            out.append("IndexError")
        except Exception as e:      # noqa: an answer to be judged, not a harness failure
            out.append("Exception:" + type(e).__name__)
    return out


def membership_ok(si, state_chips):
    try:
        return membership_holds(si, state_chips)
    except Exception:           # noqa: `in` raising for a documented form is a disagreement
        return False


def membership_holds(si, state_chips):
    """SystemInfo.__contains__ agrees with its own records (chip / link / core / core+state)"""
    from rig.links import Links
    from rig.machine_control.consts import AppState
    for xy, ci in si.items():
        if xy not in si:
            return False
        for l in Links:
            if ((xy[0], xy[1], l) in si) != (l in ci.working_links):
                return False
        for p in range(20):
            if ((xy[0], xy[1], p) in si) != (p < ci.num_cores):
                return False
        for p, s in enumerate(ci.core_states):
            if (xy[0], xy[1], p, s) not in si:
                return False
            if (xy[0], xy[1], p, AppState.idle if s != AppState.idle else AppState.run) in si:
                return False
    return True


# --------------------------------------------------------------------------- generators
def edge(rng, bound):
    """a value of a field with `bound` values: 0, 1, the largest, the sign-bit neighbours bound/2 - 1 and bound/2
    (what a signed reading of the field gets wrong), otherwise uniform over the full range"""
    r = rng.random()
    if r < 0.10:
        return 0
    if r < 0.20:
        return bound - 1
    if r < 0.25:
        return min(1, bound - 1)
    if r < 0.31:
        return max(bound // 2 - 1, 0)
    if r < 0.37:
        return bound // 2
    return rng.randrange(bound)


def gen_states(rng, shared_busy):
    st = [IDLE] * 18
    st[0] = RUN
    for p in shared_busy:
        st[p] = rng.choice([RUN, RUN, 5, 8, 11, 2, 0])
    r = rng.random()
    if r < 0.35:
        for _ in range(rng.randrange(1, 5)):
            st[rng.randrange(18)] = rng.choice([s for s in VALID_STATES if s != IDLE])
    elif r < 0.45:
        st = [rng.choice(VALID_STATES) for _ in range(18)]
    elif r < 0.5:
        st[0] = IDLE
    return st


def gen_chip_state(rng, tmpl, shared_busy):
    c = dict(tmpl)
    c["states"] = gen_states(rng, shared_busy)
    if rng.random() < 0.3:
        c["cores"] = rng.choice([18, 17, 17, 16, 16, 15, 1, 0, rng.randrange(19)])
    if rng.random() < 0.4:
        c["links"] = sorted(l for l in range(6) if rng.random() < 0.6)
    if rng.random() < 0.3:
        c["sdram"] = edge(rng, 2 ** 32)
    if rng.random() < 0.3:
        c["sram"] = edge(rng, 2 ** 32)
    if rng.random() < 0.4:
        c["rtr"] = edge(rng, 2048)
    if rng.random() < 0.15:
        c["eth_up"] = True
        c["ip"] = [edge(rng, 256) for _ in range(4)]
    c["eth_chip"] = [edge(rng, 256), edge(rng, 256)]
    return c


def gen_template(rng):
    return {"cores": rng.choice([18, 18, 17]), "states": None, "links": list(range(6)),
            "sdram": rng.choice([119275492, 2 ** 32 - 1, 0, rng.randrange(2 ** 32)]),
            "sram": rng.choice([22240, 2 ** 32 - 1, 0, rng.randrange(2 ** 32)]),
            "rtr": rng.choice([1023, 2047, 0, rng.randrange(2048)]),
            "eth_up": False, "ip": [0, 0, 0, 0], "eth_chip": [0, 0]}


def gen_system(rng, big, small=False):
    if small:
        w, h = rng.choice([1, 2, 3, 4, 6]), rng.choice([1, 2, 3, 5, 8, 9])
        dens = rng.choice([0.5, 0.8, 1.0])
        coords = {(x, y) for x in range(w) for y in range(h) if rng.random() < dens}
    elif big:
        w, h = rng.choice([(255, 255), (255, 9), (3, 255), (200, 131), (255, 1), (1, 255)])
        shape = rng.choice(["thin_x", "thin_y", "corner"])
        coords = set()
        for _ in range(rng.randrange(2, 9)):
            if shape == "thin_x":
                coords.add((rng.choice([0, w - 1, rng.randrange(w)]), rng.randrange(min(h, 3))))
            elif shape == "thin_y":
                coords.add((rng.randrange(min(w, 3)), rng.choice([0, h - 1, rng.randrange(h)])))
            else:
                coords.add((rng.randrange(min(w, 40)), rng.randrange(min(h, 40))))
    else:
        w = rng.choice([1, 2, 3, 4, 5, 8, 12, rng.randrange(1, 13)])
        h = rng.choice([1, 2, 3, 7, 8, 9, 12, 16, 17, rng.randrange(1, 13)])
        dens = rng.choice([0.3, 0.7, 0.95, 1.0])
        coords = {(x, y) for x in range(w) for y in range(h) if rng.random() < dens}
    if not coords:
        coords.add((rng.randrange(w), rng.randrange(h)))
    p2p = {xy: rng.choice([0, 1, 2, 3, 4, 5, 7]) for xy in coords}
    # entries beyond the dimensions (same words / further columns): must be ignored
    for _ in range(rng.randrange(0, 4)):
        x = rng.choice([w, w + 1, rng.randrange(w)])
        y = rng.choice([h, h + 1, (h + 7) // 8 * 8 - 1, h + rng.randrange(8)])
        if (x >= w or y >= h) and x < 256 and y < 256:
            p2p[(x, y)] = rng.choice([0, 2, 7])
    tmpl = gen_template(rng)
    shared_busy = sorted(rng.sample(range(1, 18), rng.choice([0, 0, 1, 2, 3])))
    chips, silent, rc_chips = [], [], []
    for xy in sorted(coords):
        r = rng.random()
        if r < 0.08:
            silent.append(list(xy))
        elif r < 0.16:
            rc_chips.append([xy[0], xy[1], rng.choice(FATAL_CODES)])
        else:
            chips.append(dict(gen_chip_state(rng, tmpl, shared_busy), x=xy[0], y=xy[1]))
    # ghost chips: would answer but are not listed
    for _ in range(rng.randrange(0, 3)):
        xy = (rng.randrange(w + 1), rng.randrange(h + 1))
        if xy not in coords and xy not in p2p:
            chips.append(dict(gen_chip_state(rng, tmpl, shared_busy), x=xy[0], y=xy[1]))
    root = rng.choice(sorted(coords))
    return {"kind": "system", "dim_w": w, "dim_h": h,
            "p2p": sorted([x, y, r] for (x, y), r in p2p.items()),
            "chips": chips, "silent": silent, "rc_chips": rc_chips,
            "root": list(root), "explicit_start": rng.random() < 0.5,
            "buf": rng.choice([256, 256, 256, 128, 64, 512])}


BIG_INTS = [2 ** 31 - 1, 2 ** 31, 2 ** 32, 2 ** 53 + 1, 2 ** 63, 2 ** 64, 2 ** 100]


def gen_opts(rng):
    """how the derivations are called: kind of resource identifiers (by position / keyword), lazy consumption of the
    generators, kind of the integers in membership queries"""
    return {"res": rng.choice([0, 0, 0, 1, 2, 3, 4, 5, 6]), "res_kw": rng.random() < 0.5,
            "lazy": rng.randrange(1 << 30) if rng.random() < 0.4 else None,
            "qkind": rng.choice(["int", "int", "bool", "enum"])}


def gen_huge(rng):
    """SCALE: a description far beyond the usual size - 1 x N, N x 1 or 2 x N with N in the thousands, nearly every
    chip described, a few dead, a few busy cores, a few chips with other quantities"""
    n = rng.choice([1000, 2047, 3000, 4097])
    w, h = rng.choice([(1, n), (n, 1), (2, n // 2), (n // 2, 2)])
    coords = [(x, y) for x in range(w) for y in range(h)]
    dead = set(rng.sample(coords, rng.randrange(0, 25)))
    tmpl = gen_template(rng)
    odd = set(rng.sample(coords, 6))
    chips = []
    for xy in coords:
        if xy in dead:
            continue
        st = [RUN] + [IDLE] * 17
        cores, sdram, links = 18, tmpl["sdram"], list(range(6))
        if xy in odd:
            st[rng.randrange(1, 18)] = RUN
            cores, sdram = rng.choice([17, 18]), rng.choice([tmpl["sdram"], 1])
            links = sorted(rng.sample(range(6), 3))
        chips.append({"x": xy[0], "y": xy[1], "num_cores": cores, "core_states": st[:cores], "links": links,
                      "sdram": sdram, "sram": tmpl["sram"], "rtr": tmpl["rtr"], "eth_up": False, "ip": [0, 0, 0, 0],
                      "eth_chip": [0, 0]})
    return {"kind": "direct", "width": w, "height": h, "chips": chips, "huge": True, "opts": gen_opts(rng),
            "si_kind": "plain", "links_kind": "set", "states_kind": "list"}


def gen_direct(rng, big):
    if big:
        w, h = rng.choice([(256, 256), (256, 2), (3, 256), (100, 100)])
        n = rng.randrange(1, 30)
    else:
        w, h = rng.randrange(1, 9), rng.randrange(1, 9)
        n = rng.choice([0, 1, 2, w * h, rng.randrange(w * h + 1)])
    coords = [(x, y) for x in range(w) for y in range(h)] if w * h <= 64 else \
        list({(rng.randrange(w), rng.randrange(h)) for _ in range(n)})
    rng.shuffle(coords)
    coords = coords[:n]
    tmpl = gen_template(rng)
    shared_busy = sorted(rng.sample(range(1, 18), rng.choice([0, 1, 2, 4, 17])))
    chips = []
    for xy in coords:
        c = gen_chip_state(rng, tmpl, shared_busy)
        chips.append({"x": xy[0], "y": xy[1], "num_cores": c["cores"], "core_states": c["states"][:c["cores"]],
                      "links": c["links"], "sdram": c["sdram"], "sram": c["sram"], "rtr": c["rtr"],
                      "eth_up": c["eth_up"], "ip": c["ip"], "eth_chip": c["eth_chip"]})
    if chips and rng.random() < 0.06:
        # a record with fewer states than cores: `(x, y, p, state) in si` raises IndexError for the missing ones
        ch = chips[rng.randrange(min(len(chips), 8))]
        ch["core_states"] = ch["core_states"][:max(0, len(ch["core_states"]) - rng.randrange(1, 4))]
    if chips and rng.random() < 0.15:
        # quantities are unbounded Python ints in a description built by the caller
        for ch in rng.sample(chips, min(len(chips), 3)):
            ch[rng.choice(["sdram", "sram", "rtr", "num_cores"])] = rng.choice(BIG_INTS) + rng.choice([-1, 0, 1])
    return {"kind": "direct", "width": w, "height": h, "chips": chips, "opts": gen_opts(rng),
            # the description is a SystemInfo / an instance of a subclass of it, built from a dict / a list of pairs / a
            # one-shot iterator of pairs / keyword width and height; records are ChipInfo / a subclass, their link
            # collections sets / frozensets, their state sequences lists / tuples
            "si_kind": rng.choice(["plain", "plain", "subclass", "pairs", "iterator", "keywords"]),
            "links_kind": rng.choice(["set", "frozenset"]), "states_kind": rng.choice(["list", "tuple"]),
            "ci_subclass": rng.random() < 0.3}


def gen_chip(rng):
    c = gen_chip_state(rng, gen_template(rng), [])
    if rng.random() < 0.5:
        c["cores"] = rng.randrange(19)
        c["links"] = sorted(l for l in range(6) if rng.random() < 0.5)
        c["sdram"], c["sram"], c["rtr"] = edge(rng, 2 ** 32), edge(rng, 2 ** 32), edge(rng, 2048)
        c["eth_up"] = rng.random() < 0.5
        c["ip"] = [edge(rng, 256) for _ in range(4)]
    case = {"kind": "chip", "state": c, "x": edge(rng, 256), "y": edge(rng, 256), "malform": None}
    r = rng.random()
    if r < 0.08:
        case["malform"] = ["bad_state", rng.randrange(18), rng.choice([12, 13, 14, 16, 255])]
    elif r < 0.12:
        case["malform"] = ["short", rng.randrange(24)]
    elif r < 0.16:
        case["malform"] = ["long", rng.randrange(1, 9)]
    elif r < 0.2:
        case["malform"] = ["high_bits", rng.randrange(1, 64)]     # bits 31:26 and 7:5 of arg1 set
    return case


def ascii_text(rng, n, alphabet=b"abcXYZ 019_-/&.\t"):
    return [rng.choice(alphabet) for _ in range(n)]


def gen_blocks(rng, size, ascii_only=False, nblocks=None):
    if nblocks is None:
        nblocks = rng.choice([0, 1, 1, 2, 3, 4])
    base = rng.choice([0x60000000, 0x60000000, 0x7fe00000, 0xc0000000])      # also across / above 2**31
    blocks = []
    for i in range(nblocks):
        ln = rng.choice([0, 1, size - 1, size, size, rng.randrange(size + 1), size + 5, 2 ** 32 - 1])
        data = ascii_text(rng, size) if ascii_only or rng.random() < 0.8 else [rng.randrange(256) for _ in range(size)]
        blocks.append({"addr": base + (0x100000 if nblocks < 100 else 0x4000) * i + 4 * rng.randrange(1, 1000),
                       "time": edge(rng, 2 ** 32),
                       "ms": edge(rng, 2 ** 32), "len": ln, "data": data})
    rng.shuffle(blocks)
    return blocks


def gen_core(rng, size=None, session=False, nblocks=None):
    if size is None:
        size = rng.choice([4, 16, 60, 252, 256, 1000, 16384]) if rng.random() < 0.9 else 4 * rng.randrange(1, 200)
    blocks = gen_blocks(rng, size, ascii_only=session and rng.random() < 0.8, nblocks=nblocks)
    name = ascii_text(rng, rng.choice([0, 1, 5, 15, 16]), b"abcdefXYZ_0189")
    st = {"registers": [edge(rng, 2 ** 32) for _ in range(8)], "program_state_register": edge(rng, 2 ** 32),
          "stack_pointer": edge(rng, 2 ** 32), "link_register": edge(rng, 2 ** 32),
          "rt_code": rng.randrange(21), "phys_cpu": edge(rng, 256), "cpu_state": rng.choice(VALID_STATES),
          "mbox_ap_msg": edge(rng, 2 ** 32), "mbox_mp_msg": edge(rng, 2 ** 32), "mbox_ap_cmd": edge(rng, 256),
          "mbox_mp_cmd": edge(rng, 256), "sw_count": edge(rng, 65536), "sw_file": edge(rng, 2 ** 32),
          "sw_line": edge(rng, 2 ** 32), "time": edge(rng, 2 ** 32), "app_name": name, "iobuf_address": 0,
          "app_id": edge(rng, 256), "version": [edge(rng, 256) for _ in range(3)],
          "user_vars": [edge(rng, 2 ** 32) for _ in range(4)]}
    case = {"kind": "core", "x": rng.randrange(4), "y": rng.randrange(4), "p": rng.randrange(18),
            "vcpu_base": 0xe5007000 + 4 * rng.randrange(64), "iobuf_size": size, "status": st,
            "sw_top": edge(rng, 256), "name16": name + [0] * (16 - len(name)),
            "pad": [rng.randrange(256) for _ in range(16)], "blocks": blocks,
            "diag": [edge(rng, 2 ** 32) for _ in range(16)], "buf": rng.choice([256, 256, 128, 64, 512]),
            "malform": None}
    r = rng.random()
    if session:
        pass
    elif r < 0.06:
        case["malform"] = "cpu_state"
        st["cpu_state"] = rng.choice([12, 13, 14, 16, 200, 255])
    elif r < 0.12:
        case["malform"] = "rt_code"
        st["rt_code"] = rng.choice([21, 22, 100, 255])
    return case


# --------------------------------------------------------------------------- struct layouts
SV_SWAPS = [("p2p_dims", "p2p_addr"), ("iobuf_size", "sys_bufs"), ("vcpu_base", "sdram_sys"), ("num_cpus", "rom_cpus"),
            ("rtr_copy", "sys_heap")]
VCPU_SWAPS = [("iobuf", "time"), ("cpu_state", "phys_cpu"), ("r0", "r7"), ("user0", "user3"), ("psr", "lr")]
#            variant: (swap sv fields, vcpu blocks of 160 bytes with every field 16 bytes further, swap vcpu fields)
LAYOUT_FLAGS = {0: (False, False, False), 1: (False, False, False), 2: (True, False, False), 3: (False, True, False),
                4: (False, False, True), 5: (True, True, True)}
_LAYOUT_TEXT, _LAYOUT_JSON = {}, {}


def layout_text(variant):
    """the text of a struct file: variant 0 = rig's sark.struct; variant v > 0 = the same variables with the sv
    block 0x100 v lower and, depending on v, same-sized sv fields exchanged, larger vcpu blocks with every field
    moved, same-sized vcpu fields exchanged (what booting another system image gives)"""
    if variant not in _LAYOUT_TEXT:
        import re
        from harness import common
        text = open(os.path.join(common.REPO, "rig", "boot", "sark.struct"), "rb").read().decode()
        if variant:
            sv_swap, vcpu_grow, vcpu_swap = LAYOUT_FLAGS[variant]
            fld = re.compile(r"^(\S+)(\s+)(\S+)(\s+)(\S+)(\s+\S+\s+\S+.*)$")
            cur, offs = None, {}
            for line in text.splitlines():
                m = re.match(r"name\s*=\s*(\S+)", line)
                if m:
                    cur = m.group(1)
                m = fld.match(line)
                if m and not line.startswith("#") and "=" not in line.split("#")[0]:
                    offs.setdefault((cur, m.group(1).split("[")[0]), int(m.group(5), 0))
            partner = {}
            for st, pairs, on in (("sv", SV_SWAPS, sv_swap), ("vcpu", VCPU_SWAPS, vcpu_swap)):
                for a, b in (pairs if on else []):
                    partner[(st, a)], partner[(st, b)] = (st, b), (st, a)
            out, cur = [], None
            for line in text.splitlines():
                m = re.match(r"name\s*=\s*(\S+)", line)
                if m:
                    cur = m.group(1)
                m = fld.match(line)
                if re.match(r"base\s*=", line) and cur == "sv":
                    line = "base = %#x" % (int(line.split("=")[1].split("#")[0], 0) - 0x100 * variant)
                elif re.match(r"size\s*=", line) and cur == "vcpu" and vcpu_grow:
                    line = "size = %d" % (int(line.split("=")[1].split("#")[0], 0) + 32)
                elif m and not line.startswith("#") and "=" not in line.split("#")[0]:
                    key = (cur, m.group(1).split("[")[0])
                    off = offs[partner.get(key, key)] if key in partner else int(m.group(5), 0)
                    if cur == "vcpu" and vcpu_grow:
                        off += 16
                    line = m.group(1) + m.group(2) + m.group(3) + m.group(4) + "%#04x" % off + m.group(6)
                out.append(line)
            text = "\n".join(out) + "\n"
        _LAYOUT_TEXT[variant] = text
    return _LAYOUT_TEXT[variant]


def rig_structs(variant):
    """the struct definitions as rig parses them (a fresh parse for every controller)"""
    from rig.machine_control import struct_file
    return struct_file.read_struct_file(layout_text(variant).encode())


def layout_json(variant):
    """the same definitions parsed independently of rig, for the Lean machine specification and model"""
    if variant not in _LAYOUT_JSON:
        from harness.gen.c14 import parse_struct_text
        st = parse_struct_text(layout_text(variant))
        fl = lambda fs: [[f[0], f[1], f[2], bool(f[3]), f[4]] for f in fs]  # noqa: E731
        _LAYOUT_JSON[variant] = {"sv_base": st["sv"]["base"], "sv_fields": fl(st["sv"]["fields"]),
                                 "vcpu_size": st["vcpu"]["size"], "vcpu_fields": fl(st["vcpu"]["fields"])}
    return _LAYOUT_JSON[variant]


def lay(req, c, variant):
    """the request made under a struct layout: the bundled definitions go through the original (theorem-carrying)
    model functions unless the case asks for the explicit form"""
    if variant or c.get("explicit_default"):
        req["layout"] = layout_json(variant)
    return req


def new_controller(net, variant, n_tries=3, timeout=2.0):
    if not variant:
        return simmachine.make_controller(net, n_tries=n_tries, timeout=timeout)
    from rig.machine_control.machine_controller import MachineController
    return MachineController("sim", n_tries=n_tries, timeout=timeout, structs=rig_structs(variant))


# --------------------------------------------------------------------------- sessions
SESSION_OPS = ["iobuf_bytes", "iobuf", "status", "chip_info", "diag", "p2p", "system_info", "sv", "vcpu", "links", "sver"]
SESSION_FAMILIES = [["iobuf_bytes", "iobuf"], ["iobuf_bytes", "iobuf"], ["status", "vcpu"], ["chip_info", "system_info"],
                    ["chip_info", "links"], ["sver"],
                    ["diag"], ["p2p", "system_info"], ["sv"], ["vcpu", "iobuf_bytes"]]
SESSION_SIZES = [4, 16, 60, 64, 128, 252, 256, 1000]
STRUCT_OPS = ["iobuf_bytes", "status", "vcpu", "sv", "p2p", "system_info"]      # probes that read struct fields
MUTABLE_OPS = ("chip_info", "system_info", "status", "p2p")     # probes that return mutable objects
SV_NAMES = ["iobuf_size", "vcpu_base", "p2p_dims", "sdram_sys", "rtr_copy", "num_cpus", "sdram_base", "sysram_base",
            "sys_heap", "sdram_heap", "sysram_heap", "sys_bufs", "hop_table", "alloc_tag", "rtr_free", "app_data",
            "shm_buf", "p2p_addr", "eth_addr", "p2p_root", "unix_time", "cpu_clk", "board_info", "fr_copy"]
VCPU_NAMES = {"cpu_state": "cpu_state", "rt_code": "rt_code", "time": "time", "sw_count": "sw_count",
              "iobuf": "iobuf_address", "app_id": "app_id", "phys_cpu": "phys_cpu", "lr": "link_register",
              "sp": "stack_pointer", "user0": ("user_vars", 0), "user3": ("user_vars", 3), "r3": ("registers", 3)}
_SV_WIDTH = {}


def sv_width(name):
    if not _SV_WIDTH:
        from harness import common
        from harness.gen.c14 import parse_struct
        for f in parse_struct(common.REPO)["sv"]["fields"]:
            _SV_WIDTH.setdefault(f[0], f[2])
    return _SV_WIDTH[name]


def gen_epoch(rng, coords, size, vbase, tmpl, clear):
    """everything one chip holds at one moment: its system variables, one core's vcpu block / console chain /
    router counters, its answer to `info` and its P2P table"""
    e = gen_core(rng, size=size, session=True)
    e = {k: e[k] for k in ("p", "vcpu_base", "iobuf_size", "status", "sw_top", "name16", "pad", "blocks", "diag")}
    e["vcpu_base"] = vbase
    e["sv"] = [[n, edge(rng, 256 ** sv_width(n))] for n in SV_NAMES[3:]]
    e["info"] = gen_chip_state(rng, tmpl, sorted(rng.sample(range(1, 18), rng.choice([0, 1, 2]))))
    w, h = rng.randrange(1, 6), rng.choice([1, 2, 3, 4, 5, 8, 9])
    p2p = {}
    for xy in coords:
        if rng.random() < 0.8:
            p2p[xy] = rng.choice([0, 1, 2, 3, 4, 5, 7])
    for _ in range(rng.randrange(0, 4)):
        p2p[(rng.randrange(w + 1), rng.randrange(h + 1))] = rng.choice([0, 2, 6, 7])
    if not any(x < w and y < h and r != 6 for (x, y), r in p2p.items()):
        p2p[(0, 0)] = 1
    e["p2p"] = {"dim_w": w, "dim_h": h, "p2p": sorted([x, y, r] for (x, y), r in p2p.items())}
    e["clear"] = clear
    e["sver"] = gen_sver(rng)        # this chip's software answers `sver` with its own name / version / buffer size
    sync_states(e)
    return e


def sync_states(e):
    """one machine state: the state byte of core p in the chip's `info` answer is the cpu_state of its vcpu block,
    and the core that answers `sver` is running"""
    e["info"]["states"][e["p"]] = e["status"]["cpu_state"]
    e["info"]["states"][sver_core(e)] = RUN


def gen_session(rng):
    """one controller, 2-6 probes addressed to different chips whose system variables differ, with console
    output / state changes and re-boots (all sizes change) between probes"""
    import copy
    n = rng.choice([2, 2, 3, 4])
    coords = rng.sample([(x, y) for x in range(4) for y in range(3)], n)
    tmpl = gen_template(rng)
    # struct layouts: one for every chip (= machine image); a layout session has two or three different ones
    multi = rng.random() < 0.4
    pool = rng.sample(sorted(LAYOUT_FLAGS), rng.choice([2, 2, 3])) if multi else [0]

    def fresh_params():
        sizes = rng.sample(SESSION_SIZES, n)
        if rng.random() < 0.5:
            sizes.sort()
        bases = [0xe5007000 + 0x400 * k + 4 * rng.randrange(64) for k in rng.sample(range(8), n)]
        return sizes, bases
    sizes, bases = fresh_params()
    chips = [{"x": xy[0], "y": xy[1], "epochs": [gen_epoch(rng, coords, sizes[i], bases[i], tmpl, True)]}
             for i, xy in enumerate(coords)]
    for i, ch in enumerate(chips):
        ch["epochs"][0]["layout"] = pool[i % len(pool)]
    cur = [0] * n
    family = rng.choice(SESSION_FAMILIES) if rng.random() < 0.7 else SESSION_OPS
    steps = []
    order = list(range(n))
    rng.shuffle(order)
    for k in range(rng.randrange(2, 7)):
        st = {"set": [], "mut": None}
        target = order[k % n] if rng.random() < 0.8 else rng.randrange(n)
        if k > 0 and rng.random() < 0.35:
            mut = rng.choice(["print", "print", "state", "reboot"])
            st["mut"] = mut
            if mut == "reboot":
                sizes, bases = fresh_params()
                for i in range(n):
                    chips[i]["epochs"].append(gen_epoch(rng, coords, sizes[i], bases[i], tmpl, True))
                    chips[i]["epochs"][-1]["layout"] = rng.choice(pool)      # booted with another image
                    cur[i] = len(chips[i]["epochs"]) - 1
                    st["set"].append([i, cur[i]])
            else:
                i = rng.randrange(n)
                e = copy.deepcopy(chips[i]["epochs"][cur[i]])
                e["clear"] = False
                if mut == "print":
                    e["blocks"] = gen_blocks(rng, e["iobuf_size"], ascii_only=rng.random() < 0.8)
                else:
                    e["status"]["cpu_state"] = rng.choice(VALID_STATES)
                    e["status"]["rt_code"] = rng.randrange(21)
                    e["status"]["time"] = edge(rng, 2 ** 32)
                    e["info"]["states"] = gen_states(rng, [])
                    e["diag"] = [edge(rng, 2 ** 32) for _ in range(16)]
                    sync_states(e)
                chips[i]["epochs"].append(e)
                cur[i] = len(chips[i]["epochs"]) - 1
                st["set"].append([i, cur[i]])
                if rng.random() < 0.7:
                    target = i
        st["chip"] = target
        st["op"] = rng.choice(family) if rng.random() < 0.8 else rng.choice(SESSION_OPS)
        if st["op"] == "sv":
            st["name"] = rng.choice(SV_NAMES[:6] + SV_NAMES)
        elif st["op"] == "vcpu":
            st["name"] = rng.choice(sorted(VCPU_NAMES))
        steps.append(st)
    if rng.random() < 0.5:
        # the caller edits what a probe returned, then the same probe is made again (machine unchanged) by the
        # same and / or a second controller
        cand = [j for j, st in enumerate(steps) if st["op"] in MUTABLE_OPS]
        if not cand:
            j = rng.randrange(len(steps))
            steps[j]["op"] = rng.choice(["chip_info", "chip_info", "system_info"])
            steps[j].pop("name", None)
            cand = [j]
        j = rng.choice(cand)
        steps[j]["mutate"] = rng.randrange(1 << 30)
        again = []
        for ctl in rng.choice([[0], [1], [0, 1], [1, 0]]):
            st = {"set": [], "mut": None, "chip": steps[j]["chip"], "op": steps[j]["op"], "ctl": ctl}
            if rng.random() < 0.3:
                st["mutate"] = rng.randrange(1 << 30)
            again.append(st)
        steps[j + 1:j + 1] = again
        for st in steps:
            if "ctl" not in st and rng.random() < 0.25:
                st["ctl"] = 1
    if multi:
        # the same struct-reading probe on a chip of one layout and then on a chip of another layout comes first
        a, b = 0, 1
        op = rng.choice(STRUCT_OPS)
        pre = [{"set": [], "mut": None, "chip": i, "op": op} for i in (a, b)]
        if op == "sv":
            pre[0]["name"] = pre[1]["name"] = rng.choice(SV_NAMES[:6] + SV_NAMES)
        elif op == "vcpu":
            pre[0]["name"] = pre[1]["name"] = rng.choice(sorted(VCPU_NAMES))
        steps[0:0] = pre
        # one controller per layout (constructed with structs=...), or controllers whose .structs is replaced
        # whenever they turn to a chip of another layout (what boot() does)
        per_layout = rng.random() < 0.5
        for st in steps:
            if per_layout:
                st["ctl"] = 0 if st["chip"] % len(pool) == 0 else 1
            elif "ctl" not in st and rng.random() < 0.3:
                st["ctl"] = 1
    # the same call repeated at once
    if rng.random() < 0.3:
        j = rng.randrange(len(steps))
        steps.insert(j + 1, dict({k: v for k, v in steps[j].items() if k not in ("mutate", "fault")}, set=[], mut=None))
    for st in steps:
        # calling convention and kind of the integer arguments
        st["style"] = rng.choice(["pos", "pos", "kw", "ctx"])
        st["kind"] = rng.choice(["int", "int", "np", "bool", "enum"])
        # the network fails once during the probe: one datagram lost (the retry gets through), a command and all its
        # retries lost, or an error reply - and the controller is used again afterwards
        if rng.random() < 0.12 and "fault" not in st and not st.get("after_fault"):
            st["fault"] = [rng.choice(["lose1", "loseall", "loseall", "rc"]), rng.choice([0, 1, 2, 3] + list(range(12)))]
    # after a probe during which the network failed, the caller usually makes the same call again on the same controller
    for j in range(len(steps) - 1, -1, -1):
        if "fault" in steps[j] and rng.random() < 0.7:
            steps.insert(j + 1, dict({k: v for k, v in steps[j].items() if k not in ("mutate", "fault")},
                                     set=[], mut=None, after_fault=True))
    return {"kind": "session", "chips": chips, "steps": steps, "root": rng.randrange(n),
            "buf": rng.choice([256, 256, 128, 64, 512]), "explicit_default": rng.random() < 0.5,
            "n_tries": [rng.choice([1, 2, 3, 5]), rng.choice([2, 3, 4])], "timeout": rng.choice([1.0, 2.0, 5.0])}


def gen_sver(rng):
    name = ascii_text(rng, rng.choice([0, 1, 5, 15]), b"SC&MPARKspinaker/ ")
    case = {"kind": "sver", "x": edge(rng, 256), "y": edge(rng, 256), "p": rng.randrange(18),
            "pcpu": edge(rng, 256), "vcpu": edge(rng, 256), "buf": edge(rng, 65536), "date": edge(rng, 2 ** 32),
            "name": name, "legacy": rng.random() < 0.4}
    if case["legacy"]:
        case["major"] = rng.choice([0, 1, 654, rng.randrange(655)])
        case["minor"] = rng.choice([0, 99, rng.randrange(100)])
        if case["major"] * 100 + case["minor"] >= 0xFFFF:
            case["minor"] = 34
    else:
        def digits():
            n = rng.choice([1, 1, 2, 3, 6])
            return [48 + rng.randrange(10) for _ in range(n)]
        case["ma"], case["mi"], case["pa"] = digits(), digits(), digits()
        lab = []
        if rng.random() < 0.6:
            lab = [rng.choice(b"-+ ._abz")] + ascii_text(rng, rng.randrange(8), b"dev.12-+rc ")
        case["labels"] = lab
    return case


# --------------------------------------------------------------------------- evaluation
def mk_chipinfo(c, case=None):
    from rig.machine_control.machine_controller import ChipInfo
    from rig.machine_control.consts import AppState
    from rig.links import Links
    case = case or {}
    cls = ChipInfo
    if case.get("ci_subclass"):
        class MyChipInfo(ChipInfo):
            """the caller's own subclass of the record type"""
            __slots__ = ()
        cls = MyChipInfo
    links = (frozenset if case.get("links_kind") == "frozenset" else set)(Links(l) for l in c["links"])
    states = (tuple if case.get("states_kind") == "tuple" else list)(AppState(s) for s in c["core_states"])
    return cls(num_cores=c["num_cores"], core_states=states, working_links=links,
               largest_free_sdram_block=c["sdram"], largest_free_sram_block=c["sram"],
               largest_free_rtr_mc_block=c["rtr"], ethernet_up=c["eth_up"], ip_address=".".join(map(str, c["ip"])),
               local_ethernet_chip=tuple(c["eth_chip"]))


def mk_sysinfo(c):
    """the description of a `direct` case, built the way the case says"""
    from rig.machine_control.machine_controller import SystemInfo
    pairs = [((ch["x"], ch["y"]), mk_chipinfo(ch, c)) for ch in c["chips"]]
    kind = c.get("si_kind", "plain")
    if kind == "subclass":
        class MySystemInfo(SystemInfo):
            """the caller's own subclass of the description type"""
            note = "mine"
        return MySystemInfo(c["width"], c["height"], dict(pairs))
    if kind == "pairs":
        return SystemInfo(c["width"], c["height"], pairs)
    if kind == "iterator":
        return SystemInfo(c["width"], c["height"], iter(pairs))
    if kind == "keywords":
        si = SystemInfo(height=c["height"], width=c["width"])
        si.update(pairs)
        return si
    return SystemInfo(c["width"], c["height"], dict(pairs))


def state_only(c):
    return {k: c[k] for k in ("cores", "states", "links", "sdram", "sram", "rtr", "eth_up", "ip", "eth_chip")}


def machine_state_json(case):
    return {"dim_w": case["dim_w"], "dim_h": case["dim_h"], "p2p": case["p2p"],
            "chips": [dict(state_only(c), x=c["x"], y=c["y"]) for c in case["chips"]]}


def malformed_reply(rep, mal):
    rep = dict(rep, data=list(rep["data"]))
    if mal is None:
        return rep
    if mal[0] == "bad_state":
        rep["data"][mal[1]] = mal[2]
    elif mal[0] == "short":
        rep["data"] = rep["data"][:mal[1]]
    elif mal[0] == "long":
        rep["data"] = rep["data"] + [0xAA] * mal[1]
    elif mal[0] == "high_bits":
        rep["arg1"] |= ((mal[1] & 7) << 5) | ((mal[1] >> 3) << 26)
    return rep


_TAINTED = [None]      # key of the first finding that results depend on the history of this process (caller edits,
#                        struct layouts used before): from then on nothing in this process is a clean reference
LAYOUT_OPS = ("iobuf", "status", "p2p_table", "system_info", "sv_field", "vcpu_field")
CORE_FIELDS = ("p", "vcpu_base", "iobuf_size", "status", "sw_top", "name16", "pad", "blocks", "diag")
SESSION_KEYS = {"iobuf": "iobuf-wrong", "iobuf_bytes": "iobuf-wrong", "status": "status-wrong",
                "chip_info": "chip-info-wrong", "links": "chip-info-wrong", "sver": "version-wrong", "diag": "router-counters-wrong", "p2p": "system-info-wrong",
                "system_info": "system-info-wrong", "sv": "struct-field-wrong", "vcpu": "struct-field-wrong"}


def session_spec_reqs(L, c):
    """(slot, request): the Lean machine specification lays out every epoch of every chip"""
    for ci, ch in enumerate(c["chips"]):
        for ek, e in enumerate(ch["epochs"]):
            v = e.get("layout", 0)
            yield ("img", ci, ek, "core"), lay(L("spec_core", **{f: e[f] for f in CORE_FIELDS}), c, v)
            yield ("img", ci, ek, "info"), L("spec_info", **e["info"])
            yield ("img", ci, ek, "p2p"), lay(L("spec_p2p", chips=[], **e["p2p"]), c, v)
            yield ("img", ci, ek, "sv"), lay(L("spec_sv", fields=e["sv"]), c, v)
            if "sver" in e:
                sv = dict(e["sver"], x=ch["x"], y=ch["y"])
                if sv["legacy"]:
                    yield ("img", ci, ek, "sver"), L("spec_sver_legacy", **{f: sv[f] for f in (
                        "x", "y", "pcpu", "vcpu", "buf", "date", "major", "minor", "name")})
                else:
                    yield ("img", ci, ek, "sver"), L("spec_sver_string", **{f: sv[f] for f in (
                        "x", "y", "pcpu", "vcpu", "buf", "date", "name", "ma", "mi", "pa", "labels")})


def session_image(w, ci, ek):
    im = w["img"][(ci, ek)]
    return im["core"]["mem"] + im["p2p"]["mem"] + im["sv"]["mem"]


def sver_core(e):
    """the core whose `sver` answer the epoch defines: an application core that runs software (never core 0 - the
    controller asks the root chip's core 0 for the machine's SCP buffer size - and not the core whose status block
    the epoch defines, which may be in any state)"""
    return 1 if e["p"] != 1 else 2


def core_alive(e):
    """does the core whose status block the epoch defines answer commands itself?"""
    return e["p"] == 0 or e["info"]["states"][e["p"]] in _ANSWERING[0]


def session_apply(m, c, w, ci, ek):
    ch = c["chips"][ci]
    xy = (ch["x"], ch["y"])
    e = ch["epochs"][ek]
    if e["clear"]:
        m.mem[xy] = {}                      # re-boot: nothing of the previous life remains
        for k in [k for k in m.sver if k[:2] == xy]:
            del m.sver[k]
    for addr, data in session_image(w, ci, ek):
        m.poke(xy[0], xy[1], addr, bytes(data))
    m.info[xy] = w["img"][(ci, ek)]["info"]
    m.set_states(xy[0], xy[1], e["info"]["states"])
    if "sver" in w["img"][(ci, ek)]:
        m.sver[xy + (sver_core(e),)] = w["img"][(ci, ek)]["sver"]


def session_op(c, w, st, cur):
    """the probe actually made: get_iobuf only for text that is ASCII (see CLAIM: UTF-8 out of scope)"""
    op = st["op"]
    if op == "iobuf" and not all(b < 128 for b in w["img"][(st["chip"], cur[st["chip"]])]["core"]["text"]):
        op = "iobuf_bytes"
    return op


def session_probe(mc, c, w, st, cur):
    """(canonical result, the object the probe returned, canonicaliser); the call is made in the step's calling
    convention (positional / keyword / contextual arguments) with its integer arguments in the step's kind"""
    ch = c["chips"][st["chip"]]
    kind, style = st.get("kind", "int"), st.get("style", "pos")
    x, y = as_kind(ch["x"], kind), as_kind(ch["y"], kind)
    p = as_kind(ch["epochs"][cur[st["chip"]]]["p"], kind)
    op = session_op(c, w, st, cur)

    def call(name, lead, with_p, **extra):
        """mc.<name>(*lead, [p], x, y) in the documented order"""
        f = getattr(mc, name)
        if style == "kw":
            kw = dict(x=x, y=y, **extra)
            if with_p:
                kw[with_p] = p
            return f(*lead, **kw)
        if style == "ctx":
            kw = dict(x=x, y=y)
            # FINDING (reported, kept out of the generators): with the core number in the CONTEXT, rig's internal
            # reads of sv / the vcpu block / the console chain pick it up and are addressed to that core instead of
            # the monitor, so the probe times out for every core that does not answer commands.  The core number goes
            # into the context only for cores that answer (C14_CTX_ANY_CORE=1 lifts this, to show the finding / test
            # a repair).
            alive = core_alive(ch["epochs"][cur[st["chip"]]]) or os.environ.get("C14_CTX_ANY_CORE") == "1"
            if with_p == "p" and alive:
                kw["p"] = p
                with mc(**kw):
                    return f(*lead, **extra)
            with mc(**kw):
                return f(*lead, **dict(extra, **({with_p: p} if with_p else {})))
        return None

    if op == "iobuf_bytes":
        raw = call("get_iobuf_bytes", (), "p") if style != "pos" else mc.get_iobuf_bytes(p, x, y)
        return list(raw), raw, list
    if op == "iobuf":
        raw = call("get_iobuf", (), "p") if style != "pos" else mc.get_iobuf(p, x, y)
        return list(raw.encode("utf-8")), raw, lambda r: list(r.encode("utf-8"))
    if op == "status":
        raw = call("get_processor_status", (), "p") if style != "pos" else mc.get_processor_status(p, x, y)
        return status_json(raw), raw, status_json
    if op == "chip_info":
        raw = call("get_chip_info", (), None) if style != "pos" else mc.get_chip_info(x, y)
        return ci_json(raw), raw, ci_json
    if op == "links":
        raw = call("get_working_links", (), None) if style != "pos" else mc.get_working_links(x, y)
        return sorted(int(l) for l in raw), raw, lambda r: sorted(int(l) for l in r)
    if op == "diag":
        raw = call("get_router_diagnostics", (), None) if style != "pos" else mc.get_router_diagnostics(x, y)
        return [int(v) for v in raw], raw, lambda r: [int(v) for v in r]
    if op == "p2p":
        raw = call("get_p2p_routing_table", (), None) if style != "pos" else mc.get_p2p_routing_table(x, y)
        canon = lambda r: sorted([int(k[0]), int(k[1]), int(v)] for k, v in r.items())  # noqa: E731
        return canon(raw), raw, canon
    if op == "system_info":
        raw = call("get_system_info", (), None) if style != "pos" else mc.get_system_info(x, y)
        return si_json(raw), raw, si_json
    if op == "sver":
        p = as_kind(sver_core(ch["epochs"][cur[st["chip"]]]), kind)
        raw = call("get_software_version", (), "processor") if style != "pos" else mc.get_software_version(x, y, p)
        return coreinfo_json(raw), raw, coreinfo_json
    if op == "sv":
        # the optional core number of read_struct_field gets a non-default value in the keyword / context styles
        # (addressed to the core itself only when that core answers commands; otherwise to the monitor)
        alive = core_alive(ch["epochs"][cur[st["chip"]]])
        raw = (call("read_struct_field", ("sv", st["name"]), "p" if alive else None) if style != "pos"
               else mc.read_struct_field("sv", st["name"], x, y))
        return int(raw), raw, int
    if op == "vcpu":
        raw = (call("read_vcpu_struct_field", (st["name"],), "p") if style != "pos"
               else mc.read_vcpu_struct_field(st["name"], x, y, p))
        return int(raw), raw, int
    raise KeyError(op)


def run_session(c, w, only=None):
    """the session on ONE controller (steps with "ctl": 1 on a second one), the caller editing the returned object
    after steps that say so, the network failing during steps that say so; or, with `only`, the machine brought to
    the state of step `only` and that single probe made by a fresh controller.  Returns results, the epoch of every
    chip at each step, and the edits made; w["kept_changed"] lists results that changed after they were returned"""
    root = c["chips"][c["root"]]
    m = ProbeMachine(root=(root["x"], root["y"]), buffer_size=c["buf"])
    cur = [0] * len(c["chips"])
    for ci in range(len(cur)):
        session_apply(m, c, w, ci, 0)
    budget = Budget(machine=m)
    net = simnet.Net(m.handle, budget)
    out, snaps, edits, kept, faults = [], [], [], [], []
    tries = c.get("n_tries", [3, 3])
    with simnet.installed(net):
        mcs, ctl_layout, restructs = {}, {}, [0]
        for k, st in enumerate(c["steps"]):
            for ci, ek in st["set"]:
                session_apply(m, c, w, ci, ek)
                cur[ci] = ek
            snaps.append(list(cur))
            edits.append([])
            faults.append(False)
            if only is None or only == k:
                ctl = st.get("ctl", 0) if only is None else "fresh"
                v = c["chips"][st["chip"]]["epochs"][cur[st["chip"]]].get("layout", 0)
                n_tries = tries[ctl] if ctl in (0, 1) else 3
                if ctl not in mcs:
                    mcs[ctl] = new_controller(net, v, n_tries, c.get("timeout", 2.0))   # structs=<that layout>
                    ctl_layout[ctl] = v
                elif ctl_layout[ctl] != v:
                    mcs[ctl].structs = rig_structs(v)          # what boot() does with the booted image's definitions
                    ctl_layout[ctl] = v
                    restructs[0] += 1
                plan = st.get("fault") if only is None else None
                if plan and plan[0] == "loseall":
                    plan = plan[:2] + [n_tries]
                budget.reset(plan)
                res = guard(lambda: limited(lambda: session_probe(mcs[ctl], c, w, st, cur)))
                faults[-1] = budget.hit
                if "ok" in res:
                    canon, raw, fn = res["ok"]
                    res = {"ok": canon}
                    if only is None and st.get("mutate") is not None:
                        edits[-1] = mutate_result(raw, session_op(c, w, st, cur), st["mutate"])
                    elif only is None:
                        kept.append((k, raw, fn, canon))       # the caller keeps what it was given
                out.append(res)
            else:
                out.append(None)
            if only == k:
                break
        if only is None:
            # everything the caller kept (and did not edit itself) is still what it was when it was returned
            w["kept_changed"] = [(k, before, fn(raw)) for k, raw, fn, before in kept if fn(raw) != before]
    if only is None:
        w["restructs"] = restructs[0]
        w["faults"] = faults
    return out, snaps, edits


def session_reqs(L, c, w, k, cur, impl):
    """(model request, oracle request or None, oracle key) for step k with the chips at epochs `cur`"""
    st = c["steps"][k]
    ci = st["chip"]
    ch = c["chips"][ci]
    e = ch["epochs"][cur[ci]]
    im = w["img"][(ci, cur[ci])]
    mem = session_image(w, ci, cur[ci])
    got = impl.get("ok") if impl else None
    op = session_op(c, w, st, cur)
    core = dict(status=e["status"], blocks=e["blocks"], diag=e["diag"])
    okey = None
    L0 = L
    L = lambda o, **kw: lay(L0(o, **kw), c, e.get("layout", 0)) if o in LAYOUT_OPS else L0(o, **kw)  # noqa: E731
    if op in ("iobuf", "iobuf_bytes"):
        model, oracle, okey = L("iobuf", mem=mem, p=e["p"], fuel=len(e["blocks"]) + 2), L("core_ok", got_text=got, **core), "text"
    elif op == "status":
        model, oracle, okey = L("status", mem=mem, p=e["p"]), L("core_ok", got_status=got, **core), "status"
    elif op == "diag":
        model, oracle, okey = L("diag", mem=mem), L("core_ok", got_diag=got, **core), "diag"
    elif op == "chip_info":
        model, oracle = L("dec_info", **im["info"]), L("info_ok", state=e["info"], got=got)
    elif op == "links":
        model, oracle, okey = L("dec_info", **im["info"]), L("spec_view", **e["info"]), ("links", got)
    elif op == "sver":
        model = L("dec_sver", **im["sver"])
        oracle = L("sver_ok", got=got, **{f: v for f, v in dict(e["sver"], x=ch["x"], y=ch["y"]).items() if f != "kind"})
    elif op == "p2p":
        model, oracle = L("p2p_table", mem=mem), L("p2p_ok", state=dict(e["p2p"], chips=[]), got=got)
    elif op == "system_info":
        others = [(c["chips"][j], c["chips"][j]["epochs"][cur[j]], w["img"][(j, cur[j])]) for j in range(len(cur))]
        model = L("system_info", mem=mem, replies=[dict(i["info"], x=h["x"], y=h["y"]) for h, _, i in others])
        oracle = L("sysinfo_ok", got=got,
                   state=dict(e["p2p"], chips=[dict(state_only(ee["info"]), x=h["x"], y=h["y"]) for h, ee, _ in others]))
    elif op == "sv":
        want = {"iobuf_size": e["iobuf_size"], "vcpu_base": e["vcpu_base"],
                "p2p_dims": e["p2p"]["dim_w"] * 256 + e["p2p"]["dim_h"]}
        want.update({n: v for n, v in e["sv"]})
        model, oracle = L("sv_field", mem=mem, name=st["name"]), L("val_ok", want=want[st["name"]], got=got)
    else:
        src = VCPU_NAMES[st["name"]]
        want = im["core"]["status"][src] if isinstance(src, str) else im["core"]["status"][src[0]][src[1]]
        model, oracle = L("vcpu_field", mem=mem, p=e["p"], name=st["name"]), L("val_ok", want=want, got=got)
    if got is None or not nat_ok(got):
        oracle = None               # an error, or a negative number: never the machine's values
    return model, oracle, okey


def probe_in_new_process(c, w, k):
    """the single probe of step k by a new controller in a NEW PROCESS (machine brought to the state of step k):
    nothing any earlier probe, controller or case of this run left behind can reach it"""
    import json
    import subprocess
    import sys
    import tempfile
    with tempfile.NamedTemporaryFile("w", suffix=".json", delete=False) as f:
        json.dump({"c": c, "k": k, "img": [[ci, ek, v] for (ci, ek), v in w["img"].items()],
                   "answering": sorted(_ANSWERING[0])}, f)
    try:
        out = subprocess.run([sys.executable, "-c", "import sys; sys.path.insert(0, %r); sys.path.insert(0, %r); "
                              "from harness import c14; c14._child(%r)" % (common.VERIF, common.REPO, f.name)],
                             cwd=common.VERIF, capture_output=True, text=True, timeout=120,
                             env=dict(os.environ, RIG_REPO=common.REPO))
        return json.loads(out.stdout.strip().splitlines()[-1])
    except Exception as e:      # noqa: no verdict from a failed helper
        return {"err": "child failed: %s" % (e,)}
    finally:
        os.unlink(f.name)


def _child(path):
    import json
    d = json.load(open(path))
    _ANSWERING[0] = set(d["answering"])
    w = {"img": {(ci, ek): v for ci, ek, v in d["img"]}}
    print(json.dumps(run_session(d["c"], w, only=d["k"])[0][d["k"]]))


def session_layouts(c, w, k):
    """struct layouts of the chips probed up to and including step k"""
    return [c["chips"][st["chip"]]["epochs"][w["snaps"][j][st["chip"]]].get("layout", 0)
            for j, st in enumerate(c["steps"][:k + 1])]


def session_model_norm(op, model):
    if "ok" not in model:
        return model
    if op == "links":
        return {"ok": model["ok"]["links"]}
    if op == "p2p":
        return {"ok": sorted(model["ok"])}
    if op == "system_info":
        return {"ok": model["ok"]["sysinfo"]}
    return model


def session_verdict(r, okey):
    if isinstance(r, dict) and "proto_error" in r:
        return False                # the result is outside the value domain of the specification
    if isinstance(okey, tuple):             # the Lean specification's view of the chip, field okey[0], is okey[1]
        return r is not None and r[okey[0]] == okey[1]
    return r is not None and (r[okey] if okey else r) is True


def judge_session(ctx, c, w):
    L = lambda op, **kw: dict(kw, suite="c14", op=op)  # noqa: E731
    probed = set()
    first_bad = None
    for k, st in enumerate(c["steps"]):
        cur = w["snaps"][k]
        op = session_op(c, w, st, cur)
        impl = w["impl"][k]
        ctx.traces += 1
        ctx.tag("session_op_" + op, "session_mut_%s" % st["mut"], "session_style_" + st.get("style", "pos"),
                "session_kind_" + st.get("kind", "int"))
        probed.add(st["chip"])
        ok = "ok" in impl and session_verdict(w.get(("sess", k, "oracle")), w[("sess", k, "okey")])
        if w["faults"][k]:
            mode = st["fault"][0]
            if mode == "lose1" and c.get("n_tries", [3, 3])[st.get("ctl", 0)] > 1:
                ctx.tag("session_fault_lose1_retried")         # the retry gets through: judged like any probe
            else:
                # a command failed for good: the probe may raise SCPError (get_system_info instead treats a chip
                # that does not answer as dead); only the probes AFTER it are judged
                ctx.tag("session_fault_%s_%s" % (mode, "right" if ok else impl.get("err", "other-result")))
                continue
        cmp(ctx, "session." + op, impl, session_model_norm(op, w[("sess", k, "model")]), c)
        if not ok and first_bad is None:
            first_bad = k
    ctx.tag("session_steps_%d" % len(c["steps"]), "session_chips_%d" % len(probed))
    for k, st in enumerate(c["steps"]):
        if w["edits"][k]:
            ctx.tag("session_edit_" + session_op(c, w, st, w["snaps"][k]))
    if len(set(st.get("ctl", 0) for st in c["steps"])) > 1:
        ctx.tag("session_two_controllers")
    nlay = len(set(session_layouts(c, w, len(c["steps"]) - 1)))
    ctx.tag("session_layouts_%d" % nlay, "session_restruct" if w.get("restructs") else "session_no_restruct")
    if w["kept_changed"] and first_bad is None:
        k, before, after = w["kept_changed"][0]
        ctx.violation(_TAINTED[0] or "kept-result-changed",
                      "the result of step %d (%s), kept by the caller and never edited by it, was %.300r when it was "
                      "returned and is %.300r after the later probes of the session" % (
                          k, session_op(c, w, c["steps"][k], w["snaps"][k]), before, after), c)
    if first_bad is not None and str(w["impl"][first_bad].get("err", "")).startswith("DidNotReturn") and not _TAINTED[0]:
        k = first_bad
        st = c["steps"][k]
        ctx.violation("did-not-return", "step %d: %s on chip (%d, %d) did not return: %s (the Lean model of the probe "
                      "is a total function and returns %.200r)" % (
                          k, session_op(c, w, st, w["snaps"][k]), c["chips"][st["chip"]]["x"],
                          c["chips"][st["chip"]]["y"], w["impl"][k]["err"], w[("sess", k, "model")]), c)
    elif first_bad is not None:
        k = first_bad
        st = c["steps"][k]
        cur = w["snaps"][k]
        op = session_op(c, w, st, cur)
        impl = w["impl"][k]
        ch = c["chips"][st["chip"]]
        before = ["%s(%d,%d)" % (session_op(c, w, s2, w["snaps"][j]), c["chips"][s2["chip"]]["x"],
                                 c["chips"][s2["chip"]]["y"]) for j, s2 in enumerate(c["steps"][:k])]
        what = "step %d: %s on chip (%d, %d) by controller %d returned %.300r" % (
            k, op, ch["x"], ch["y"], st.get("ctl", 0), impl)
        # the identical probe (same chip, machine in the same state) made earlier in this session was right, and the
        # caller edited a returned object in between?
        same = [j for j in range(k) if c["steps"][j]["chip"] == st["chip"] and w["snaps"][j] == cur and
                session_op(c, w, c["steps"][j], cur) == op and c["steps"][j].get("name") == st.get("name") and
                c["steps"][j].get("style") == st.get("style") and c["steps"][j].get("kind") == st.get("kind")]
        edits = [e for j in range(same[-1] if same else k, k) for e in w["edits"][j]]
        if same and edits:
            _TAINTED[0] = "probe-affected-by-caller-mutation"
            ctx.violation("probe-affected-by-caller-mutation",
                          "after the caller edited objects that earlier probes had returned (%s), %s - not the machine's "
                          "values; the identical probe at step %d (machine unchanged since) returned the machine's "
                          "values %.200r" % ("; ".join(edits), what, same[-1], w["impl"][same[-1]]), c)
        elif _TAINTED[0]:
            # this process already showed that results depend on what happened before; a fresh controller or a
            # fresh session is no longer a clean reference
            ctx.violation(_TAINTED[0], what + " - after an earlier case of this run showed that results depend on the "
                          "history of the process", c)
        else:
            # the same probe by a fresh controller on the machine in the same state
            fresh = run_session(c, w, only=k)[0][k]
            _, oracle, okey = session_reqs(L, c, w, k, cur, fresh)
            fresh_ok = "ok" in fresh and oracle is not None and session_verdict(ctx.lean([oracle])[0], okey)
            child_ok = False
            if not fresh_ok:
                child = probe_in_new_process(c, w, k)
                _, oracle, okey = session_reqs(L, c, w, k, cur, child)
                child_ok = "ok" in child and oracle is not None and session_verdict(ctx.lean([oracle])[0], okey)
            if fresh_ok:
                ctx.violation("probe-depends-on-earlier-probe",
                              "%s - not the machine's values for that chip at that moment - after the probes %s on the "
                              "same controller; a fresh controller making this single probe on the same machine state "
                              "returns the machine's values %.200r" % (what, before, fresh), c)
            elif child_ok:
                _TAINTED[0] = "probe-depends-on-process-history"
                ctx.violation("probe-depends-on-process-history",
                              "%s - not the machine's values for that chip (laid out under struct layout %d) at that "
                              "moment - after the probes %s on chips of struct layouts %s in this session (earlier cases "
                              "of the run used the bundled definitions, layout 0); a new "
                              "controller with the right definitions in this process is wrong too (%.100r), the same "
                              "single probe in a new process returns the machine's values" % (
                                  what, session_layouts(c, w, k)[-1], before, session_layouts(c, w, k)[:-1], fresh), c)
            elif "err" in impl:
                ctx.violation(err_key(what), what, c)
            else:
                ctx.violation(SESSION_KEYS[op], what + " - not the machine's values", c)
    return len(probed) >= 2


# --------------------------------------------------------------------------- probe / derive / edit / probe again
def gen_derive(rng):
    """a machine, two controllers, and a script: probe (get_system_info or get_machine), derive (build_machine,
    build_core_constraints, target lengths, membership, dead sets), the caller editing the description or the
    derived objects in place, deriving and probing again"""
    c = gen_system(rng, False, small=rng.random() < 0.8)
    # chips that do not answer are simply absent from "chips" here
    c["kind"], c["silent"], c["rc_chips"] = "derive", [], []
    script = [{"act": "probe", "ctl": 0, "via": "system_info"}]
    for _ in range(rng.randrange(3, 8)):
        a = rng.choice(["derive", "derive", "edit_si", "edit_si", "edit_derived", "probe", "probe"])
        if a == "probe":
            script.append({"act": "probe", "ctl": rng.randrange(2), "via": rng.choice(["system_info", "system_info", "machine"])})
        elif a == "derive":
            script.append({"act": "derive"})
        else:
            script.append({"act": a, "seed": rng.randrange(1 << 30)})
            if a == "edit_derived" or rng.random() < 0.5:
                script.append({"act": "derive"})
    ctls = rng.choice([[0, 1], [1, 0], [0], [1]])
    script += [{"act": "probe", "ctl": k, "via": rng.choice(["system_info", "system_info", "machine"])} for k in ctls]
    script.append({"act": "derive"})
    c["script"] = script
    # the machine's image was built with other struct definitions: the controllers first talk to the machine before
    # it is booted (bundled definitions: they read sv.p2p_dims), then it is booted and boot() installs the image's
    # definitions in the controllers
    c["layout"] = rng.choice(sorted(LAYOUT_FLAGS)[1:]) if rng.random() < 0.4 else 0
    c["preboot"] = (rng.randrange(1, 9) * 256 + rng.randrange(1, 9)) if c["layout"] else None
    c["explicit_default"] = rng.random() < 0.5
    c["opts"] = gen_opts(rng)
    c["n_tries"] = [rng.choice([2, 3, 5]), rng.choice([1, 3])]
    return c


def run_derive(c, w):
    """run the script on the real code; one record per action"""
    import random
    root = tuple(c["root"])
    m = ProbeMachine(root=root, buffer_size=c["buf"])
    v = c.get("layout", 0)
    pre = c.get("preboot")
    for addr, data in (w["pre_mem"]["mem"] if pre is not None else w["p2p_mem"]["mem"]):
        m.poke(root[0], root[1], addr, bytes(data))
    for n, ch in enumerate(c["chips"]):
        m.info[(ch["x"], ch["y"])] = w["replies"][n]
        m.set_states(ch["x"], ch["y"], ch["states"])
    budget = Budget(machine=m)
    net = simnet.Net(m.handle, budget)
    recs = []
    si, keep = None, None
    kept = []           # [step, object, canonicaliser, canonical form when returned]: what the caller keeps unedited
    opts = c.get("opts")
    tries = c.get("n_tries", [3, 3])
    with simnet.installed(net):
        mcs = {}
        if pre is not None:
            for ctl in (0, 1):
                mcs[ctl] = new_controller(net, 0, tries[ctl])
                budget.reset()
                rec = guard(lambda: limited(lambda: int(mcs[ctl].read_struct_field("sv", "p2p_dims", *root))))
                recs.append(dict(rec, act="preboot", ctl=ctl))
            m.mem[root] = {}                                # booted: nothing of the previous life remains
            for addr, data in w["p2p_mem"]["mem"]:
                m.poke(root[0], root[1], addr, bytes(data))
            for ctl in (0, 1):
                mcs[ctl].structs = rig_structs(v)           # what boot() does
        for a in c["script"]:
            rec = {"act": a["act"]}
            if a["act"] == "probe":
                if a["ctl"] not in mcs:
                    mcs[a["ctl"]] = new_controller(net, v, tries[a["ctl"]])
                mc = mcs[a["ctl"]]
                budget.reset()
                if a["via"] == "machine":
                    import warnings
                    with warnings.catch_warnings():
                        warnings.simplefilter("ignore")
                        # the ignored `default_num_cores` gets a value, by position or by keyword
                        res = guard(lambda: limited(
                            lambda: (mc.get_machine(root[0], root[1], 7) if a["ctl"] else
                                     mc.get_machine(y=root[1], x=root[0], default_num_cores=0))
                            if c["explicit_start"] else mc.get_machine()))
                    if "ok" in res:
                        keep = {"machine": res["ok"], "constraints": [], "target_lengths": {}, "res": None}
                        mj, shape = machine_json(res["ok"])
                        kept.append([len(recs), res["ok"], lambda o: machine_json(o)[0], mj])
                        res = {"ok": mj, "shape_ok": shape}
                else:
                    res = guard(lambda: limited(
                        lambda: mc.get_system_info(*root) if c["explicit_start"] else mc.get_system_info()))
                    if "ok" in res:
                        si = res["ok"]
                        res = {"ok": si_json(si)}
                        kept.append([len(recs), si, si_json, res["ok"]])
                rec.update(res, via=a["via"], ctl=a["ctl"])
            elif si is None:
                rec["act"] = "skip"         # nothing was ever probed successfully (already reported)
            elif a["act"] == "derive":
                keep = {}
                rec.update(sysinfo=si_json(si), derived=derived_json(si, keep, opts),
                           member_ok=membership_ok(si, c["chips"]))
                if "failed" not in rec["derived"]:
                    res_ids = keep["res"]
                    kept.append([len(recs), keep["machine"], lambda o, r=res_ids: machine_json(o, r)[0],
                                 rec["derived"]["machine"]])
                    kept.append([len(recs), keep["target_lengths"],
                                 lambda o: sorted([int(x), int(y), int(n)] for (x, y), n in o.items()),
                                 rec["derived"]["target_lengths"]])
                else:
                    keep = None
            elif a["act"] == "edit_si":
                rec["edits"] = []
                kept[:] = [e for e in kept if e[1] is not si]               # the caller edits it: no longer "kept"
                mutate_sysinfo(si, random.Random(a["seed"]), rec["edits"])
            else:
                rec["edits"] = []
                if keep:
                    kept[:] = [e for e in kept if e[1] is not keep["machine"] and e[1] is not keep["target_lengths"]]
                    mutate_derived(keep, random.Random(a["seed"]), rec["edits"])
            recs.append(rec)
        changed = [(k, before, fn(o)) for k, o, fn, before in kept if fn(o) != before]
    if changed:
        recs.append({"act": "kept", "changed": changed[0]})
    return recs


def eval_derive(ctx, cases):
    ensure_answering(ctx)
    L = lambda op, **kw: dict(kw, suite="c14", op=op)  # noqa: E731
    # the Lean machine specification produces the bytes
    reqs, slots = [], []
    for i, c in enumerate(cases):
        reqs.append(lay(L("spec_p2p", **machine_state_json(c)), c, c.get("layout", 0))); slots.append((i, "p2p_mem"))
        if c.get("preboot") is not None:
            reqs.append(L("spec_sv", fields=[["p2p_dims", c["preboot"]]])); slots.append((i, "pre_mem"))
        for n, ch in enumerate(c["chips"]):
            reqs.append(L("spec_info", **state_only(ch))); slots.append((i, ("reply", n)))
    work = [dict(replies={}) for _ in cases]
    for (i, slot), r in zip(slots, ctx.lean(reqs)):
        if isinstance(slot, tuple):
            work[i]["replies"][slot[1]] = r
        else:
            work[i][slot] = r
    # the Lean model of get_system_info on those bytes: what every probe must return
    reqs = [lay(L("system_info", mem=w["p2p_mem"]["mem"],
                  replies=[dict(w["replies"][n], x=ch["x"], y=ch["y"]) for n, ch in enumerate(c["chips"])]),
                c, c.get("layout", 0))
            for c, w in zip(cases, work)]
    for w, r in zip(work, ctx.lean(reqs)):
        w["model"] = r
    # the real code runs the scripts; the Lean model / oracles judge every step
    reqs, slots = [], []
    for i, (c, w) in enumerate(zip(cases, work)):
        w["recs"] = run_derive(c, w)
        want_sj = w["model"]["ok"]["sysinfo"] if "ok" in w["model"] else None
        for k, rec in enumerate(w["recs"]):
            ctx.traces += 1
            if rec["act"] == "preboot" and "ok" in rec:
                reqs.append(L("val_ok", want=c["preboot"], got=rec["ok"])); slots.append((i, k, "oracle"))
                reqs.append(L("sv_field", mem=w["pre_mem"]["mem"], name="p2p_dims")); slots.append((i, k, "model"))
            elif rec["act"] == "probe" and "ok" in rec:
                if rec["via"] == "system_info":
                    reqs.append(L("sysinfo_ok", state=machine_state_json(c), got=rec["ok"])); slots.append((i, k, "oracle"))
                elif want_sj is not None:
                    reqs.append(L("machine_ok", sysinfo=want_sj, got=rec["ok"])); slots.append((i, k, "oracle"))
                    reqs.append(L("build_machine", **want_sj)); slots.append((i, k, "model_machine"))
            elif rec["act"] == "derive":
                sub = []
                add_derived_reqs(L, reqs, sub, (i, k), rec["sysinfo"], rec["derived"])
                slots += [(i, k, name) for _, name in sub]
    for (i, k, name), r in zip(slots, ctx.lean(reqs)):
        work[i]["recs"][k][name] = r
    for c, w in zip(cases, work):
        judge_derive(ctx, c, w)


def judge_derive(ctx, c, w):
    ctx.tag("kind_derive", "derive_res_%d" % (c.get("opts") or {}).get("res", 0),
            "derive_lazy" if (c.get("opts") or {}).get("lazy") is not None else "derive_eager",
            "derive_qkind_" + (c.get("opts") or {}).get("qkind", "int"))
    edits = []          # edits by the caller since the last step that was judged right
    right = set()       # kinds of step (probe / derive) that were judged right before
    right_before = False
    nontriv = False
    for k, rec in enumerate(w["recs"]):
        n0 = len(ctx.concrete)
        if rec["act"] == "skip":
            continue
        if rec["act"] == "kept":
            kk, before, after = rec["changed"]
            ctx.violation(_TAINTED[0] or "kept-result-changed",
                          "the result of step %d, kept by the caller and never edited by it, was %.300r when it was "
                          "returned and is %.300r at the end of the script" % (kk, before, after), c)
            continue
        if rec["act"] in ("edit_si", "edit_derived"):
            edits += rec["edits"]
            ctx.tag("derive_" + rec["act"])
            continue
        if rec["act"] == "preboot":
            ctx.tag("derive_preboot")
            if "ok" in rec:
                cmp(ctx, "derive.preboot", {"ok": rec["ok"]}, rec["model"], c)
            if rec.get("oracle") is not True:
                ctx.violation("struct-field-wrong", "before the boot, read_struct_field('sv', 'p2p_dims') by controller "
                              "%d returned %r, the machine holds %d" % (rec["ctl"], rec.get("ok", rec.get("err")),
                                                                        c["preboot"]), c)
        elif rec["act"] == "probe":
            ctx.tag("derive_probe_" + rec["via"], "derive_ctl_%d" % rec["ctl"], "derive_layout_%d" % c.get("layout", 0))
            what = "step %d: %s by controller %d returned %.400r" % (
                k, "get_system_info" if rec["via"] == "system_info" else "get_machine", rec["ctl"],
                rec.get("ok", rec.get("err")))
            if rec["via"] == "system_info":
                model = {"ok": w["model"]["ok"]["sysinfo"]} if "ok" in w["model"] else w["model"]
                cmp(ctx, "derive.system_info", {k2: rec[k2] for k2 in ("ok", "err") if k2 in rec}, model, c)
            elif "ok" in rec and "model_machine" in rec:
                cmp(ctx, "derive.get_machine", rec["ok"], sort_machine(rec["model_machine"]), c)
            if "err" in rec:
                ctx.violation(err_key(what), what, c)
            elif rec.get("oracle") is not True or rec.get("shape_ok") is False:
                ctx.violation("system-info-wrong" if rec["via"] == "system_info" else "machine-model-wrong",
                              what + " - not the machine's chips, links and quantities", c)
        else:
            ws = dict({k2: rec.get(k2) for k2 in ("model_machine", "model_constraints", "model_member", "model_views",
                                                   "oracle_dead", "oracle_machine", "oracle_res")},
                      derived=rec["derived"], impl={"ok": {"sysinfo": rec["sysinfo"]}}, member_ok=rec["member_ok"])
            nontriv = judge_derived(ctx, c, ws, c) or nontriv
        new = ctx.concrete[n0:]
        right_before = ("probe" if rec["act"] in ("probe", "preboot") else "derive") in right
        if new and (edits and right_before or _TAINTED[0]):
            # right until the caller edited objects it had been given, wrong afterwards
            del ctx.concrete[n0:]
            key0, what0, _ = new[0]
            if edits and right_before and not _TAINTED[0]:
                _TAINTED[0] = "probe-affected-by-caller-mutation"
                ctx.violation("probe-affected-by-caller-mutation",
                              "after the caller edited objects it had been given (%s), %s [%s]; every probe / derivation "
                              "before these edits was right" % ("; ".join(edits), what0, key0), c)
            else:
                ctx.violation(_TAINTED[0], "%s [%s] - after an earlier case of this run showed that results depend on "
                              "the history of the process" % (what0, key0), c)
        if not new:
            right.add("probe" if rec["act"] in ("probe", "preboot") else "derive")
            edits = []
    ctx.case(c, nontriv)


def context_core_case():
    """the ONE fixed case of the known finding `probe-in-core-context-times-out`: chip (3, 0), core 4 idle (nothing
    was ever loaded on it: certainly nothing answers there), its status block read once with explicit arguments and
    once with the core number supplied through the controller's context"""
    import random
    c = gen_core(random.Random(20140314), size=16, session=True)
    c["status"]["cpu_state"] = IDLE
    c.update(kind="context_core", x=3, y=0, p=4, buf=256)
    return c


def eval_context_core(ctx, c):
    L = lambda op, **kw: dict(kw, suite="c14", op=op)  # noqa: E731
    spec = ctx.lean([L("spec_core", **{f: c[f] for f in CORE_FIELDS})])[0]
    x, y, p = c["x"], c["y"], c["p"]
    results = {}
    for how in ("explicit", "context"):
        m = ProbeMachine(buffer_size=c["buf"])
        for addr, data in spec["mem"]:
            m.poke(x, y, addr, bytes(data))
        m.core_state[(x, y, p)] = c["status"]["cpu_state"]
        budget = Budget(machine=m)
        net = simnet.Net(m.handle, budget)
        with simnet.installed(net):
            mc = new_controller(net, 0, 2, 1.0)

            def probe():
                if how == "explicit":
                    return status_json(mc.get_processor_status(p, x, y))
                with mc(x=x, y=y, p=p):
                    return status_json(mc.get_processor_status())
            results[how] = guard(lambda: limited(probe))
        results[how + "_unanswered"] = m.unanswered
        ctx.traces += 1
    model, o1, o2 = ctx.lean([L("status", mem=spec["mem"], p=p)] + [
        L("core_ok", status=c["status"], blocks=c["blocks"], diag=c["diag"],
          got_status=results[h].get("ok") if nat_ok(results[h].get("ok")) else None) for h in ("explicit", "context")])
    right = {h: "ok" in results[h] and nat_ok(results[h]["ok"]) and o.get("status") is True
             for h, o in (("explicit", o1), ("context", o2))}
    cmp(ctx, "context_core.explicit", results["explicit"], model, c)
    if not right["explicit"]:
        # not the known finding: the probe is wrong even with explicit arguments - it keeps its own key
        ctx.violation(err_key(results["explicit"]["err"]) if "err" in results["explicit"] else "status-wrong",
                      "get_processor_status(%d, %d, %d) of an idle core returned %.300r" % (p, x, y, results["explicit"]), c)
    elif not right["context"] and results["context_unanswered"] > 0:
        ctx.tag("context_core_times_out")
        ctx.violation("probe-in-core-context-times-out",
                      "with mc(x=%d, y=%d, p=%d): mc.get_processor_status() returned %.200r for an idle core (state %d: "
                      "nothing answers commands there; %d datagrams were addressed to it and got no reply), while "
                      "get_processor_status(%d, %d, %d) with explicit arguments returns the machine's values: the core "
                      "number taken from the context also reaches rig's internal reads of sv.vcpu_base and of the vcpu "
                      "block, which must go to the monitor (core 0)" % (
                          x, y, p, results["context"], c["status"]["cpu_state"], results["context_unanswered"], p, x, y), c)
    elif not right["context"]:
        ctx.violation(err_key(results["context"].get("err", "")) if "err" in results["context"] else "status-wrong",
                      "with mc(x=%d, y=%d, p=%d): mc.get_processor_status() returned %.300r although every datagram was "
                      "answered" % (x, y, p, results["context"]), c)
    else:
        ctx.tag("context_core_right")
    ctx.case(c, True)


def eval_cases(ctx, cases):
    for c in [c for c in cases if c["kind"] == "context_core"]:
        ensure_answering(ctx)
        eval_context_core(ctx, c)
    cases = [c for c in cases if c["kind"] != "context_core"]
    for c in [c for c in cases if c["kind"] == "histories"]:
        # a replay that carries the histories that ran before the failing one in the same process
        for sub in c["cases"]:
            eval_cases(ctx, [sub])
    cases = [c for c in cases if c["kind"] != "histories"]
    derive = [c for c in cases if c["kind"] == "derive"]
    cases = [c for c in cases if c["kind"] != "derive"]
    if cases:
        eval_plain_cases(ctx, cases)
    if derive:
        eval_derive(ctx, derive)


def eval_plain_cases(ctx, cases):
    ensure_answering(ctx)
    L = lambda op, **kw: dict(kw, suite="c14", op=op)  # noqa: E731
    # ---- stage 1: the Lean machine specification produces the bytes ------------------------
    reqs, slots = [], []
    for i, c in enumerate(cases):
        k = c["kind"]
        if k == "chip":
            reqs.append(L("spec_info", **c["state"])); slots.append((i, "reply"))
        elif k == "system":
            reqs.append(L("spec_p2p", **machine_state_json(c))); slots.append((i, "p2p_mem"))
            for n, ch in enumerate(c["chips"]):
                reqs.append(L("spec_info", **state_only(ch))); slots.append((i, ("reply", n)))
        elif k == "core":
            reqs.append(L("spec_core", **{f: c[f] for f in ("p", "vcpu_base", "iobuf_size", "status", "sw_top",
                                                                "name16", "pad", "blocks", "diag")}))
            slots.append((i, "core_spec"))
        elif k == "session":
            for slot, req in session_spec_reqs(L, c):
                reqs.append(req); slots.append((i, slot))
        elif k == "sver":
            if c["legacy"]:
                reqs.append(L("spec_sver_legacy", **{f: c[f] for f in ("x", "y", "pcpu", "vcpu", "buf", "date",
                                                                           "major", "minor", "name")}))
            else:
                reqs.append(L("spec_sver_string", **{f: c[f] for f in ("x", "y", "pcpu", "vcpu", "buf", "date", "name",
                                                                           "ma", "mi", "pa", "labels")}))
            slots.append((i, "reply"))
    work = [dict() for _ in cases]
    for (i, slot), r in zip(slots, ctx.lean(reqs)):
        if isinstance(slot, tuple) and slot[0] == "img":
            work[i].setdefault("img", {}).setdefault((slot[1], slot[2]), {})[slot[3]] = r
        elif isinstance(slot, tuple):
            work[i].setdefault("replies", {})[slot[1]] = r
        else:
            work[i][slot] = r
    # ---- stage 2: the implementation probes the simulated machine --------------------------
    reqs, slots = [], []
    for i, (c, w) in enumerate(zip(cases, work)):
        k = c["kind"]
        if k == "session":
            w["impl"], w["snaps"], w["edits"] = run_session(c, w)
            for kk in range(len(c["steps"])):
                model, oracle, okey = session_reqs(L, c, w, kk, w["snaps"][kk], w["impl"][kk])
                reqs.append(model); slots.append((i, ("sess", kk, "model")))
                w[("sess", kk, "okey")] = okey
                if oracle is not None:
                    reqs.append(oracle); slots.append((i, ("sess", kk, "oracle")))
            continue
        ctx.traces += 1
        if k == "chip":
            rep = malformed_reply(w["reply"], c["malform"])
            m = ProbeMachine()
            m.info[m.chip(c["x"], c["y"])] = rep
            m.set_states(*(m.chip(c["x"], c["y"]) + (c["state"]["states"],)))
            w["impl"] = run_controller(m, lambda mc: ci_json(mc.get_chip_info(c["x"], c["y"])))
            reqs.append(L("dec_info", **rep)); slots.append((i, "model"))
            if "ok" in w["impl"]:
                reqs.append(L("info_ok", state=c["state"], got=w["impl"]["ok"])); slots.append((i, "oracle"))
        elif k == "system":
            root = tuple(c["root"])
            m = ProbeMachine(root=root, buffer_size=c["buf"])
            for addr, data in w["p2p_mem"]["mem"]:
                m.poke(root[0], root[1], addr, bytes(data))
            replies = []
            for n, ch in enumerate(c["chips"]):
                rep = w["replies"][n]
                m.info[(ch["x"], ch["y"])] = rep
                m.set_states(ch["x"], ch["y"], ch["states"])
                replies.append(dict(rep, x=ch["x"], y=ch["y"]))

            def probe(mc, c=c, root=root):
                si = mc.get_system_info(*root) if c["explicit_start"] else mc.get_system_info()
                return {"si": si, "sysinfo": si_json(si)}
            w["impl"] = run_controller(m, probe, silent=c["silent"],
                                       rc_chips={(x, y): rc for x, y, rc in c["rc_chips"]})
            reqs.append(L("system_info", mem=w["p2p_mem"]["mem"], replies=replies)); slots.append((i, "model"))
            if "ok" in w["impl"]:
                si = w["impl"]["ok"].pop("si")
                w["derived"] = derived_json(si)
                w["member_ok"] = membership_ok(si, c["chips"])
                sj = w["impl"]["ok"]["sysinfo"]
                reqs.append(L("sysinfo_ok", state=machine_state_json(c), got=sj)); slots.append((i, "oracle"))
                add_derived_reqs(L, reqs, slots, i, sj, w["derived"])
        elif k == "direct":
            si = mk_sysinfo(c)
            sj = si_json(si)
            w["impl"] = {"ok": {"sysinfo": sj}}
            w["derived"] = derived_json(si, None, c.get("opts"))
            ctx.tag("direct_si_" + c.get("si_kind", "plain"), "derive_res_%d" % (c.get("opts") or {}).get("res", 0),
                    "derive_lazy" if (c.get("opts") or {}).get("lazy") is not None else "derive_eager",
                    "direct_huge" if c.get("huge") else "direct_usual")
            w["member_ok"] = membership_ok(si, c["chips"])
            add_derived_reqs(L, reqs, slots, i, sj, w["derived"])
        elif k == "core":
            spec = w["core_spec"]
            m = ProbeMachine(buffer_size=c["buf"])
            for addr, data in spec["mem"]:
                m.poke(c["x"], c["y"], addr, bytes(data))
            x, y, p = c["x"], c["y"], c["p"]
            m.core_state[(x, y, p)] = c["status"]["cpu_state"]       # every other core of the chip is idle
            ctx.tag("core_answers" if m.answers(x, y, p) else "core_silent")
            m.unanswered = 0
            w["impl_status"] = run_controller(m, lambda mc: status_json(mc.get_processor_status(p, x, y)))
            w["impl_text"] = run_controller(m, lambda mc: list(mc.get_iobuf_bytes(p, x, y)))
            w["impl_diag"] = run_controller(m, lambda mc: [int(v) for v in mc.get_router_diagnostics(x, y)])
            text = bytes(spec["text"])
            if all(b < 128 for b in text):
                w["impl_str"] = run_controller(m, lambda mc: mc.get_iobuf(p, x, y))
                w["want_str"] = text.decode("ascii")
            fuel = len(c["blocks"]) + 2
            reqs.append(L("status", mem=spec["mem"], p=p)); slots.append((i, "model_status"))
            reqs.append(L("iobuf", mem=spec["mem"], p=p, fuel=fuel)); slots.append((i, "model_text"))
            reqs.append(L("diag", mem=spec["mem"])); slots.append((i, "model_diag"))
            got = {"status": w["impl_status"].get("ok"), "text": w["impl_text"].get("ok"), "diag": w["impl_diag"].get("ok")}
            w["not_nat"] = [f for f, v in got.items() if not nat_ok(v)]
            ctx.tag("core_full_range" if max(c["diag"]) >= 2 ** 31 else "core_small_counters")
            reqs.append(L("core_ok", status=c["status"], blocks=c["blocks"], diag=c["diag"],
                          **{"got_" + f: (None if f in w["not_nat"] else v) for f, v in got.items()}))
            slots.append((i, "oracle"))
        elif k == "sver":
            rep = w["reply"]
            m = ProbeMachine()
            m.sver[m.chip(c["x"], c["y"]) + (c["p"],)] = rep
            w["impl"] = run_controller(m, lambda mc: coreinfo_json(mc.get_software_version(c["x"], c["y"], c["p"])))
            reqs.append(L("dec_sver", **rep)); slots.append((i, "model"))
            if "ok" in w["impl"]:
                reqs.append(L("sver_ok", got=w["impl"]["ok"], **{f: v for f, v in c.items() if f != "kind"}))
                slots.append((i, "oracle"))
    for (i, slot), r in zip(slots, ctx.lean(reqs)):
        work[i][slot] = r
    # ---- stage 3: compare and judge -----------------------------------------------------------
    for c, w in zip(cases, work):
        judge(ctx, c, w)


def add_derived_reqs(L, reqs, slots, i, sj, d):
    if "failed" in d:
        return
    reqs.append(L("build_machine", **sj)); slots.append((i, "model_machine"))
    reqs.append(L("core_constraints", **sj)); slots.append((i, "model_constraints"))
    reqs.append(L("contains", sysinfo=sj, queries=d["member_queries"])); slots.append((i, "model_member"))
    reqs.append(L("machine_views", sysinfo=sj, queries=d["machine_queries"], iter=d["machine_iter"]))
    slots.append((i, "model_views"))
    reqs.append(L("dead_ok", sysinfo=sj, dead_chips=d["dead_chips"], dead_links=d["dead_links"]))
    slots.append((i, "oracle_dead"))
    reqs.append(L("machine_ok", sysinfo=sj, got=d["machine"])); slots.append((i, "oracle_machine"))
    reqs.append(L("reservations_ok", sysinfo=sj, got=d["constraints"])); slots.append((i, "oracle_res"))


def status_json(s):
    return {"registers": [int(v) for v in s.registers], "program_state_register": int(s.program_state_register),
            "stack_pointer": int(s.stack_pointer), "link_register": int(s.link_register), "rt_code": int(s.rt_code),
            "phys_cpu": int(s.phys_cpu), "cpu_state": int(s.cpu_state), "mbox_ap_msg": int(s.mbox_ap_msg),
            "mbox_mp_msg": int(s.mbox_mp_msg), "mbox_ap_cmd": int(s.mbox_ap_cmd), "mbox_mp_cmd": int(s.mbox_mp_cmd),
            "sw_count": int(s.sw_count), "sw_file": int(s.sw_file), "sw_line": int(s.sw_line), "time": int(s.time),
            "app_name": list(s.app_name.encode("utf-8")), "iobuf_address": int(s.iobuf_address),
            "app_id": int(s.app_id), "version": [int(v) for v in s.version], "user_vars": [int(v) for v in s.user_vars]}


def coreinfo_json(ci):
    return {"position": [int(v) for v in ci.position], "physical_cpu": int(ci.physical_cpu), "virt_cpu": int(ci.virt_cpu),
            "sw": {"name": list(ci.version_string.encode("utf-8")), "version": [int(v) for v in ci.software_version],
                   "labels": list(ci.software_version_labels.encode("utf-8"))},
            "buffer_size": int(ci.buffer_size), "build_date": int(ci.build_date)}


def sort_machine(mj):
    mj = dict(mj)
    for k in ("exceptions", "dead_chips", "dead_links"):
        mj[k] = sorted(mj[k])
    return mj


def nat_ok(v):
    """every number in a canonical result is a natural number (the value domain of the Lean specification: all
    quantities a probe reads back are unsigned); a result with a negative number is wrong without asking"""
    if isinstance(v, bool) or v is None or isinstance(v, str):
        return True
    if isinstance(v, int):
        return v >= 0
    if isinstance(v, dict):
        return all(nat_ok(x) for x in v.values())
    return all(nat_ok(x) for x in v)


def err_key(text):
    """an implementation call that did not return (the Lean model of every probe / derivation is a total function)
    has its own key"""
    return "did-not-return" if "DidNotReturn" in str(text) else "unexpected-error"


def cmp(ctx, suite, impl, model, desc):
    if impl != model:
        ctx.mismatch("c14." + suite, "impl=%.300r model=%.300r" % (impl, model), desc)


def judge_derived(ctx, c, w, desc):
    d = w["derived"]
    if "failed" in d:
        ctx.violation(err_key(d["failed"]), "deriving the machine / constraints / views from the description failed: %s "
                      "(description %.300r)" % (d["failed"], w["impl"]["ok"]["sysinfo"]), desc)
        return False
    sj = w["impl"]["ok"]["sysinfo"]
    cmp(ctx, "build_machine", d["machine"], sort_machine(w["model_machine"]), desc)
    cmp(ctx, "core_constraints", d["constraints"], w["model_constraints"], desc)
    cmp(ctx, "contains", d["member"], w["model_member"], desc)
    cmp(ctx, "machine_views", d["machine_views"], w["model_views"], desc)
    if d["machine_views"] != w["model_views"] and w["oracle_machine"] is True:
        # the Machine's fields are right (machine_ok) but what it answers / yields is not what they say
        ctx.violation("machine-model-wrong", "Machine.__contains__ / __getitem__ / iteration disagree with the machine's "
                      "chips, links and quantities: %.300r" % (d["machine_views"]["answers"][:12],), desc)
    if not d["shape_ok"]:
        ctx.violation("machine-model-wrong", "resources / constraint objects have an unexpected shape", desc)
    if w["oracle_dead"] is not True:
        ctx.violation("dead-sets-wrong", "dead_chips/dead_links are not the complement of the description: %.300r %.300r" % (
            d["dead_chips"][:20], d["dead_links"][:20]), desc)
    if w["oracle_machine"] is not True:
        ctx.violation("machine-model-wrong", "build_machine does not describe exactly the chips, links and quantities "
                      "of the system description: %.400r" % (d["machine"],), desc)
    if w["oracle_res"] is not True:
        ctx.violation("reservations-wrong", "core reservations do not cover exactly the non-idle cores without "
                      "overlap: %.400r" % (d["constraints"],), desc)
    if not w["member_ok"]:
        ctx.violation("system-info-wrong", "SystemInfo.__contains__ disagrees with its records", desc)
    elif d["member"] != w["model_member"]:
        bad = [(q, a, b) for q, a, b in zip(d["member_queries"], d["member"], w["model_member"]) if a != b][:4]
        ctx.violation("system-info-wrong", "SystemInfo.__contains__ (integers passed as %s) answers differently from what "
                      "its records say: [kind, x, y, a, b] -> got, expected: %r" % (
                          (c.get("opts") or {}).get("qkind", "int"), bad), desc)
    # derived iterators against the description itself
    want_links = sorted([ch["x"], ch["y"], l] for ch in sj["chips"] for l in ch["links"])
    want_cores = [[ch["x"], ch["y"], p, s] for ch in sj["chips"] for p, s in enumerate(ch["core_states"])]
    want_tl = sorted([ch["x"], ch["y"], ch["rtr"]] for ch in sj["chips"])
    if d["links"] != want_links or d["cores"] != want_cores or d["target_lengths"] != want_tl:
        ctx.violation("system-info-wrong", "links()/cores()/target lengths differ from the records", desc)
    n_busy = sum(1 for ch in sj["chips"] for p, s in enumerate(ch["core_states"]) if p > 0 and s != IDLE)
    ctx.tag("contains_indexerror" if "IndexError" in d["member"] else "contains_total")
    ctx.tag("constraints_global_%d" % min(3, sum(1 for r in d["constraints"] if r["chip"] is None)),
            "constraints_local_%s" % ("some" if any(r["chip"] for r in d["constraints"]) else "none"),
            "exceptions_%s" % ("some" if d["machine"]["exceptions"] else "none"))
    return len(sj["chips"]) >= 2 and (n_busy > 0 or bool(d["dead_chips"]))


def judge(ctx, c, w):
    k = c["kind"]
    desc = c
    nontriv = False
    ctx.tag("kind_" + k)
    if k == "chip":
        impl, model = w["impl"], w["model"]
        cmp(ctx, "dec_info", impl, model, desc)
        ctx.tag("chip_" + (c["malform"][0] if c["malform"] else "valid") + ("_err" if "err" in impl else ""))
        if c["malform"] is None or c["malform"][0] in ("long", "high_bits"):
            nontriv = True
            if "err" in impl:
                ctx.violation(err_key(impl["err"]), "get_chip_info raised %s on a well-formed reply" % impl["err"], desc)
            elif w["oracle"] is not True:
                ctx.violation("chip-info-wrong", "get_chip_info returned %.400r for chip state %.400r" % (
                    impl["ok"], c["state"]), desc)
    elif k == "system":
        impl, model = w["impl"], w["model"]
        if "ok" in impl and "ok" in model:
            cmp(ctx, "system_info", impl["ok"]["sysinfo"], model["ok"]["sysinfo"], desc)
            d = w["derived"]
            for f in ("dead_chips", "dead_links", "links", "target_lengths"):
                if "failed" not in d:
                    cmp(ctx, "system_info." + f, d[f], sorted(model["ok"][f]), desc)
            if "failed" not in d:
                cmp(ctx, "system_info.cores", d["cores"], model["ok"]["cores"], desc)
        else:
            cmp(ctx, "system_info", impl, model, desc)
        ctx.tag("system_silent_%d" % min(2, len(c["silent"])), "system_rc_%d" % min(2, len(c["rc_chips"])),
                "system_big" if c["dim_w"] > 100 or c["dim_h"] > 100 else "system_small")
        if "err" in impl:
            ctx.violation(err_key(impl["err"]), "get_system_info raised %s" % impl["err"], desc)
        else:
            if w["oracle"] is not True:
                ctx.violation("system-info-wrong", "get_system_info returned a description that is not exactly the "
                              "listed chips that answer with their states: %.500r" % (impl["ok"]["sysinfo"],), desc)
            nontriv = judge_derived(ctx, c, w, desc)
    elif k == "direct":
        nontriv = judge_derived(ctx, c, w, desc)
    elif k == "core":
        cmp(ctx, "status", w["impl_status"], w["model_status"], desc)
        cmp(ctx, "iobuf", w["impl_text"], w["model_text"], desc)
        cmp(ctx, "diag", w["impl_diag"], w["model_diag"], desc)
        ctx.tag("core_blocks_%d" % len(c["blocks"]), "core_" + (c["malform"] or "valid"))
        nontriv = len(c["blocks"]) >= 1
        o = dict(w["oracle"], **{f: False for f in w["not_nat"]})      # a negative number is never the machine's
        if c["malform"] is None and "err" in w["impl_status"]:
            ctx.violation(err_key(w["impl_status"]["err"]), "get_processor_status raised %s" % w["impl_status"]["err"], desc)
        elif not o["status"]:
            ctx.violation("status-wrong", "get_processor_status returned %.500r" % (w["impl_status"],), desc)
        if "err" in w["impl_text"]:
            ctx.violation(err_key(w["impl_text"]["err"]), "get_iobuf_bytes raised %s" % w["impl_text"]["err"], desc)
        elif not o["text"]:
            ctx.violation("iobuf-wrong", "get_iobuf_bytes returned %.200r, the chain holds %.200r" % (
                w["impl_text"]["ok"], w["core_spec"]["text"]), desc)
        if "impl_str" in w and w["impl_str"].get("ok") != w["want_str"]:
            ctx.violation("iobuf-wrong", "get_iobuf returned %.200r" % (w["impl_str"],), desc)
        if "err" in w["impl_diag"]:
            ctx.violation(err_key(w["impl_diag"]["err"]), "get_router_diagnostics raised %s" % w["impl_diag"]["err"], desc)
        elif not o["diag"]:
            ctx.violation("router-counters-wrong", "get_router_diagnostics returned %r" % (w["impl_diag"],), desc)
    elif k == "session":
        nontriv = judge_session(ctx, c, w)
    elif k == "sver":
        impl, model = w["impl"], w["model"]
        cmp(ctx, "dec_sver", impl, model, desc)
        ctx.tag("sver_" + ("legacy" if c["legacy"] else "string"))
        nontriv = not c["legacy"]
        if "err" in impl:
            ctx.violation(err_key(impl["err"]), "get_software_version raised %s" % impl["err"], desc)
        elif w["oracle"] is not True:
            ctx.violation("version-wrong", "get_software_version returned %.400r" % (impl["ok"],), desc)
    ctx.case(desc, nontriv)


def gen_cases(ctx, n_sys, n_big, n_direct, n_chip, n_core, n_sver, n_session=0, n_derive=0):
    rng = ctx.rng
    cases = []
    cases += [gen_system(rng, False) for _ in range(n_sys)]
    cases += [gen_system(rng, True) for _ in range(n_big)]
    cases += [gen_direct(rng, i % 25 == 24) for i in range(n_direct)]
    cases += [gen_huge(rng) for _ in range(max(2, n_direct // 100))]
    cases += [gen_chip(rng) for _ in range(n_chip)]
    cases += [gen_core(rng) for _ in range(n_core)]
    cases += [gen_core(rng, size=rng.choice([4, 16]), nblocks=rng.choice([257, 300, 1100]))
              for _ in range(max(2, n_core // 100))]      # SCALE: console output chained over hundreds of blocks
    cases += [gen_sver(rng) for _ in range(n_sver)]
    cases += [gen_session(rng) for _ in range(n_session)]
    cases += [gen_derive(rng) for _ in range(n_derive)]
    return cases


def run(ctx):
    _TAINTED[0] = None
    _CTX[0] = ctx
    ctx.extra["rule"] = RULE
    ctx.assumptions += [
        "machine specification (Lean): info word layout, P2P packing (8 entries of 3 bits per word, 32 words per column), "
        "vcpu block layout of sark.struct, IOBUF block header (next, time, ms, length), sver reply encodings",
        "state bytes of core slots beyond the core count are valid state codes; at most 18 core slots per chip",
        "text fields (application name, version string) are ASCII without newlines",
        "remote reads are byte exact (C07) and each command completes with its own reply (C06)",
        "at least one chip is listed in the probed P2P table (otherwise the code raises ValueError from max())"]
    k = 4 if ctx.extended else 1
    if ctx.quick:
        cases = gen_cases(ctx, 180 * k, 6 * k, 120 * k, 300 * k, 120 * k, 150 * k, 230 * k, 130 * k)
    else:
        cases = gen_cases(ctx, 3000 * k, 60 * k, 2400 * k, 6000 * k, 2400 * k, 3000 * k, 4000 * k, 2400 * k)
    eval_cases(ctx, [context_core_case()])      # the fixed case of the known finding probe-in-core-context-times-out
    plain = [c for c in cases if c["kind"] not in ("session", "derive")]
    hist = [c for c in cases if c["kind"] in ("session", "derive")]
    for i in range(0, len(plain), 400):
        eval_cases(ctx, plain[i:i + 400])
    for i in range(0, len(hist), 40):
        if _TAINTED[0]:
            # shown (with a replayable case) that results depend on the history of the process: every further
            # session in this process would only repeat it
            ctx.tag("history_streams_stopped")
            break
        # every batch of histories starts with the in-scope rig modules imported afresh
        fresh_rig()
        batch = hist[i:i + 40]
        n0 = len(ctx.concrete)
        eval_cases(ctx, batch)
        if len(ctx.concrete) > n0:
            confirm_history(ctx, batch, n0)


def confirm_history(ctx, batch, n0):
    """A replay must reproduce: every failing history of the batch (the first few) is run again alone after a fresh
    import.  If it fails again, it is its own replay; if not, its result depended on the histories that ran before it
    in this process, and the replay carries all of them"""
    later = ctx.concrete[n0:]
    del ctx.concrete[n0:]
    tainted, counters = _TAINTED[0], (ctx.evaluations, ctx.traces, dict(ctx.tags), set(ctx.nontrivial))
    verdict = {}            # id(case) -> reproduces alone
    for key, what, case in later:
        idx = next((j for j, c in enumerate(batch) if c is case), None)
        if idx is None or id(case) in verdict or len(verdict) >= 6:
            continue
        _TAINTED[0] = None
        fresh_rig()
        eval_cases(ctx, [case])
        verdict[id(case)] = len(ctx.concrete) > n0
        del ctx.concrete[n0:]
    ctx.evaluations, ctx.traces, ctx.tags, ctx.nontrivial = counters
    _TAINTED[0] = tainted
    for key, what, case in later:
        if verdict.get(id(case), True):
            ctx.tag("failing_history_reproduces_alone")
            ctx.concrete.append((key, what, case))
        else:
            ctx.tag("failing_history_needs_predecessors")
            idx = next(j for j, c in enumerate(batch) if c is case)
            _TAINTED[0] = _TAINTED[0] or "probe-depends-on-process-history"
            ctx.violation("probe-depends-on-process-history",
                          what + " [%s; alone, after a fresh import of rig, this history is right: the replay carries the "
                          "%d histories that ran before it in the same process]" % (key, idx),
                          {"kind": "histories", "cases": batch[:idx + 1]})


def replay(ctx, payload):
    _TAINTED[0] = None
    ctx.extra["rule"] = RULE
    fresh_rig()
    eval_cases(ctx, [payload["case"]])
THEOREMS += ['res_step', 'res_loop', 'gen_minimal_core_reservations']   # translator tie: generated function bodies = model (Props/C14Gen.lean)
