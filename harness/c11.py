"""C11 - hexagonal mesh / torus shortest paths, longest-dimension-first walks, link
tables and concentric hexagons: correspondence of rig/geometry.py, rig/links.py and
rig/place_and_route/route/utils.py with the Lean model RigModel/Model/C11.lean, and
the Lean specification (graph search distance, labelled-walk check, vector check,
hexagon-set check) evaluated on the implementation's own outputs.

Randomness: the `random` attribute of the two modules is replaced (from outside,
no source change) by a recorder whose `random()` returns exactly representable
fractions k/den and whose `randint(a, b)` returns a value of [a, b]; what was drawn
is handed to the model as its oracle input.  A second stream uses a genuine
`random.Random` and applies only the specification oracle."""
import contextlib
import glob
import json
import os
import random as _random

CLAIM = dict(
    text=("Machine-checked proof (Lean 4), for ALL three-axis coordinates, all widths/heights >= 1 and all outcomes of "
          "the random tie-breaks: the mesh length formula equals the graph distance of the hexagonal mesh (graph "
          "distance defined inductively by walks over the six unit steps; 1-Lipschitz lower bound + explicit walk), the "
          "torus length formula equals the graph distance of the w x h hexagonal torus (every lift dominates the minimum "
          "of the four wrap candidates; each candidate is a lift), minimise_xyz keeps the displacement and yields a "
          "vector whose |x|+|y|+|z| is that distance, the torus vector (any minimal approach, any spiral count) has "
          "exactly that many hops and lands on the destination, the longest-dimension-first walk of any vector has "
          "|x|+|y|+|z| hops, each from the previous chip through the labelled link, and ends at start+vector, the link "
          "tables regenerated from rig/links.py agree with the hexagonal neighbourhood (opposites, vectors, from_vector "
          "across wrap-around for w,h >= 3), and concentric_hexagons lists exactly the chips within the radius, each "
          "once, nearest ring first, 1+3r(r+1) of them. Tied to the code by exact correspondence with recorded random "
          "draws and by the Lean graph-search distance / walk / vector / hexagon predicates run on the implementation's "
          "outputs."),
    design="3/C11",
    note=("Hardening checklist: (1) argument kinds, (2) optional parameters (longest_dimension_first start / width / "
          "height and concentric_hexagons start take non-default values, None and omitted defaults, positionally and by "
          "keyword; no other function in scope has optional parameters), (3) scale, (4) histories incl. twins and two "
          "kept Machine objects, (5) caller keeps and edits passed and returned objects, consumes generators lazily, "
          "(6) faults: the only things these pure functions call are the random source and Machine.__contains__, both "
          "made to fail once, (8) CPU limit on every call - all as general streams, see the rule. Not applicable: byte "
          "strings, hashable identifiers (vertices/keys/tags), RoutingTree/BitField/constraint subclasses - no function "
          "in scope takes them (Machine subclasses are covered); recursion depth - nothing in scope recurses; 8/16-bit "
          "counters - nothing in scope is packed (widths 257 / 65537 are exercised anyway); (7) configuration - no "
          "simulated machine or environment is involved beyond the Machine's size and dead chips/links, which vary; "
          "numpy int64 arguments are used only below 2^31 and with w,h >= 1 because int64 arithmetic (overflow, "
          "x % 0 == 0 with a warning) is not Python-int arithmetic and rig never passes numpy ints to these functions; "
          "radius is not given as a big int (the output has 1+3r(r+1) elements); negative / zero widths stay in the "
          "malformed stream (model comparison only). "
          "Results are also required to be independent of what callers did earlier: generator histories (abandoned / "
          "interleaved concentric_hexagons generators) and call histories in which the caller mutates every returned "
          "list/set are judged by the same model and Lean oracles (validated, not proved: the model is a pure function). "
          "FINDING torus-tiebreak-float-rounding: the key `distance + random.random()` of shortest_torus_path is a float "
          "sum; when random.random() returns 1-2^-53 for a minimal approach and 0.0 for an earlier approach one hop "
          "longer, both keys are equal and the longer vector is returned (probability about 2^-106 per call; concrete "
          "replay in corpus/C11; repair fixes/torus-tiebreak-float-rounding.diff compares (distance, random()) tuples). "
          "The theorems assume the exact comparison. "
          "random.random() is modelled as an exact fraction k/den (keys n + random() compared as n*den + k); the "
          "harness feeds exactly representable fractions so the float addition is exact. Domain: integer coordinates, "
          "width/height >= 1 (0 is modelled as ZeroDivisionError for the torus functions)."),
    technique="Lean 4 theorems over a hand-written model + differential correspondence + Lean spec as oracle")

THEOREMS = ["links_consistent", "hexLen_unit_step", "meshLen_eq_dist", "torusLen_eq_dist", "torusLen_error",
            "minimise_xyz_spec", "toXyz_proj", "meshPath_ok", "torusPath_ok", "randint_surjective",
            "ldf_walk", "ldfOk_meaning",
            "hexagons_exact", "hexagons_negative", "hexDist_is_graph_distance",
            "fromVector_wrap", "oracle_distIs_iff", "oracle_levelOf_isDist", "linksBetween_exact",
            "specLinksBetween_mem", "opposite_returns", "torus_vector_walk"]
THEOREMS += ['gen_to_xyz', 'gen_minimise_xyz', 'gen_mesh_len', 'gen_torus_len', 'gen_torus_len_is_model']   # translator tie: generated function bodies = model (Props/C11Gen.lean)

RULE = ("torus cases: for chosen (w, h, source chip) every or many destination chips, each in a random three-axis "
        "representation (random z offset, occasional multiples of w/h added), sizes include every w,h in 1..5; "
        "mesh cases: destinations within the searched radius of a source; random draws recorded; "
        "non-trivial = a torus pair whose distance is smaller than the no-wrap distance or with tied minimal "
        "approaches or a spiral draw, a mesh pair with a non-zero vector, an LDF vector with >= 2 non-zero "
        "dimensions, a hexagon radius >= 1, a links_between query with a non-empty answer; generator histories: "
        "2-6 concentric_hexagons generators per history from fresh module state, sequential / interleaved / mixed, "
        "partially consumed (cut at 0, 1, ring boundaries +-1, mid-ring, side corners, all-but-one) then closed, "
        "dropped or left alive, every fully consumed result compared with the (pure) model and the Lean hexagon "
        "oracle, every prefix with the model's prefix; non-trivial = at least one abandoned generator or interleaving; "
        "call histories: 3-10 calls by one caller on one small machine (1x1, 1xN, Nx1, 2x2 ... 8x8) over every "
        "function of the property (torus and mesh length/vector/walk, longest_dimension_first, minimise_xyz/to_xyz, "
        "links_between, concentric_hexagons full and abandoned), 45% degenerate (source == destination, null and "
        "(c,c,c) vectors, radius 0, a == b), 25% repeats of an earlier call, from fresh module state; after every "
        "call the caller mutates the returned object if it is a list/set/dict (append, extend, extend with itself, "
        "insert, pop, clear, reverse, item assignment, accumulate later legs into the first list); every result is "
        "snapshotted at return, compared with the pure model and judged by the same Lean oracles; the replay is the "
        "whole history including the mutations; non-trivial = at least one mutation; half of the histories hold a "
        "TWIN trio A, A', A or A', A, A' (A' differs from A in one aspect: w or h by one, one coordinate, the z "
        "representation, one vector component, the start, wrap on/off on one axis, radius+1, one link state), "
        "links_between calls use one of two Machine objects the caller keeps and edits IN PLACE between calls, "
        "list arguments the caller passed are scribbled / cleared / grown after the call and kept, results the caller "
        "left untouched are read again at the end of the history (a changed one is judged by the Lean oracle, key "
        "result-changed-after-return), 6% of the calls have the random source or the machine's membership test fail "
        "once (Injected must propagate, nothing else; the following calls are judged as usual); "
        "decoration (35% of all cases of all streams): argument kind tuple / list / one-shot iterator (where the "
        "function only unpacks) / numpy int64 array (values < 2^31, w,h >= 1) / bool and IntEnum members as ints / "
        "namedtuple / range, calling convention positional / keyword (documented names) / trailing defaults "
        "omitted; Machine plain / instance of a subclass / dead links named by plain ints; "
        "big: coordinates, starts, widths, heights around 2^31, 2^32, 2^53+1, 2^63, 2^64, 2^100 and their negatives "
        "(small tori with huge coordinates keep the graph search; huge tori and distant mesh pairs are judged by the "
        "Lean closed form that torusLen_eq_dist / meshLen_eq_dist prove equal to the graph distance, plus the Lean "
        "vector oracle; vectors longer than 20000 hops are not walked); scale: per run 12 tori 1xN, Nx1, 2xN, Nx2, "
        "3x(2N+1), Nx(N+7) with N in 1000..6000 incl. antipodal pairs, walks of thousands of hops, widths 65537 / "
        "heights 257, mesh pairs thousands apart, a radius 30-45 (Lean hexagon oracle) and a radius 120-160 (model "
        "comparison only); every implementation call runs under a 5 s CPU limit (did-not-return); "
        "distinct = distinct canonical JSON")


class Injected(Exception):
    """fault injected by the harness into something rig calls (random source, Machine.__contains__)"""


class Rec(object):
    """stand-in for the `random` module inside rig: records what was drawn"""

    def __init__(self, seed, den, fault=None):
        self.rng = _random.Random(seed)
        self.den = den
        self.ks = []
        self.ts = []
        self.fault = fault      # the n-th draw (0-based) raises Injected

    def _draw(self):
        if self.fault is not None and len(self.ks) + len(self.ts) == self.fault:
            self.fault = None
            raise Injected("random source failed")

    def random(self):
        self._draw()
        k = self.rng.randrange(self.den)
        self.ks.append(k)
        return k / float(self.den)

    def randint(self, a, b):
        self._draw()
        a, b = int(a), int(b)
        v = self.rng.randint(a, b)
        self.ts.append(v - a)
        return v


FLOAT_EDGE = [0.0, 1.0 - 2.0 ** -53, 0.5, 2.0 ** -53]   # all are values random.random() can return


class Seq(object):
    """stand-in for `random` that replays given random() values (edge values of the float range)"""

    def __init__(self, values, seed):
        self.values = list(values)
        self.rng = _random.Random(seed)

    def random(self):
        return self.values.pop(0) if self.values else self.rng.random()

    def randint(self, a, b):
        return self.rng.randint(a, b)


@contextlib.contextmanager
def patched(module, obj):
    old = module.random
    module.random = obj
    try:
        yield
    finally:
        module.random = old


_HANGS = [0]


def call(f):
    """one call of the implementation.  Every function of the Lean model is total, so a call that is still
    running after 5 s of CPU time (normal: micro- to milliseconds, the largest scale cases ~0.3 s; 1 s once
    that has happened 3 times, 0.2 s after 10 times) is reported as not having returned."""
    from harness import common
    try:
        with common.cpu_limit(5 if _HANGS[0] < 3 else 1 if _HANGS[0] < 10 else 0.2):
            return {"ok": f()}
    except common.ImplHang as e:
        _HANGS[0] += 1
        return {"err": "DidNotReturn " + str(e)}
    except Injected:
        return {"err": "Injected"}
    except ZeroDivisionError:
        return {"err": "ZeroDivisionError"}
    except KeyError:
        return {"err": "KeyError"}
    except Exception as e:  # noqa
        return {"err": "Other " + type(e).__name__}


_HOOK = [None]     # caller-side mutation applied to every object a rig function returns (call histories)


def snap(conv, x):
    """canonical snapshot of a returned object, taken BEFORE the caller (the hook) does anything to it"""
    s = conv(x)
    if _HOOK[0] is not None:
        _HOOK[0](x, conv, s)
    return s


def walk_json(out):
    return [[int(l), [int(p[0]), int(p[1])]] for l, p in out]


def ints(t):
    return [int(a) for a in t]


# --------------------------------------------------------------------------
# argument kinds and calling conventions
# --------------------------------------------------------------------------

ARG_KINDS = ["tuple", "list", "iter", "numpy", "intlike", "namedtuple", "range"]
CONVENTIONS = ["pos", "kw", "default"]
_KEPT_ARGS = []        # the caller keeps the mutable arguments it passed (and edits them, in call histories)


def mk(vals, kind, indexable=False):
    """the coordinate / vector `vals` (list of ints) as the kind of object a caller may legally pass.
    `indexable`: the function indexes its argument, so one-shot iterators are not legal there."""
    vals = [int(a) for a in vals]
    if kind == "list":
        x = list(vals)
        _KEPT_ARGS.append(x)
        return x
    if kind == "iter" and not indexable:
        return iter(vals)
    if kind == "numpy" and all(abs(a) < 2 ** 61 for a in vals):
        import numpy
        return numpy.array(vals, dtype=numpy.int64)
    if kind == "intlike":
        # bool and IntEnum members are ints
        from rig.links import Links
        return tuple(Links(a) if 2 <= a <= 5 else (bool(a) if a in (0, 1) else a) for a in vals)
    if kind == "namedtuple":
        import collections
        return collections.namedtuple("Coord", ["x", "y", "z"][:len(vals)])(*vals)
    if kind == "range" and len(vals) >= 2 and len(set(b - a for a, b in zip(vals, vals[1:]))) == 1 \
            and vals[1] != vals[0]:
        return range(vals[0], vals[-1] + (vals[1] - vals[0]), vals[1] - vals[0])
    return tuple(vals)


def invoke(f, names, args, conv, defaults=None):
    """call f with `args` positionally, by keyword (documented names), or leaving out trailing arguments
    that equal their documented default"""
    defaults = defaults or {}
    if conv == "kw":
        return f(**dict(zip(names, args)))
    if conv == "default":
        args = list(args)
        names = list(names)
        while names and names[-1] in defaults and _same(args[-1], defaults[names[-1]]):
            args.pop()
            names.pop()
        return f(*args)
    return f(*args)


def _same(a, b):
    if a is None or b is None:
        return a is None and b is None
    if hasattr(a, "__next__"):
        return False
    try:
        return [int(x) for x in a] == [int(x) for x in b]
    except TypeError:
        return a == b


# --------------------------------------------------------------------------
# implementation runs
# --------------------------------------------------------------------------

WALK_LIMIT = 20000      # vectors longer than this are not walked (the list would not fit)


def run_impl(c):
    """run the implementation on case c; returns dict of observations.  Optional case fields:
    "ak" argument kind (ARG_KINDS), "conv" calling convention, "fault" index of the random draw that fails."""
    from rig import geometry
    from rig import links as rlinks
    from rig.place_and_route.route import utils as rutils
    k = c["kind"]
    ak, conv, fault = c.get("ak", "tuple"), c.get("conv", "pos"), c.get("fault")
    o = {}

    def ldf(vec, start, w, h, rec):
        with patched(rutils, rec):
            return call(lambda: snap(walk_json, invoke(
                rutils.longest_dimension_first, ["vector", "start", "width", "height"],
                [mk(vec, ak), mk(start, ak), w, h], conv, {"start": (0, 0), "width": None, "height": None})))

    if k in ("torus", "torus_real"):
        s, d, w, h = c["s"], c["d"], c["w"], c["h"]
        names = ["source", "destination", "width", "height"]
        o["len"] = call(lambda: snap(int, invoke(geometry.shortest_torus_path_length, names,
                                                 [mk(s, ak, True), mk(d, ak, True), w, h], conv)))
        rec = Rec(c["seed"], c["den"], fault) if k == "torus" else _random.Random(c["seed"])
        with patched(geometry, rec):
            o["vec"] = call(lambda: snap(ints, invoke(geometry.shortest_torus_path, names,
                                                      [mk(s, ak), mk(d, ak), w, h], conv)))
        if k == "torus":
            o["vec_ks"], o["vec_ts"] = rec.ks, rec.ts
        if "ok" in o["vec"] and w > 0 and h > 0 and sum(abs(a) for a in o["vec"]["ok"]) <= WALK_LIMIT:
            start = ((s[0] - s[2]) % w, (s[1] - s[2]) % h)
            rec2 = Rec(c["seed"] + 1, c["den"]) if k == "torus" else _random.Random(c["seed"] + 1)
            o["walk"] = ldf(o["vec"]["ok"], start, w, h, rec2)
            if k == "torus":
                o["walk_ks"] = rec2.ks
    elif k == "torus_float":
        s, d, w, h = tuple(c["s"]), tuple(c["d"]), c["w"], c["h"]
        o["len"] = call(lambda: snap(int, geometry.shortest_torus_path_length(s, d, w, h)))
        with patched(geometry, Seq([FLOAT_EDGE[i] for i in c["rs"]], c["seed"])):
            o["vec"] = call(lambda: snap(ints, geometry.shortest_torus_path(s, d, w, h)))
    elif k == "mesh":
        s, d = c["s"], c["d"]
        names = ["source", "destination"]
        o["len"] = call(lambda: snap(int, invoke(geometry.shortest_mesh_path_length, names,
                                                 [mk(s, ak, True), mk(d, ak, True)], conv)))
        o["vec"] = call(lambda: snap(ints, invoke(geometry.shortest_mesh_path, names, [mk(s, ak), mk(d, ak)], conv)))
        if "ok" in o["vec"] and sum(abs(a) for a in o["vec"]["ok"]) <= WALK_LIMIT:
            start = (s[0] - s[2], s[1] - s[2])
            rec2 = Rec(c["seed"], c["den"], fault)
            o["walk"] = ldf(o["vec"]["ok"], start, None, None, rec2)
            o["walk_ks"] = rec2.ks
    elif k == "ldf":
        rec = Rec(c["seed"], c["den"], fault)
        o["walk"] = ldf(c["v"], c["start"], c["w"], c["h"], rec)
        o["walk_ks"] = rec.ks
    elif k == "minimise":
        o["min"] = call(lambda: snap(ints, invoke(geometry.minimise_xyz, ["xyz"], [mk(c["v"], ak)], conv)))
        o["xyz"] = call(lambda: snap(ints, invoke(geometry.to_xyz, ["xy"], [mk(c["v"][:2], ak)], conv)))
    elif k == "links":
        L = rlinks.Links
        o["all"] = [int(l) for l in L]
        o["to_vector"] = [call(lambda l=l: ints(L(l).to_vector())) for l in range(6)]
        o["opposite"] = [call(lambda l=l: int(L(l).opposite)) for l in range(6)]
        kinds = ["tuple", "list", "iter", "numpy", "intlike", "namedtuple"]
        o["from_vector"] = [[x, y, call(lambda x=x, y=y: int(invoke(
            L.from_vector, ["vector"], [mk([x, y], kinds[(x * 9 + y) % len(kinds)])], ["pos", "kw"][(x + y) % 2])))]
            for x in range(-4, 5) for y in range(-4, 5)]
    elif k == "links_wrap":
        L = rlinks.Links
        w, h = c["w"], c["h"]
        res = []
        for x in range(w):
            for y in range(h):
                for l in range(6):
                    v = call(lambda l=l: ints(L(l).to_vector()))
                    if "ok" not in v:
                        res.append([x, y, l, v])
                        continue
                    bx, by = (x + v["ok"][0]) % w, (y + v["ok"][1]) % h
                    res.append([x, y, l, call(lambda: int(L.from_vector((bx - x, by - y))))])
        o["wrap"] = res
    elif k == "links_between":
        m = get_machine(c)
        o["lb"] = call(lambda: snap(lambda r: sorted(int(l) for l in r), invoke(
            rutils.links_between, ["a", "b", "machine"], [mk(c["a"], ak), mk(c["b"], ak), m], conv)))
    elif k == "hex_history":
        o["hist"] = call(lambda: run_hex_history(c["ops"], c.get("fresh", True)))
    elif k == "hexagons":
        o["hex"] = call(lambda: [ints(p) for p in invoke(
            geometry.concentric_hexagons, ["radius", "start"], [c["r"], mk(c["start"], ak)], conv,
            {"start": (0, 0)})])
    return o


_MACHINES = {}      # slot -> Machine object kept by the caller within one call history


class _FaultOnce(object):
    pass


def get_machine(c):
    """the Machine for a links_between call.  "mach": slot -> the caller keeps ONE object per slot for the
    whole history and edits its dead_chips / dead_links sets IN PLACE to the state the case describes;
    "mkind": "subclass" (an instance of a subclass of Machine), "intlinks" (dead links named by plain ints);
    "fault": the n-th membership test of the machine raises Injected once."""
    from rig.place_and_route import Machine
    from rig import links as rlinks
    L = rlinks.Links
    mkind = c.get("mkind", "plain")
    dead_chips = set(tuple(p) for p in c["dead_chips"])
    dead_links = set((x, y, (int(l) if mkind == "intlinks" else L(l))) for x, y, l in c["dead_links"])
    cls = Machine
    if mkind == "subclass" or c.get("fault") is not None:
        class MyMachine(Machine):
            """a user's subclass: extra state, membership test delegating to the base class"""
            fail_at = c.get("fault")
            tests = 0

            def __contains__(self, x):
                n = type(self).tests
                type(self).tests = n + 1
                if type(self).fail_at is not None and n == type(self).fail_at:
                    type(self).fail_at = None
                    raise Injected("machine query failed")
                return Machine.__contains__(self, x)
        cls = MyMachine
    slot = c.get("mach")
    if slot is not None and slot in _MACHINES and type(_MACHINES[slot]).__name__ == cls.__name__ \
            and (_MACHINES[slot].width, _MACHINES[slot].height) == (c["w"], c["h"]) and c.get("fault") is None:
        m = _MACHINES[slot]
        m.dead_chips.clear()
        m.dead_chips.update(dead_chips)
        m.dead_links.clear()
        m.dead_links.update(dead_links)
        return m
    m = cls(c["w"], c["h"], dead_chips=dead_chips, dead_links=dead_links)
    if slot is not None and c.get("fault") is None:
        _MACHINES[slot] = m
    return m


def run_hex_history(ops, fresh=True):
    """A history of generator operations on rig.geometry.concentric_hexagons, starting from freshly
    initialised module-level state (the module is re-executed before and after, so that the case
    behaves as in a fresh interpreter and leaves nothing behind for later cases).
    ops: ["new", id, radius, [x, y]] | ["next", id, k] | ["drain", id] | ["close", id] | ["drop", id].
    Returns {id: {"r", "start", "out": [...], "done": bool}}."""
    import importlib
    from rig import geometry
    if fresh:
        importlib.reload(geometry)
    gens, res = {}, {}
    try:
        for op in ops:
            g = str(op[1])
            if op[0] == "new":
                gens[g] = geometry.concentric_hexagons(op[2], tuple(op[3]))
                res[g] = {"r": op[2], "start": list(op[3]), "out": [], "done": False}
            elif op[0] == "next":
                for _ in range(op[2]):
                    if g not in gens or res[g]["done"]:
                        break
                    try:
                        res[g]["out"].append(ints(next(gens[g])))
                    except StopIteration:
                        res[g]["done"] = True
            elif op[0] == "drain":
                if g in gens and not res[g]["done"]:
                    for p in gens[g]:
                        res[g]["out"].append(ints(p))
                    res[g]["done"] = True
            elif op[0] == "close":
                if g in gens:
                    gens.pop(g).close()
            elif op[0] == "drop":
                gens.pop(g, None)      # CPython finalises (closes) the generator at once
    finally:
        gens.clear()
        if fresh:
            importlib.reload(geometry)
    return res


MUTATIONS = ["none", "append", "extend", "extend_self", "insert", "pop", "clear", "reverse", "accumulate", "setitem"]


def make_mutator(how, state):
    """what a caller may legitimately do to an object a function handed back to it"""
    from rig import links as rlinks
    junk = (rlinks.Links.east, (7, 7))

    def mut(x, conv=None, snapshot=None):
        if how == "none" and isinstance(x, (list, set, dict)):
            # the caller KEEPS this result untouched and looks at it again at the end of the history
            state.setdefault("kept", []).append((state.get("at", 0), x, conv, snapshot))
        if isinstance(x, list):
            if how == "append":
                x.append(junk)
            elif how == "extend":
                x.extend(state.get("prev") or [junk, junk])
            elif how == "extend_self":
                x.extend(list(x) or [junk])
            elif how == "insert":
                x.insert(0, junk)
            elif how == "pop":
                if x:
                    x.pop()
            elif how == "clear":
                del x[:]
            elif how == "reverse":
                x.reverse()
            elif how == "setitem":
                if x:
                    x[0] = junk
            elif how == "accumulate":
                # a multi-leg route: the first leg's list collects the hops of the later legs
                if "acc" in state:
                    state["acc"].extend(x)
                else:
                    state["acc"] = x
            state["prev"] = list(x)
        elif isinstance(x, set):
            if how in ("append", "extend", "insert", "accumulate", "extend_self", "setitem"):
                x.add(rlinks.Links.east)
                x.add(rlinks.Links.south_west)
            elif how in ("clear", "reverse"):
                x.clear()
            elif how == "pop":
                if x:
                    x.pop()
        elif isinstance(x, dict):
            if how in ("clear", "pop"):
                x.clear()
            elif how != "none":
                x["junk"] = junk
    return mut


def run_call_history(calls):
    """A history of calls by one caller: after each call the caller mutates what it got back (when it
    is mutable) and carries on.  Module-level state of the two modules is fresh at the start (as in a new
    interpreter) and reset afterwards.  Returns the list of observations, one per call; every
    observation is a snapshot taken at the moment the function returned."""
    import importlib
    from rig import geometry
    from rig.place_and_route.route import utils as rutils
    importlib.reload(geometry)
    importlib.reload(rutils)
    state, obs = {}, []
    del _KEPT_ARGS[:]
    _MACHINES.clear()
    try:
        for i, sub in enumerate(calls):
            state["at"] = i
            _HOOK[0] = make_mutator(sub.get("mut", "none"), state)
            n_args = len(_KEPT_ARGS)
            obs.append(run_impl(sub))
            # the caller edits, in place, the mutable arguments it passed to this call, and keeps them
            for j, x in enumerate(_KEPT_ARGS[n_args:]):
                edit = sub.get("argedit", "none")
                if edit == "scribble":
                    x[:] = [a + 1000 + j for a in x]
                elif edit == "clear":
                    del x[:]
                elif edit == "grow":
                    x.extend([7, 7])
        _HOOK[0] = None
        # kept results, looked at again after everything that followed
        for (at, x, conv, before) in state.get("kept", []):
            try:
                after = conv(x)
            except Exception as e:  # noqa
                after = "unreadable: %r" % (e,)
            if after != before:
                obs[at].setdefault("later", []).append({"before": before, "after": after})
    finally:
        _HOOK[0] = None
        state.clear()
        del _KEPT_ARGS[:]
        _MACHINES.clear()
        importlib.reload(geometry)
        importlib.reload(rutils)
    return obs


# --------------------------------------------------------------------------
# evaluation: model requests, specification requests, comparison
# --------------------------------------------------------------------------

def L(op, **kw):
    kw["suite"] = "c11"
    kw["op"] = op
    return kw


def eval_cases(ctx, cases):
    reqs, handlers = [], []

    def ask(req, fn):
        reqs.append(req)
        handlers.append(fn)

    def count(cd, nontriv):
        if "at" not in cd:
            ctx.case(cd, nontriv)

    def V(key, what, cd):
        """a concrete failure; inside a call history the replay is the whole history and the key says so"""
        if key == "exception-on-valid-input" and "DidNotReturn" in what:
            key = "did-not-return"
        if cd.get("kind") == "call_history":
            i = cd["at"]
            what = ("call #%d of a call history (fresh module state, the caller mutates returned lists/sets "
                    "between calls: %s): %s" % (i, ", ".join("%s[%s]" % (x["kind"], x.get("mut", "none"))
                                                             for x in cd["calls"][:i + 1]), what))
            if i > 0:
                key += "-in-call-history"
        ctx.violation(key, what, cd)

    def work(cases):
        for c in cases:
            if c["kind"] == "call_history":
                obs = run_call_history(c["calls"])
                for i, (sub, o) in enumerate(zip(c["calls"], obs)):
                    yield sub, o, dict(c, at=i)
                n_mut = sum(1 for x in c["calls"] if x.get("mut", "none") != "none")
                ctx.tag("callhist_len_%s" % ("3-5" if len(c["calls"]) <= 5 else "6+"))
                ctx.case(dict(c), n_mut >= 1)
            else:
                yield c, run_impl(c), dict(c)

    groups = {}     # (w, h, start) -> list of (target, case, reported length)
    for c, o, c_desc in work(cases):
        k = c["kind"]
        ctx.traces += 1
        in_hist = "at" in c_desc
        if in_hist:
            ctx.tag("callhist_%s_%s" % (k, c.get("mut", "none")))
        for ch in o.get("later", []):
            # a result the caller kept (and did not touch) reads differently after later calls; the Lean oracle
            # judges what it reads now
            ctx.tag("kept_result_changed")
            what = ("the %s result %r returned by this call reads %r after the later calls of the history" % (
                k, ch["before"], ch["after"]))
            if k == "links_between":
                def chk_later(r, ch=ch, what=what, c_desc=c_desc):
                    if sorted(r) != ch["after"]:
                        V("result-changed-after-return", what, c_desc)
                    else:
                        ctx.mismatch("c11.kept_result", what, c_desc)
                ask(L("spec_links_between", a=c["a"], b=c["b"], w=c["w"], h=c["h"], dead_chips=c["dead_chips"],
                      dead_links=c["dead_links"]), chk_later)
            elif k in ("ldf", "torus", "mesh", "torus_real") and isinstance(ch["after"], list) and "vec" in o or k == "ldf":
                if k == "ldf":
                    v_, st_, w_, h_ = c["v"], c["start"], c["w"], c["h"]
                else:
                    v_ = o["vec"]["ok"]
                    w_, h_ = (c["w"], c["h"]) if k != "mesh" else (None, None)
                    st_ = [(c["s"][0] - c["s"][2]), (c["s"][1] - c["s"][2])]
                    if w_:
                        st_ = [st_[0] % w_, st_[1] % h_]

                def chk_later2(r, what=what, c_desc=c_desc):
                    if r is not True:
                        V("result-changed-after-return", what, c_desc)
                    else:
                        ctx.mismatch("c11.kept_result", what, c_desc)
                if isinstance(ch["after"], list):
                    ask(L("spec_ldf", v=v_, start=st_, w=w_, h=h_, path=ch["after"]), chk_later2)
                else:
                    V("result-changed-after-return", what, c_desc)
            else:
                ctx.mismatch("c11.kept_result", what, c_desc)
        if "ak" in c or "conv" in c:
            ctx.tag("argkind_%s" % c.get("ak", "tuple"), "convention_%s" % c.get("conv", "pos"))
        if c.get("mkind"):
            ctx.tag("machine_%s" % c["mkind"])
        if c.get("scale"):
            ctx.tag("scale_%s" % k)
        if c.get("mach") is not None:
            ctx.tag("kept_machine_object")
        if c.get("argedit"):
            ctx.tag("passed_list_%s" % c["argedit"])
        if c.get("fault") is not None:
            # a fault injected by the harness: the call may fail with that fault (anything else is judged by the
            # calls that follow in the history, which must be unaffected)
            outcome = [v.get("err", "ok").split(" ")[0] for v in o.values() if isinstance(v, dict) and ("err" in v or "ok" in v)]
            ctx.tag("fault_injected_%s" % ("raised" if "Injected" in outcome else "not-reached"))
            bad = [x for x in outcome if x not in ("ok", "Injected")]
            if bad:
                V("exception-on-valid-input", "after an injected failure of the random source / machine query the "
                  "call raised %r instead" % (bad,), c_desc)
            count(c_desc, False)
            continue

        def cmp(name, impl, c=c_desc):
            def fn(model):
                if model != impl:
                    ctx.mismatch("c11." + name, "impl=%r model=%r" % (impl, model), c)
            return fn

        def spec_true(key, what, c=c_desc):
            def fn(r):
                if r is not True:
                    V(key, what, c)
            return fn

        nontriv = False
        if k in ("torus", "torus_real", "mesh"):
            torus = k != "mesh"
            s, d = c["s"], c["d"]
            w, h = (c["w"], c["h"]) if torus else (None, None)
            valid = (not torus) or (w >= 1 and h >= 1)
            if torus:
                ask(L("torus_len", s=s, d=d, w=w, h=h), cmp("torus_len", o["len"]))
            else:
                ask(L("mesh_len", s=s, d=d), cmp("mesh_len", o["len"].get("ok")))
            if k == "torus":
                ks = (o["vec_ks"] + [0, 0, 0, 0])[:4]
                if "ok" in o["vec"] and (len(o["vec_ks"]) != 4 or len(o["vec_ts"]) > 1):
                    ctx.mismatch("c11.torus_path.draws", "random() x%d, randint x%d" % (
                        len(o["vec_ks"]), len(o["vec_ts"])), c_desc)
                ask(L("torus_path", s=s, d=d, w=w, h=h, den=c["den"], ks=ks,
                      t=(o["vec_ts"] or [0])[0]), cmp("torus_path", o["vec"]))
                ctx.tag("torus_spiral_drawn" if o["vec_ts"] else "torus_no_spiral")
            elif k == "mesh":
                ask(L("mesh_path", s=s, d=d), cmp("mesh_path", o["vec"].get("ok")))
            if not valid:
                ctx.tag("torus_malformed_%s" % ("zero" if (w == 0 or h == 0) else "negative"))
                count(c_desc, False)
                continue
            ctx.tag("%s_w%s_h%s" % (k, "1" if w == 1 else "2" if w == 2 else "n" if w else "-",
                                     "1" if h == 1 else "2" if h == 2 else "n" if h else "-"))
            walked = "ok" in o["vec"] and sum(abs(a) for a in o["vec"]["ok"]) <= WALK_LIMIT
            bad = [n for n in ("len", "vec") + (("walk",) if walked or "err" in o["vec"] else ())
                   if "err" in o.get(n, {"err": "missing"})]
            if bad:
                V("exception-on-valid-input", "%s raised on a valid input: %r" % (
                    bad, {n: o.get(n) for n in bad}), c_desc)
                count(c_desc, False)
                continue
            n, v, walk = o["len"]["ok"], o["vec"]["ok"], o["walk"]["ok"] if walked else None
            if torus:
                start = [(s[0] - s[2]) % w, (s[1] - s[2]) % h]
                dest = [(d[0] - d[2]) % w, (d[1] - d[2]) % h]
            else:
                start = [s[0] - s[2], s[1] - s[2]]
                dest = [d[0] - d[2], d[1] - d[2]]
            if "walk_ks" in o:
                ask(L("ldf", v=v, start=start, w=w, h=h, den=c["den"], ks=(o["walk_ks"] + [0, 0, 0])[:3]),
                    cmp("ldf", o["walk"]))
            if c.get("nobfs"):
                # too large for the graph search: the Lean closed form, which the theorems meshLen_eq_dist /
                # torusLen_eq_dist prove equal to the graph distance for ALL sizes, decides
                ctx.tag("length_by_theorem")

                def chk_len(r, n=n, c_desc=c_desc, s=s, d=d, w=w, h=h):
                    r = r.get("ok") if isinstance(r, dict) else r
                    if r != n:
                        V("length-not-graph-distance", "reported length %r from %r to %r (w=%r h=%r); the graph "
                          "distance is %r (Lean closed form, theorems meshLen_eq_dist / torusLen_eq_dist)" % (
                              n, s, d, w, h, r), c_desc)
                ask(L("torus_len", s=s, d=d, w=w, h=h) if torus else L("mesh_len", s=s, d=d), chk_len)
            else:
                groups.setdefault((w, h, tuple(start), c.get("radius", 0)), []).append((dest, c_desc, n))
            ask(L("spec_vector", s=s, d=d, v=v, w=w, h=h, n=n),
                spec_true("vector-wrong", "the reported vector %r does not have %r hops or does not lead from "
                          "source to destination" % (v, n)))
            if not walked:
                ctx.tag("vector_too_long_to_walk")
                count(c_desc, True)
                continue
            ask(L("spec_ldf", v=v, start=start, w=w, h=h, path=walk),
                spec_true("ldf-walk-wrong", "longest_dimension_first(%r) from %r is not a walk of adjacent chips "
                          "labelled by the links taken, of |x|+|y|+|z| hops, ending at start+vector: %r" % (v, start, walk)))
            ask(L("spec_walk_to", start=start, dest=dest, w=w, h=h, path=walk),
                spec_true("walk-misses-destination", "walking the reported vector %r from %r does not end at the "
                          "destination %r: %r" % (v, start, dest, walk)))
            nontriv = any(v)
            if torus:
                nowrap = max(dest[0] - start[0], dest[1] - start[1], 0) - min(dest[0] - start[0], dest[1] - start[1], 0)
                nontriv = n < nowrap or bool(o.get("vec_ts")) or n > 0
                if n < nowrap:
                    ctx.tag("torus_wrap_shorter")
        elif k == "torus_float":
            ctx.tag("torus_float_edge")
            if "err" in o["len"] or "err" in o["vec"]:
                V("exception-on-valid-input", "raised on a valid input: %r %r" % (o["len"], o["vec"]), c_desc)
            else:
                ask(L("spec_vector", s=c["s"], d=c["d"], v=o["vec"]["ok"], w=c["w"], h=c["h"], n=o["len"]["ok"]),
                    spec_true("torus-tiebreak-float-rounding",
                              "with random.random() returning %r (all legal outcomes) shortest_torus_path(%r, %r, %d, %d) "
                              "= %r which does not have shortest_torus_path_length = %d hops (the key `distance + "
                              "random.random()` rounds up to the next integer)" % (
                                  [FLOAT_EDGE[i] for i in c["rs"]], c["s"], c["d"], c["w"], c["h"], o["vec"]["ok"],
                                  o["len"]["ok"])))
            nontriv = len(set(c["rs"])) > 1
        elif k == "ldf":
            v, start, w, h = c["v"], c["start"], c["w"], c["h"]
            ask(L("ldf", v=v, start=start, w=w, h=h, den=c["den"], ks=(o["walk_ks"] + [0, 0, 0])[:3]),
                cmp("ldf", o["walk"]))
            if "err" in o["walk"]:
                V("exception-on-valid-input", "longest_dimension_first raised %r" % (o["walk"],), c_desc)
            else:
                ask(L("spec_ldf", v=v, start=start, w=w, h=h, path=o["walk"]["ok"]),
                    spec_true("ldf-walk-wrong", "longest_dimension_first(%r) from %r (w=%r h=%r) is not a correctly "
                              "labelled walk to start+vector: %r" % (v, start, w, h, o["walk"]["ok"])))
            mags = sorted(abs(a) for a in v)
            ctx.tag("ldf_tie" if (mags[2] == mags[1] or mags[1] == mags[0]) else "ldf_distinct",
                    "ldf_wrap_%s%s" % ("x" if w else "-", "y" if h else "-"))
            nontriv = sum(1 for a in v if a) >= 2
        elif k == "minimise":
            ask(L("minimise", v=c["v"]), cmp("minimise", o["min"].get("ok")))
            ask(L("to_xyz", p=c["v"][:2]), cmp("to_xyz", o["xyz"].get("ok")))
            if "ok" in o["min"]:
                m = o["min"]["ok"]
                # minimal form: same 2-D displacement and |x|+|y|+|z| = hexagonal distance (Lean vectorOk with
                # the Lean mesh length as n is asked below via mesh_len of the same displacement)
                hops = sum(abs(a) for a in m)
                disp = [c["v"][0] - c["v"][2], c["v"][1] - c["v"][2]]
                what = "minimise_xyz(%r) = %r whose hop count is not the graph distance of the displacement" % (c["v"], m)
                if hops <= 8:
                    ask(L("spec_dist_is", w=None, h=None, a=[0, 0], b=disp, n=hops),
                        spec_true("minimise-not-minimal", what))

                def chk(r, hops=hops, what=what, c_desc=c_desc):
                    if r != hops:
                        V("minimise-not-minimal", what, c_desc)
                ask(L("spec_hexlen", x=disp[0], y=disp[1]), chk)
                ask(L("spec_vector", s=[0, 0, 0], d=c["v"], v=m, w=None, h=None, n=sum(abs(a) for a in m)),
                    spec_true("minimise-moves", "minimise_xyz(%r) = %r is a different displacement" % (c["v"], m)))
            else:
                V("exception-on-valid-input", "minimise_xyz raised %r" % (o["min"],), c_desc)
            nontriv = min(c["v"]) != max(c["v"])
        elif k == "links":
            ask(L("all_links"), cmp("all_links", o["all"]))
            for l in range(6):
                ask(L("to_vector", l=l), cmp("to_vector", o["to_vector"][l]))
                ask(L("opposite", l=l), cmp("opposite", o["opposite"][l].get("ok")))
                tv, op = o["to_vector"][l], o["opposite"][l]

                def chk(r, l=l, tv=tv, op=op, o=o, c_desc=c_desc):
                    # specification: link l goes along specVec l; the opposite link goes back; from_vector inverts
                    ok = "ok" in tv and tv["ok"] == r and "ok" in op
                    if ok:
                        back = o["to_vector"][op["ok"]] if 0 <= op["ok"] < 6 else {}
                        ok = back.get("ok") == [-r[0], -r[1]] and o["opposite"][op["ok"]].get("ok") == l
                        fv = [e for e in o["from_vector"] if e[0] == r[0] and e[1] == r[1]]
                        ok = ok and fv and fv[0][2].get("ok") == l
                    if not ok:
                        V("link-tables-inconsistent",
                                      "link %d: to_vector=%r opposite=%r, hexagonal neighbourhood says vector %r" % (
                                          l, tv, op, r), c_desc)
                ask(L("spec_vec", l=l), chk)
            for x, y, r in o["from_vector"]:
                ask(L("from_vector", x=x, y=y), cmp("from_vector", r))
            if sorted(o["all"]) != list(range(6)):
                V("link-tables-inconsistent", "Links has members %r" % (o["all"],), c_desc)
            nontriv = True
        elif k == "links_wrap":
            w, h = c["w"], c["h"]
            for x, y, l, r in o["wrap"]:
                if r.get("ok") != l:
                    V("from-vector-wrap", "on a %dx%d torus chip (%d,%d) link %d: from_vector of the "
                                  "coordinate difference to the neighbour gives %r" % (w, h, x, y, l, r), c_desc)
                    break
            nontriv = True
        elif k == "links_between":
            req = dict(a=c["a"], b=c["b"], w=c["w"], h=c["h"], dead_chips=c["dead_chips"], dead_links=c["dead_links"])
            def cmp_lb(model, impl=o["lb"], c_desc=c_desc):
                if "ok" in model:
                    model = {"ok": sorted(model["ok"])}
                if model != impl:
                    ctx.mismatch("c11.links_between", "impl=%r model=%r" % (impl, model), c_desc)
            ask(L("links_between", **req), cmp_lb)
            if "err" in o["lb"]:
                V("exception-on-valid-input", "links_between raised %r" % (o["lb"],), c_desc)
            else:
                def chk(r, got=o["lb"]["ok"], c_desc=c_desc):
                    if sorted(r) != got:
                        V("links-between-wrong", "links_between gives %r, the working links that lead "
                                      "from a to b are %r" % (got, sorted(r)), c_desc)
                ask(L("spec_links_between", **req), chk)
                nontriv = bool(o["lb"]["ok"])
                ctx.tag("lb_%d" % len(o["lb"]["ok"]))
        elif k == "hex_history":
            if "err" in o["hist"]:
                V("exception-on-valid-input", "concentric_hexagons raised %r during %r" % (
                    o["hist"], c["ops"]), c_desc)
            else:
                order = [str(op[1]) for op in c["ops"] if op[0] == "new"]
                n_partial = 0
                for g in order:
                    e = o["hist"]["ok"][g]
                    first = g == order[0] and all(op[0] != "new" or str(op[1]) == g for op in
                                                  c["ops"][:max(i for i, op in enumerate(c["ops"])
                                                                if str(op[1]) == g and op[0] in ("next", "drain", "new")) + 1])
                    key = "hexagons-wrong" if first else "hexagons-history-dependent"

                    def cmp_h(model, e=e, g=g, c_desc=c_desc):
                        want = model if e["done"] else model[:len(e["out"])]
                        if e["out"] != want:
                            ctx.mismatch("c11.hexagons_history", "generator %s (r=%d start=%r, %s): impl=%r model=%r" % (
                                g, e["r"], e["start"], "exhausted" if e["done"] else "first %d" % len(e["out"]),
                                e["out"], want), c_desc)
                    ask(L("hexagons", r=e["r"], start=e["start"]), cmp_h)
                    if e["done"] and e["r"] >= 0:
                        ask(L("spec_hexagons", r=e["r"], start=e["start"], out=e["out"]),
                            spec_true(key, "after the generator history %r, the fully consumed "
                                      "concentric_hexagons(%d, %r) (generator %s) yielded %d chips which are not exactly "
                                      "the chips within the radius, each once, nearest first" % (
                                          c["ops"], e["r"], e["start"], g, len(e["out"]))))
                    if not e["done"]:
                        n_partial += 1
                ctx.tag("hexhist_%s" % c.get("shape", "seq"), "hexhist_partial_%d" % min(n_partial, 3))
                nontriv = n_partial >= 1 or c.get("shape") == "interleave"
        elif k == "hexagons":
            ask(L("hexagons", r=c["r"], start=c["start"]), cmp("hexagons", o["hex"].get("ok")))
            if "err" in o["hex"]:
                V("exception-on-valid-input", "concentric_hexagons raised %r" % (o["hex"],), c_desc)
            elif c["r"] >= 0 and not c.get("model_only"):
                ask(L("spec_hexagons", r=c["r"], start=c["start"], out=o["hex"]["ok"]),
                    spec_true("hexagons-wrong", "concentric_hexagons(%d, %r) is not exactly the chips within the "
                              "radius, each once, nearest first (%d points)" % (c["r"], c["start"], len(o["hex"]["ok"]))))
            nontriv = c["r"] >= 1
            ctx.tag("hex_r%s" % ("neg" if c["r"] < 0 else "0" if c["r"] == 0 else "1-3" if c["r"] <= 3 else "4+"))
        count(c_desc, nontriv)

    # graph-search distances, one search per (w, h, start)
    for (w, h, start, radius), lst in groups.items():
        n = max(w, h) if w else radius
        targets = [x[0] for x in lst]

        def chk(r, lst=lst, start=start, w=w, h=h):
            for (dest, c_desc, rep), dist in zip(lst, r):
                if dist != rep:
                    V("length-not-graph-distance",
                                  "reported length %r from chip %r to chip %r (w=%r h=%r), graph distance is %s" % (
                                      rep, list(start), dest, w, h,
                                      dist if dist is not None else "larger than the searched radius"), c_desc)
        ask(L("spec_dists", w=w, h=h, a=list(start), n=n, targets=targets), chk)

    for fn, r in zip(handlers, ctx.lean(reqs)):
        if isinstance(r, dict) and "proto_error" in r:
            raise RuntimeError("driver protocol error: %r" % (r,))
        fn(r)


# --------------------------------------------------------------------------
# generators
# --------------------------------------------------------------------------

def rep(rng, p, w=None, h=None):
    """a random three-axis representation of the 2-D chip p"""
    z = rng.choice([0, 0, 1, -1, 2, -3, rng.randrange(-20, 21)])
    x, y = p[0] + z, p[1] + z
    if w and rng.random() < 0.15:
        x += w * rng.randrange(-2, 3)
    if h and rng.random() < 0.15:
        y += h * rng.randrange(-2, 3)
    return [x, y, z]


def den_of(rng):
    return rng.choice([1, 2, 2, 4, 4, 8, 1024])


def gen_torus(ctx, sizes, per_src, n_src=2, kind="torus", all_sources=False):
    """for every size: n_src sources (or all); per source every destination chip when there are at most
    per_src of them (topped up with further random representations), else per_src random ones"""
    rng = ctx.rng
    cases = []
    for (w, h) in sizes:
        pts = [(x, y) for x in range(w) for y in range(h)]
        srcs = pts if all_sources else [rng.choice(pts) for _ in range(n_src if w * h > 1 else 1)]
        for src in srcs:
            if len(pts) <= per_src or all_sources:
                dests = pts + [rng.choice(pts) for _ in range(0 if all_sources else per_src - len(pts))]
            else:
                dests = [rng.choice(pts) for _ in range(per_src)]
            srep = rep(rng, src, w, h)
            for dst in dests:
                cases.append({"kind": kind, "w": w, "h": h,
                              "s": srep if rng.random() < 0.3 else rep(rng, src, w, h), "d": rep(rng, dst, w, h),
                              "den": den_of(rng), "seed": rng.randrange(1 << 30)})
    return cases


def gen_mesh(ctx, n_sources, per, radius):
    rng = ctx.rng
    cases = []
    for _ in range(n_sources):
        src = (rng.randrange(-30, 31), rng.randrange(-30, 31))
        srep = rep(rng, src)     # one representation per source so that the search is shared
        for _ in range(per):
            while True:
                dx, dy = rng.randrange(-radius, radius + 1), rng.randrange(-radius, radius + 1)
                if max(dx, dy, 0) - min(dx, dy, 0) <= radius:
                    break
            cases.append({"kind": "mesh", "s": srep if rng.random() < 0.5 else rep(rng, src),
                          "d": rep(rng, (src[0] + dx, src[1] + dy)),
                          "den": den_of(rng), "seed": rng.randrange(1 << 30), "radius": radius})
    return cases


def gen_ldf(ctx, n):
    rng = ctx.rng
    cases = []
    for _ in range(n):
        m = rng.choice([1, 2, 3, 6])
        v = [rng.choice([0, 0, 1, -1, m, -m, rng.randrange(-7, 8)]) for _ in range(3)]
        w = rng.choice([None, 1, 2, 3, 5, 8])
        h = rng.choice([None, 1, 2, 3, 5, 8])
        cases.append({"kind": "ldf", "v": v, "start": [rng.randrange(-3, 9), rng.randrange(-3, 9)],
                      "w": w, "h": h, "den": den_of(rng), "seed": rng.randrange(1 << 30)})
    return cases


def gen_misc(ctx, n_min, n_lb, radii):
    rng = ctx.rng
    cases = [{"kind": "links"}]
    for w in (3, 4, 5):
        for h in (3, 4, 6):
            cases.append({"kind": "links_wrap", "w": w, "h": h})
    for _ in range(n_min):
        b = rng.choice([2, 5, 100, 10 ** 6])
        cases.append({"kind": "minimise", "v": [rng.randrange(-b, b + 1) for _ in range(3)]})
    for _ in range(n_lb):
        w, h = rng.randrange(1, 6), rng.randrange(1, 6)
        pts = [[x, y] for x in range(w) for y in range(h)]
        dc = [p for p in pts if rng.random() < 0.1]
        dl = [[p[0], p[1], l] for p in pts for l in range(6) if rng.random() < 0.15]
        a = rng.choice(pts)
        if rng.random() < 0.8:
            l = rng.randrange(6)
            v = [(1, 0), (1, 1), (0, 1), (-1, 0), (-1, -1), (0, -1)][l]
            b = [(a[0] + v[0]) % w, (a[1] + v[1]) % h]
        else:
            b = rng.choice(pts)
        if rng.random() < 0.05:
            a = [a[0] + w, a[1]]
        cases.append({"kind": "links_between", "w": w, "h": h, "dead_chips": dc, "dead_links": dl, "a": a, "b": b})
    for r in radii:
        cases.append({"kind": "hexagons", "r": r, "start": [rng.randrange(-9, 10), rng.randrange(-9, 10)]})
    return cases


def gen_float_edge(ctx, sizes):
    """every combination of the edge values {0, 1 - 2^-53, 0.5} for the four tie-break draws, every
    destination from chip (0, 0)"""
    import itertools
    cases = []
    for (w, h) in sizes:
        for x in range(w):
            for y in range(h):
                for rs in itertools.product(range(3), repeat=4):
                    cases.append({"kind": "torus_float", "w": w, "h": h, "s": [0, 0, 0], "d": [x, y, 0],
                                  "rs": list(rs), "seed": ctx.rng.randrange(1 << 30)})
    return cases


def _cut_points(rng, r):
    """interesting numbers of elements to take from concentric_hexagons(r): 0, 1, ring boundaries,
    one either side of them, mid-ring, all but one, all"""
    total = 1 + 3 * r * (r + 1) if r >= 0 else 1
    bounds = [1 + 3 * j * (j + 1) for j in range(0, max(r, 0) + 1)]
    pts = [0, 1, total - 1, total, total + 2]
    for b in bounds:
        pts += [b, b + 1, b - 1]
    for j in range(1, max(r, 0) + 1):
        lo = 1 + 3 * (j - 1) * j
        pts += [lo + rng.randrange(1, 6 * j), lo + j, lo + 3 * j]     # mid-ring, side corners
    return [p for p in pts if p >= 0]


def gen_hex_history(ctx, n, max_r):
    """histories of 2-6 generators: some only partially consumed (then closed, dropped or left alive),
    followed by / interleaved with fully consumed ones"""
    rng = ctx.rng
    cases = []
    for i in range(n):
        n_gen = rng.randrange(2, 7)
        shape = rng.choice(["seq", "seq", "interleave", "mixed"])

        def new_gen(g):
            r = rng.choice([0, 1, 2, 2, 3, 3, 4, rng.randrange(0, max_r + 1), rng.randrange(0, max_r + 1)])
            if rng.random() < 0.03:
                r = -1
            start = rng.choice([[0, 0], [rng.randrange(-9, 10), rng.randrange(-9, 10)]])
            return r, start
        ops = []
        if shape == "seq":
            # sequential calls; at least one abandoned part-way, the last one always consumed fully
            n_partial = 0
            for g in range(n_gen):
                r, start = new_gen(g)
                ops.append(["new", g, r, start])
                last = g == n_gen - 1
                if not last and (rng.random() < 0.6 or (g == 0 and n_partial == 0)):
                    ops.append(["next", g, rng.choice(_cut_points(rng, r))])
                    end = rng.choice(["close", "drop", "keep"])
                    if end != "keep":
                        ops.append([end, g])
                    n_partial += 1
                else:
                    ops.append(["drain", g])
        elif shape == "interleave":
            # all generators alive at once, advanced in turn by small random steps, then drained
            gens = []
            for g in range(n_gen):
                r, start = new_gen(g)
                ops.append(["new", g, r, start])
                gens.append(g)
            for _ in range(rng.randrange(4, 40)):
                ops.append(["next", rng.choice(gens), rng.choice([1, 1, 1, 2, 3, 5, 7, 12])])
            rng.shuffle(gens)
            for g in gens:
                ops.append(["drain", g])
        else:
            # generators created at different times, partially advanced, some abandoned, the rest drained
            alive = []
            for g in range(n_gen):
                r, start = new_gen(g)
                ops.append(["new", g, r, start])
                alive.append((g, r))
                for _ in range(rng.randrange(0, 4)):
                    h, hr = rng.choice(alive)
                    ops.append(["next", h, rng.choice(_cut_points(rng, hr) + [1, 2, 3])])
                if len(alive) > 1 and rng.random() < 0.4:
                    h, hr = alive.pop(rng.randrange(len(alive)))
                    ops.append([rng.choice(["close", "drop"]), h])
            rng.shuffle(alive)
            for h, hr in alive:
                ops.append(["drain", h])
            r, start = new_gen(n_gen)
            ops += [["new", n_gen, r, start], ["drain", n_gen]]
        cases.append({"kind": "hex_history", "shape": shape, "ops": ops})
    return cases


def gen_call_history(ctx, n):
    """histories of 3-10 calls by one caller on one small machine, over every function of the property,
    rich in degenerate inputs (source == destination, null vectors, radius 0, 1 x 1 / 1 x N machines) and
    in repetitions of an earlier call; after each call the caller mutates the returned object"""
    rng = ctx.rng
    sizes = [(1, 1), (1, 1), (1, 4), (5, 1), (2, 2), (2, 5), (3, 3), (4, 3), (5, 5), (8, 8)]
    muts = ["none", "append", "extend", "extend_self", "insert", "pop", "clear", "reverse", "setitem",
            "accumulate", "accumulate", "accumulate", "append", "extend"]
    cases = []
    for _ in range(n):
        w, h = rng.choice(sizes)
        pts = [(x, y) for x in range(w) for y in range(h)]
        sticky = rng.choice(muts) if rng.random() < 0.5 else None     # one habit for the whole history
        calls = []
        for i in range(rng.randrange(3, 11)):
            degenerate = rng.random() < 0.45
            if calls and rng.random() < 0.25:
                sub = dict(rng.choice(calls))                           # the same call again
            else:
                kind = rng.choice(["torus", "torus", "torus", "ldf", "ldf", "ldf", "mesh", "mesh", "minimise",
                                   "links_between", "hexagons", "hex_history"])
                a = rng.choice(pts)
                b = a if degenerate else rng.choice(pts)
                seed = rng.randrange(1 << 30)
                if kind == "torus":
                    sub = {"kind": "torus", "w": w, "h": h, "s": rep(rng, a, w, h), "d": rep(rng, b, w, h),
                           "den": den_of(rng), "seed": seed}
                elif kind == "mesh":
                    if not degenerate:
                        b = (a[0] + rng.randrange(-3, 4), a[1] + rng.randrange(-3, 4))
                    sub = {"kind": "mesh", "s": rep(rng, a), "d": rep(rng, b), "den": den_of(rng), "seed": seed,
                           "radius": 9}
                elif kind == "ldf":
                    if degenerate:
                        v = rng.choice([[0, 0, 0], [0, 0, 0], [1, 1, 1], [-2, -2, -2]])
                    else:
                        v = [rng.choice([0, 0, 1, -1, 2, -3]) for _ in range(3)]
                    sub = {"kind": "ldf", "v": v, "start": list(a), "w": rng.choice([w, w, None]),
                           "h": rng.choice([h, h, None]), "den": den_of(rng), "seed": seed}
                elif kind == "minimise":
                    c0 = rng.randrange(-5, 6)
                    sub = {"kind": "minimise", "v": [c0, c0, c0] if degenerate else
                           [rng.randrange(-5, 6) for _ in range(3)]}
                elif kind == "links_between":
                    dc = [list(q) for q in pts if rng.random() < 0.1]
                    dl = [[q[0], q[1], l] for q in pts for l in range(6) if rng.random() < 0.1]
                    if not degenerate:
                        l = rng.randrange(6)
                        vv = [(1, 0), (1, 1), (0, 1), (-1, 0), (-1, -1), (0, -1)][l]
                        b = ((a[0] + vv[0]) % w, (a[1] + vv[1]) % h)
                    sub = {"kind": "links_between", "w": w, "h": h, "dead_chips": dc, "dead_links": dl,
                           "a": list(a), "b": list(b)}
                    if rng.random() < 0.5:
                        sub["mach"] = rng.randrange(2)     # one of two machine objects the caller keeps
                elif kind == "hexagons":
                    sub = {"kind": "hexagons", "r": 0 if degenerate else rng.randrange(0, 5), "start": list(a)}
                else:
                    r = rng.randrange(0, 4)
                    sub = {"kind": "hex_history", "fresh": False, "shape": "seq",
                           "ops": [["new", 0, r, list(a)], ["next", 0, rng.choice(_cut_points(rng, r))],
                                   [rng.choice(["close", "drop"]), 0]]}
            sub["mut"] = sticky or rng.choice(muts)
            calls.append(sub)
        if rng.random() < 0.5:
            calls = add_twins(rng, calls, w, h)
        cases.append({"kind": "call_history", "calls": calls})
    return cases


BIG = [2 ** 31, 2 ** 32, 2 ** 53 + 1, 2 ** 63, 2 ** 64, 2 ** 100, -2 ** 31 - 1, -2 ** 63, -2 ** 64 - 1]


def _maxabs(x):
    if isinstance(x, bool) or x is None or isinstance(x, str):
        return 0
    if isinstance(x, int):
        return abs(x)
    if isinstance(x, dict):
        return max([_maxabs(v) for k, v in x.items() if k != "seed"] + [0])
    if isinstance(x, list):
        return max([_maxabs(v) for v in x] + [0])
    return 0


def decorate(rng, cases, p=0.35):
    """give a share of the cases a non-default argument kind and calling convention (and, inside call
    histories, edits of the passed arguments, machine kinds, kept machine objects and injected faults)"""
    def one(c, in_hist):
        if c["kind"] in ("torus", "mesh", "ldf", "minimise", "hexagons", "links_between") and rng.random() < p:
            c["ak"] = rng.choice(ARG_KINDS)
            if c["ak"] == "numpy" and (_maxabs(c) >= 2 ** 31 or any(isinstance(c.get(q), int) and c[q] <= 0 for q in ("w", "h"))):
                c["ak"] = "list"      # int64 arithmetic is not Python-int arithmetic out there: not a legal int kind
            c["conv"] = rng.choice(CONVENTIONS)
            if in_hist and c["ak"] == "list":
                c["argedit"] = rng.choice(["scribble", "clear", "grow", "none"])
        if c["kind"] == "links_between" and rng.random() < 0.5:
            c["mkind"] = rng.choice(["subclass", "intlinks", "plain"])
        if in_hist and c["kind"] in ("torus", "mesh", "ldf", "links_between") and rng.random() < 0.06:
            c["fault"] = rng.randrange(0, 5)
    for c in cases:
        if c["kind"] == "call_history":
            for sub in c["calls"]:
                one(sub, True)
        else:
            one(c, False)
    return cases


def twin(rng, sub, w, h):
    """a copy of the call that differs in exactly one aspect"""
    t = json.loads(json.dumps(sub))
    k = t["kind"]
    if k == "torus":
        what = rng.choice(["w", "h", "d", "srep"])
        if what == "w":
            t["w"] += 1
        elif what == "h":
            t["h"] += 1
        elif what == "d":
            t["d"][rng.randrange(2)] += rng.choice([1, -1])
        else:
            z = rng.choice([1, -2, 7])
            t["s"] = [a + z for a in t["s"]]
    elif k == "mesh":
        t["d"][rng.randrange(3)] += rng.choice([1, -1])
    elif k == "ldf":
        what = rng.choice(["v", "start", "w", "h"])
        if what == "v":
            t["v"][rng.randrange(3)] += rng.choice([1, -1])
        elif what == "start":
            t["start"][rng.randrange(2)] += 1
        elif what == "w":
            t["w"] = None if t["w"] else w
        else:
            t["h"] = None if t["h"] else h
    elif k == "minimise":
        t["v"][rng.randrange(3)] += 1
    elif k == "hexagons":
        if rng.random() < 0.5:
            t["r"] += 1
        else:
            t["start"][rng.randrange(2)] -= 1
    elif k == "links_between":
        # one link of the machine changes state (the same kept machine object is edited in place)
        e = [t["a"][0], t["a"][1], rng.randrange(6)]
        if e in t["dead_links"]:
            t["dead_links"].remove(e)
        else:
            t["dead_links"].append(e)
    return t


def add_twins(rng, calls, w, h):
    """A, A', A (or A', A, A') for one call of the history; links_between calls alternate between two
    kept machine objects"""
    i = rng.randrange(len(calls))
    a = calls[i]
    if a["kind"] == "hex_history":
        return calls
    b = twin(rng, a, w, h)
    if a["kind"] == "links_between":
        a["mach"] = 0
        b["mach"] = rng.choice([0, 1])        # the same object edited in place, or a second machine
    trio = [a, b, json.loads(json.dumps(a))] if rng.random() < 0.5 else [b, a, json.loads(json.dumps(b))]
    for x in trio:
        x.setdefault("mut", "none")
    return calls[:i] + trio + calls[i + 1:]


def gen_big(ctx, n):
    """coordinates, starts, widths and heights around 2^31, 2^32, 2^53+1, 2^63, 2^64, 2^100 (Python ints are
    unbounded and so are the model's)"""
    rng = ctx.rng
    cases = []
    for _ in range(n):
        B, B2 = rng.choice(BIG), rng.choice(BIG)
        j = lambda: rng.randrange(-3, 4)
        kind = rng.choice(["torus_small", "torus_small", "torus_big", "torus_big", "mesh_far", "mesh_near", "ldf",
                           "minimise", "hexagons"])
        seed = rng.randrange(1 << 30)
        if kind == "torus_small":           # huge coordinates on an ordinary torus: graph search still applies
            w, h = rng.randrange(1, 9), rng.randrange(1, 9)
            cases.append({"kind": "torus", "w": w, "h": h, "s": [B + j(), B2 + j(), rng.choice([0, B, B2])],
                          "d": [B2 + j(), j(), rng.choice([0, B])], "den": den_of(rng), "seed": seed})
        elif kind == "torus_big":           # huge torus
            w, h = abs(B) + rng.randrange(0, 3), rng.choice([abs(B2) + 1, rng.randrange(1, 6)])
            near = rng.random() < 0.6
            d = [j(), j(), 0] if near else [rng.randrange(w), rng.randrange(h), 0]
            cases.append({"kind": "torus", "w": w, "h": h, "s": [j() + rng.choice([0, w - 1, w]), j(), j()], "d": d,
                          "den": den_of(rng), "seed": seed, "nobfs": True})
        elif kind == "mesh_far":
            cases.append({"kind": "mesh", "s": [j(), B + j(), j()], "d": [B2 + j(), j(), B + j()],
                          "den": den_of(rng), "seed": seed, "nobfs": True, "radius": 0})
        elif kind == "mesh_near":
            cases.append({"kind": "mesh", "s": [B + j(), B2 + j(), B], "d": [B + j(), B2 + j(), B + j()],
                          "den": den_of(rng), "seed": seed, "nobfs": True, "radius": 0})
        elif kind == "ldf":
            cases.append({"kind": "ldf", "v": [j(), j(), j()], "start": [B + j(), B2 + j()],
                          "w": rng.choice([None, 3, abs(B) + 1]), "h": rng.choice([None, 2, abs(B2) + 2]),
                          "den": den_of(rng), "seed": seed})
        elif kind == "minimise":
            cases.append({"kind": "minimise", "v": [B + j(), B2 + j(), rng.choice([B, B2, 0]) + j()]})
        else:
            cases.append({"kind": "hexagons", "r": rng.randrange(0, 4), "start": [B + j(), B2 + j()]})
    return cases


def gen_scale(ctx):
    """a handful of cases far beyond the usual size: thin tori thousands of chips long, walks of thousands
    of hops, distant mesh pairs, large radii"""
    rng = ctx.rng
    cases = []
    N = rng.randrange(1000, 6000)
    for (w, h) in [(1, N), (N, 1), (2, N + 1), (N + 2, 2), (3, 2 * N + 1), (N, N + 7)]:
        for _ in range(2):
            a = (rng.randrange(w), rng.randrange(h))
            b = rng.choice([(rng.randrange(w), rng.randrange(h)), ((a[0] + w // 2) % w, (a[1] + h // 2) % h),
                            ((a[0] + (w - 1) // 2) % w, (a[1] + (h + 1) // 2) % h)])
            cases.append({"kind": "torus", "w": w, "h": h, "s": rep(rng, a, w, h), "d": rep(rng, b, w, h),
                          "den": den_of(rng), "seed": rng.randrange(1 << 30), "nobfs": True})
    for _ in range(2):
        cases.append({"kind": "mesh", "s": rep(rng, (0, 0)), "d": rep(rng, (rng.randrange(-N, N), rng.randrange(-N, N))),
                      "den": den_of(rng), "seed": rng.randrange(1 << 30), "nobfs": True, "radius": 0})
        cases.append({"kind": "ldf", "v": [rng.randrange(-N, N), rng.choice([0, N, -N]), rng.randrange(-N, N)],
                      "start": [rng.randrange(9), rng.randrange(9)], "w": rng.choice([None, 1, 2, 65537]),
                      "h": rng.choice([None, 1, 257, N]), "den": den_of(rng), "seed": rng.randrange(1 << 30)})
    cases.append({"kind": "hexagons", "r": rng.randrange(30, 45), "start": [rng.randrange(-9, 10), 3]})
    cases.append({"kind": "hexagons", "r": rng.randrange(120, 160), "start": [0, 0], "model_only": True})
    for c in cases:
        c["scale"] = True
    return cases


def gen_malformed(ctx, n):
    rng = ctx.rng
    cases = []
    for _ in range(n):
        w, h = rng.choice([(0, 3), (3, 0), (0, 0), (-3, 4), (4, -2), (-1, -1), (-5, -5)])
        cases.append({"kind": "torus", "w": w, "h": h, "s": [rng.randrange(-6, 7) for _ in range(3)],
                      "d": [rng.randrange(-6, 7) for _ in range(3)], "den": den_of(rng), "seed": rng.randrange(1 << 30)})
    return cases


def corpus_cases():
    """minimised past failures and hand-picked seeds, run first"""
    out = []
    d = os.path.join(os.path.dirname(os.path.dirname(os.path.abspath(__file__))), "corpus", "C11")
    for f in sorted(glob.glob(os.path.join(d, "*.json"))):
        j = json.load(open(f))
        out += j.get("cases", []) + ([j["case"]] if "case" in j else [])
    return out


def run(ctx):
    ctx.extra["rule"] = RULE
    eval_cases(ctx, corpus_cases())
    ctx.assumptions += [
        "coordinates, widths and heights are Python ints; width, height >= 1",
        "random.random() returns a value of [0, 1) and key + random() is computed without rounding across an integer "
        "(the recorder supplies exactly representable fractions); random.randint(a, b) returns a value of [a, b]",
        "CPython: min(seq, key=) returns the first minimal element; sorted(reverse=True) is stable"]
    rng = ctx.rng
    small = [(w, h) for w in range(1, 6) for h in range(1, 6)]
    if ctx.quick:
        sizes = small + [(rng.randrange(1, 13), rng.randrange(1, 13)) for _ in range(10)] + \
            [(1, rng.randrange(6, 14)), (rng.randrange(6, 14), 1), (2, rng.randrange(6, 14)),
             (rng.randrange(6, 14), 2), (16, 16)]
        mult = 4 if ctx.extended else 1
        cases = gen_misc(ctx, 300 * mult, 300 * mult, list(range(-1, 9)))
        cases += gen_torus(ctx, sizes, 45 * mult)
        cases += gen_torus(ctx, small + [(7, 9), (12, 3)], 8 * mult, kind="torus_real")
        cases += gen_mesh(ctx, 6 * mult, 120, 7)
        cases += gen_ldf(ctx, 500 * mult)
        cases += gen_malformed(ctx, 60)
        cases += gen_hex_history(ctx, 400 * mult, 7)
        cases += gen_call_history(ctx, 500 * mult)
        cases += gen_big(ctx, 300 * mult)
        cases += gen_scale(ctx)
        cases += gen_float_edge(ctx, [(3, 3), (4, 4), (2, 5), (5, 2), (1, 4), (6, 3)])
    else:
        allsizes = [(w, h) for w in range(1, 17) for h in range(1, 17)]
        cases = gen_misc(ctx, 5000, 5000, list(range(-1, 31)))
        # every source / destination pair on every torus up to 6 x 6
        cases += gen_torus(ctx, [(w, h) for w in range(1, 7) for h in range(1, 7)], 0, all_sources=True)
        # every (w, h) <= 16: two sources, every destination
        cases += gen_torus(ctx, allsizes, 256)
        cases += gen_torus(ctx, allsizes, 40, kind="torus_real")
        cases += gen_mesh(ctx, 40, 400, 12)
        cases += gen_ldf(ctx, 20000)
        cases += gen_malformed(ctx, 500)
        cases += gen_hex_history(ctx, 6000, 12)
        cases += gen_call_history(ctx, 8000)
        cases += gen_big(ctx, 6000)
        for _ in range(4):
            cases += gen_scale(ctx)
        cases += gen_float_edge(ctx, [(w, h) for w in range(1, 7) for h in range(1, 7)])
        ctx.exhaustive = True
    decorate(ctx.rng, cases)
    for i in range(0, len(cases), 4000):
        eval_cases(ctx, cases[i:i + 4000])


def replay(ctx, payload):
    ctx.extra["rule"] = RULE
    eval_cases(ctx, [payload["case"]])
THEOREMS += ['gen_links_opposite', 'gen_links_from_vector']   # translator tie: generated function bodies = model (Props/C11Gen.lean)
THEOREMS += ['gen_links_to_vector', 'gen_links_to_vector_neg', 'gen_mesh_path', 'gen_concentric_hexagons']   # translator tie, second round (Props/C11Gen.lean)
THEOREMS += ['gen_machine_contains_chip', 'gen_machine_contains_link']   # translator tie, fourth round (Props/C11Gen.lean)
