"""Scripted lossy network + fake clock for the real SCPConnection.

Installed by replacing the module attributes `socket`, `select` and `time`
of rig.machine_control.scp_connection (attributes of a module object - no
source change).  Time is an integer number of ticks, handed to the code as an
integer-valued float, so every float operation the code performs is exact.

The network is driven by a *script*: for the k-th datagram the code sends,
`script(k, request)` returns a list of (delay_ticks, kind) replies where kind
is "ok", ("rc", code) or "lost" - an empty list means the request or its reply
was lost.  Requests that are not lost are executed by `machine(request_bytes)
-> reply_bytes` at send time.  Nothing here is trusted: the log it records is
replayed through the Lean model and the Lean specification.
"""
import struct


class BlockingIO(BlockingIOError):
    pass


class Runaway(BaseException):
    """the code under test keeps sending / polling far beyond any proved bound (BaseException so that no
    `except Exception` inside it swallows the stop)"""


class Net(object):
    def __init__(self, machine, script, clock_jitter=None):
        self.limit_events = None  # set by a harness: stop a run-away loop after this many log events
        self.now = 0
        self.machine = machine
        self.script = script
        self.jitter = clock_jitter or (lambda: 0)
        self.queue = []          # [arrival, order, id, bytes, meta]
        self.order = 0
        self.n_sent = 0
        self.next_id = 0
        self.log = []            # ("t", v) | ("select", readable) | ("recv", id|None) | ("send", k, bytes, now)
        self.dgram = {}          # id -> dict(rc, seq, origin_send, bytes)
        self.recv_lengths = []
        self.closed = False

    # -- clock ---------------------------------------------------------------
    def time(self):
        if self.limit_events is not None and len(self.log) > self.limit_events:
            raise Runaway("more than %d socket/clock events" % self.limit_events)
        self.now += self.jitter()
        self.log.append(("t", self.now))
        return float(self.now)

    def sleep(self, s):
        self.now += int(s)

    # -- socket --------------------------------------------------------------
    def new_sid(self):
        """a socket of its own (its own UDP port): replies are delivered only to the socket that sent the request -
        two connections on one simulated machine must not see each other's datagrams (a stale reply of controller
        A's abandoned burst would otherwise complete controller B's command with the same sequence number, which
        real sockets cannot do)"""
        self.n_sockets = getattr(self, "n_sockets", 0) + 1
        return self.n_sockets

    def send(self, data, sid=None):
        data = bytes(data)
        k = self.n_sent
        self.n_sent += 1
        self.log.append(("send", k, data, self.now))
        replies = self.script(k, data)
        if replies is None:
            replies = [(1, "ok")]
        executed = None
        for delay, kind in replies:
            if kind == "lost":
                continue
            if executed is None:
                executed = self.machine(data)
            reply = executed
            if isinstance(kind, tuple) and kind[0] == "rc":
                # error reply: same header, return code replaced, no payload
                reply = reply[:10] + struct.pack("<H", kind[1]) + reply[12:14]
            did = self.next_id
            self.next_id += 1
            rc, seq = struct.unpack_from("<2H", reply, 10)
            self.dgram[did] = dict(rc=rc, seq=seq, origin_send=k, bytes=reply)
            self.queue.append([self.now + max(int(delay), 0), self.order, did, reply, sid])
            self.order += 1
        return len(data)

    @staticmethod
    def _for(q, sids):
        """is the queued datagram q addressed to one of the sockets `sids`?  (None: entries queued by a harness
        without an owner, or a caller that does not say which socket it is, see everything - the single-socket case)"""
        owner = q[4] if len(q) > 4 else None
        return sids is None or owner is None or owner in sids

    def readable(self, sids=None):
        return any(q[0] <= self.now and self._for(q, sids) for q in self.queue)

    def select(self, r, w, x, timeout=None):
        if self.limit_events is not None and len(self.log) > self.limit_events:
            raise Runaway("more than %d socket/clock events" % self.limit_events)
        if timeout is not None and timeout < 0:
            raise ValueError("timeout must be non-negative")        # what select.select does
        sids = set(getattr(sk, "sid", None) for sk in r)
        if not sids or None in sids:
            sids = None
        if self.readable(sids):
            self.log.append(("select", True))
            return (list(r), [], [])
        target = self.now + (int(timeout) if timeout is not None else 10 ** 6)
        if float(int(timeout or 0)) != float(timeout or 0):
            target += 1   # a fractional timeout: wake up at the next tick
        arrivals = [q[0] for q in self.queue if self._for(q, sids)]
        if arrivals and min(arrivals) <= target:
            self.now = max(self.now, min(arrivals))
            self.log.append(("select", True))
            return (list(r), [], [])
        # nothing arrives: the call takes at least one tick
        self.now = max(target, self.now + 1)
        self.log.append(("select", False))
        return ([], [], [])

    def recv(self, n, sid=None):
        self.recv_lengths.append(n)
        ready = sorted((q for q in self.queue if q[0] <= self.now and self._for(q, None if sid is None else (sid,))),
                       key=lambda q: q[:3])
        if not ready:
            self.log.append(("recv", None))
            raise BlockingIO()
        q = ready[0]
        self.queue.remove(q)
        self.log.append(("recv", q[2]))
        return q[3][:n]


class FakeSocket(object):
    def __init__(self, net):
        self.net = net
        self.sid = net.new_sid()

    def connect(self, addr):
        self.addr = addr

    def setblocking(self, flag):
        pass

    def settimeout(self, t):
        pass

    def send(self, data):
        return self.net.send(data, self.sid)

    def recv(self, n):
        return self.net.recv(n, self.sid)

    def close(self):
        self.net.closed = True


class FakeSocketModule(object):
    AF_INET = 2
    SOCK_DGRAM = 2

    def __init__(self, net):
        self.net = net

    def socket(self, *a):
        return FakeSocket(self.net)


class FakeSelectModule(object):
    def __init__(self, net):
        self.net = net

    def select(self, r, w, x, timeout=None):
        return self.net.select(r, w, x, timeout)


class FakeTimeModule(object):
    def __init__(self, net):
        self.net = net

    def time(self):
        return self.net.time()

    def sleep(self, s):
        self.net.sleep(s)


class installed(object):
    """Context manager: patch rig.machine_control.scp_connection to use `net`."""

    def __init__(self, net):
        self.net = net

    def __enter__(self):
        from rig.machine_control import scp_connection as sc
        self.sc = sc
        self.saved = (sc.socket, sc.select, sc.time)
        sc.socket = FakeSocketModule(self.net)
        sc.select = FakeSelectModule(self.net)
        sc.time = FakeTimeModule(self.net)
        return self.net

    def __exit__(self, *a):
        self.sc.socket, self.sc.select, self.sc.time = self.saved


def parse_scp(data):
    """(x, y, p, cmd, seq, arg1, arg2, arg3, payload) of a request datagram"""
    (_, _, dcp, _, dy, dx, _, _) = struct.unpack_from("<8B", data, 2)
    cmd, seq = struct.unpack_from("<2H", data, 10)
    args = list(struct.unpack_from("<3I", data, 14)) if len(data) >= 26 else [None] * 3
    return dict(x=dx, y=dy, p=dcp & 31, cmd=cmd, seq=seq, arg1=args[0], arg2=args[1], arg3=args[2],
                data=data[26:])


def make_reply(request, rc=0x80, args=(), data=b""):
    """An SCP reply datagram to `request` (header swapped as SC&MP does)."""
    (flags, tag, dcp, scp_, dy, dx, sy, sx) = struct.unpack_from("<8B", request, 2)
    _, seq = struct.unpack_from("<2H", request, 10)
    hdr = struct.pack("<2x8B", 0x07, tag, scp_, dcp, sy, sx, dy, dx)
    body = struct.pack("<2H", rc, seq) + b"".join(struct.pack("<I", a) for a in args) + bytes(data)
    return hdr + body
