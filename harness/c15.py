"""C15 - SDP/SCP packets: correspondence of rig/machine_control/packets.py with
the Lean model RigModel/Model/C15.lean, and the Lean layout specification run
as oracle on the implementation's own bytes."""
import struct

CLAIM = dict(
    text=("Machine-checked proof (Lean 4) over ALL packets: byte layout theorem for SDP and SCP, decode(encode p) = p for "
          "every in-range field value and 0-3 prefix arguments, argument-count rule and byte conservation for every "
          "byte string and n_args, field isolation. Tied to rig/machine_control/packets.py by exact byte/field "
          "correspondence on thousands of generated packets and byte strings per run, with the Lean layout "
          "specification evaluated on the implementation's bytes."),
    design="3/C15",
    note="struct.pack/unpack modelled (B/H/I range checks, little endian). Flag constants regenerated from source.",
    technique="Lean 4 theorems over a hand-written model + differential correspondence + Lean spec as oracle")
CLAIM["note"] += (" Twin groups (packets equal in every field but one, exact repeats, a share of them on the constructors' default "
                  "source port 7 / core 31 / chip (0, 0) and default destination) are DECODED from the documented layout and, since "
                  "the third session, also ENCODED by the implementation in one process: each must give exactly the Lean layout of "
                  "its own fields (nothing remembered from a packet that differs in one field).")

THEOREMS = ["flags_documented", "sdp_layout", "scp_layout", "sdp_decode_encode",
            "scp_decode_encode", "arg_rule", "tag_isolated", "sdp_reject_wide_tag"]

RULE = ("packets drawn field-by-field over the full width of every field (edge values 0, max, "
        "random), 0-3 arguments present as a prefix plus a malformed stream (fields beyond "
        "their width, argument gaps) and random byte strings of length 0-60 decoded with "
        "n_args 0-4; a case is non-trivial when it is in range with >= 1 argument or a "
        "decode whose payload ends inside the argument words; constructors called by keyword, positionally in the "
        "documented order, with IntEnum members for the integers and bytearray payloads; decoders given bytes, "
        "bytearray or memoryview; one encode in five re-uses ONE packet object "
        "(built and encoded with other values, then every field assigned, then encoded again); all encodes run in "
        "one process, failed encodes included; plus twin groups: 3-8 packets equal in every field but one (and exact "
        "repeats), the documented layout of each decoded by the implementation one after the other; distinct = distinct canonical JSON")

SDP_FIELDS = ["tag", "dest_port", "dest_cpu", "src_port", "src_cpu", "dest_x", "dest_y", "src_x", "src_y"]
WIDTH = {"tag": 256, "dest_port": 8, "dest_cpu": 32, "src_port": 8, "src_cpu": 32,
         "dest_x": 256, "dest_y": 256, "src_x": 256, "src_y": 256}


def edge(rng, bound):
    r = rng.random()
    if r < 0.15:
        return 0
    if r < 0.3:
        return bound - 1
    if r < 0.5:
        # around every power of two below the bound (sign bits of narrower / signed encodings, byte boundaries)
        v = (1 << rng.randrange(1, max(2, bound.bit_length()))) + rng.choice([-1, 0, 0, 1])
        return min(max(v, 0), bound - 1)
    return rng.randrange(bound)


def gen_packet(rng, malformed):
    p = {"reply": rng.random() < 0.5}
    for f in SDP_FIELDS:
        p[f] = edge(rng, WIDTH[f])
    p["data"] = [rng.randrange(256) for _ in range(rng.choice([0, 0, 1, 2, 3, 4, 5, 7, 8, 11, 12, 13, 40]))]
    k = rng.randrange(4)
    p["cmd_rc"] = edge(rng, 65536)
    p["seq"] = edge(rng, 65536)
    args = [edge(rng, 2 ** 32) for _ in range(k)] + [None] * (3 - k)
    p["arg1"], p["arg2"], p["arg3"] = args
    if malformed:
        what = rng.choice(["wide", "gap", "wideport", "widearg"])
        if what == "wide":
            f = rng.choice(["tag", "dest_x", "dest_y", "src_x", "src_y"])
            p[f] = 256 + rng.randrange(1000)
        elif what == "wideport":
            f = rng.choice(["dest_port", "dest_cpu", "src_port", "src_cpu"])
            p[f] = WIDTH[f] + rng.randrange(300)
        elif what == "widearg":
            f = rng.choice(["cmd_rc", "seq", "arg1"])
            p[f] = (65536 if f != "arg1" else 2 ** 32) + rng.randrange(5)
        else:
            p["arg1"], p["arg2"] = None, rng.randrange(2 ** 32)
    return p


def fields_in_range(p):
    """every field within its width (the documented layout is defined: present arguments in order)"""
    if any(p[f] >= WIDTH[f] for f in SDP_FIELDS):
        return False
    if p["cmd_rc"] >= 65536 or p["seq"] >= 65536:
        return False
    return not any(x is not None and x >= 2 ** 32 for x in (p["arg1"], p["arg2"], p["arg3"]))


def in_range(p):
    """... and the present arguments are a prefix of (arg1, arg2, arg3): decoding can give the packet back"""
    present = [p[a] is not None for a in ("arg1", "arg2", "arg3")]
    return fields_in_range(p) and present == sorted(present, reverse=True)


def impl_encode(kind, p, reuse_from=None, how=None):
    from rig.machine_control import packets
    if reuse_from is not None:
        # ONE packet object: built and encoded with other field values first, then every field is
        # assigned and it is encoded again - the bytes must be the layout of the fields it has NOW
        q = reuse_from
        try:
            kw = dict(reply_expected=q["reply"], tag=q["tag"], dest_port=q["dest_port"], dest_cpu=q["dest_cpu"],
                      src_port=q["src_port"], src_cpu=q["src_cpu"], dest_x=q["dest_x"], dest_y=q["dest_y"],
                      src_x=q["src_x"], src_y=q["src_y"], data=bytes(q["data"]))
            if kind == "scp":
                kw.update(cmd_rc=q["cmd_rc"], seq=q["seq"], arg1=q["arg1"], arg2=q["arg2"], arg3=q["arg3"])
            pk = (packets.SDPPacket if kind == "sdp" else packets.SCPPacket)(**kw)
            try:
                pk.bytestring
            except struct.error:
                pass
            for k, v in p.items():
                if kind == "sdp" and k in ("cmd_rc", "seq", "arg1", "arg2", "arg3"):
                    continue
                setattr(pk, "reply_expected" if k == "reply" else k, bytes(v) if k == "data" else v)
            return {"ok": list(pk.bytestring)}
        except struct.error:
            return {"err": "struct.error"}
        except Exception as e:
            return {"err": type(e).__name__}
    kw = dict(reply_expected=p["reply"], tag=p["tag"], dest_port=p["dest_port"],
              dest_cpu=p["dest_cpu"], src_port=p["src_port"], src_cpu=p["src_cpu"],
              dest_x=p["dest_x"], dest_y=p["dest_y"], src_x=p["src_x"], src_y=p["src_y"],
              data=bytes(p["data"]))
    if how == "enum":
        # integers arrive as IntEnum members (commands, return codes and ports are enums in rig), the
        # payload as a bytearray
        import enum
        kw = {k: (enum.IntEnum("E", {"v": v})["v"] if isinstance(v, int) and not isinstance(v, bool) and v >= 0 else v)
              for k, v in kw.items()}
        kw["data"] = bytearray(p["data"])
    try:
        if kind == "sdp":
            if how == "pos":
                return {"ok": list(packets.SDPPacket(*[kw[k] for k in SDP_ORDER]).bytestring)}
            return {"ok": list(packets.SDPPacket(**kw).bytestring)}
        scp = dict(cmd_rc=p["cmd_rc"], seq=p["seq"], arg1=p["arg1"], arg2=p["arg2"], arg3=p["arg3"])
        if how == "enum":
            import enum
            scp = {k: (enum.IntEnum("E", {"v": v})["v"] if isinstance(v, int) and v >= 0 else v) for k, v in scp.items()}
        kw.update(scp)
        if how == "pos":
            return {"ok": list(packets.SCPPacket(*[kw[k] for k in SCP_ORDER]).bytestring)}
        return {"ok": list(packets.SCPPacket(**kw).bytestring)}
    except struct.error:
        return {"err": "struct.error"}
    except Exception as e:
        return {"err": type(e).__name__}


# the documented (public) parameter order of the two constructors
SDP_ORDER = ["reply_expected", "tag", "dest_port", "dest_cpu", "src_port", "src_cpu",
             "dest_x", "dest_y", "src_x", "src_y", "data"]
SCP_ORDER = SDP_ORDER[:-1] + ["cmd_rc", "seq", "arg1", "arg2", "arg3", "data"]


def pkt_fields(pk, scp):
    d = {"reply": bool(pk.reply_expected), "tag": pk.tag, "dest_port": pk.dest_port,
         "dest_cpu": pk.dest_cpu, "src_port": pk.src_port, "src_cpu": pk.src_cpu,
         "dest_x": pk.dest_x, "dest_y": pk.dest_y, "src_x": pk.src_x, "src_y": pk.src_y,
         "data": list(pk.data)}
    if scp:
        d.update(cmd_rc=pk.cmd_rc, seq=pk.seq, arg1=pk.arg1, arg2=pk.arg2, arg3=pk.arg3)
    return d


def impl_decode(kind, bs, n_args, buf=None):
    from rig.machine_control import packets
    raw = {"bytearray": bytearray, "memoryview": lambda b: memoryview(bytes(b))}.get(buf, bytes)(bs)
    try:
        if kind == "sdp":
            return {"ok": pkt_fields(packets.SDPPacket.from_bytestring(raw), False)}
        return {"ok": pkt_fields(packets.SCPPacket.from_bytestring(raw, n_args), True)}
    except struct.error:
        return {"err": "struct.error"}
    except Exception as e:      # anything else is not a documented outcome: named, then judged like any result
        return {"err": type(e).__name__}


def eval_cases(ctx, cases):
    """cases: list of dicts {kind: enc|dec, proto: sdp|scp, ...}."""
    reqs, idx = [], []
    failed = None
    for c in cases:
        if c["kind"] == "enc":
            if failed is not None and "after_failed_encode" not in c:
                # all encodes run in one process: an encode that raised comes before this one (kept for the replay)
                c["after_failed_encode"] = failed
            c["impl"] = impl_encode(c["proto"], c["pkt"], c.get("reuse_from"), c.get("how"))
            failed = {"proto": c["proto"], "pkt": c["pkt"]} if "err" in c["impl"] else None
            reqs.append(dict(c["pkt"], suite="c15", op="enc_" + c["proto"]))
            idx.append((c, "model"))
            if fields_in_range(c["pkt"]):
                reqs.append(dict(c["pkt"], suite="c15", op="layout_" + c["proto"]))
                idx.append((c, "layout"))
        else:
            c["impl"] = impl_decode(c["proto"], c["bytes"], c["n_args"], c.get("buf"))
            reqs.append({"suite": "c15", "op": "dec_" + c["proto"], "bytes": c["bytes"], "n_args": c["n_args"]})
            idx.append((c, "model"))
    for (c, what), r in zip(idx, ctx.lean(reqs)):
        c[what] = r
    for c in cases:
        desc = {k: c[k] for k in c if k not in ("impl", "model", "layout")}
        if c["impl"] != c["model"]:
            ctx.mismatch("c15." + c["kind"] + "_" + c["proto"],
                         "impl=%r model=%r" % (c["impl"], c["model"]), desc)
        ctx.traces += 1
        nontriv = False
        if c["kind"] == "enc":
            p = c["pkt"]
            ok = in_range(p)
            gap = fields_in_range(p) and not ok
            ctx.tag("enc_%s_%s" % (c["proto"], "inrange" if ok else "argument_gap" if gap else "malformed"))
            if gap and (c["proto"] == "sdp" or c["impl"].get("ok") != c["layout"]):
                # present arguments that are not a prefix: the layout is still documented (the present arguments,
                # in order); only the round trip is not claimed.  (An SDP packet has no arguments: never a gap.)
                if c["proto"] == "scp":
                    ctx.violation("layout-scp", "encoded bytes differ from the documented layout (present arguments in "
                                  "order): impl=%r spec=%r" % (c["impl"], c["layout"]), desc)
            if ok:
                nontriv = c["proto"] == "scp" and p["arg1"] is not None
                # oracle 1: documented layout (Lean spec) == implementation bytes
                if c["impl"].get("ok") != c["layout"]:
                    ctx.violation("layout-%s" % c["proto"],
                                  "encoded bytes differ from the documented layout: impl=%r spec=%r" % (c["impl"], c["layout"]), desc)
                else:
                    # oracle 2: round trip on the implementation itself
                    n = sum(1 for a in ("arg1", "arg2", "arg3") if p[a] is not None)
                    back = impl_decode(c["proto"], c["impl"]["ok"], n)
                    want = {k: v for k, v in p.items() if c["proto"] == "scp" or k in SDP_FIELDS + ["reply", "data"]}
                    if back.get("ok") != want:
                        ctx.violation("roundtrip-%s" % c["proto"],
                                      "decode(encode(p)) != p: got %r" % (back,), desc)
        else:
            ctx.tag("dec_%s_%s" % (c["proto"], "ok" if "ok" in c["impl"] else "short"))
            if "err" in c["impl"] and "ok" in c["model"] and len(c["bytes"]) >= (14 if c["proto"] == "scp" else 10):
                # a byte string that holds the whole header is the encoding of a packet: decoding takes the
                # arguments the data contains and leaves the rest as payload - it cannot be refused
                ctx.violation("decode-rejected", "decoding %d bytes with n_args=%d raised %s; the rule gives %r" % (
                    len(c["bytes"]), c["n_args"], c["impl"]["err"], c["model"]["ok"]), desc)
            if c["proto"] == "scp" and "ok" in c["impl"]:
                f = c["impl"]["ok"]
                bs = c["bytes"]
                ln = len(bs) - 14
                n = sum(1 for a in ("arg1", "arg2", "arg3") if f[a] is not None)
                want_n = min(c["n_args"], ln // 4, 3)
                nontriv = 0 < ln < 12 and ln % 4 != 0
                repack = []
                for a in ("arg1", "arg2", "arg3"):
                    if f[a] is not None:
                        repack += list(struct.pack("<I", f[a]))
                if n != want_n or repack + f["data"] != bs[14:]:
                    ctx.violation("arg-rule", "decoded %d args (want %d) or bytes lost: %r" % (n, want_n, f), desc)
        ctx.case(desc, nontriv)


def gen_cases(ctx, n):
    rng = ctx.rng
    cases = []
    for i in range(n):
        r = rng.random()
        if r < 0.55:
            cases.append({"kind": "enc", "proto": rng.choice(["sdp", "scp", "scp"]),
                          "pkt": gen_packet(rng, rng.random() < 0.15)})
            if rng.random() < 0.2:
                cases[-1]["reuse_from"] = gen_packet(rng, rng.random() < 0.15)
            elif rng.random() < 0.35:
                cases[-1]["how"] = rng.choice(["pos", "enum"])
        else:
            ln = rng.choice([0, 5, 9, 10, 13, 14, 15, 17, 18, 21, 22, 25, 26, 27, 30, 60])
            bs = [rng.randrange(256) for _ in range(ln)]
            if rng.random() < 0.5:
                # structured: a full header, then 0-3 argument words with edge values (0, 1, max, random) and a
                # payload that may end inside the next word
                bs = [rng.randrange(256) for _ in range(14)]
                for _ in range(rng.randrange(4)):
                    bs += list(struct.pack("<I", rng.choice([0, 0, 1, 0xffffffff, 0x80000000, rng.randrange(1 << 32)])))
                bs += [rng.choice([0, rng.randrange(256)]) for _ in range(rng.choice([0, 0, 1, 2, 3, 4, 7]))]
            cases.append({"kind": "dec", "proto": rng.choice(["sdp", "scp", "scp"]),
                          "bytes": bs,
                          "n_args": rng.randrange(5)})
            if rng.random() < 0.3:
                cases[-1]["buf"] = rng.choice(["bytearray", "memoryview"])
    return cases


def twin_groups(ctx, n):
    """groups of packets that are equal in every field but one; the documented layout of each (Lean spec)
    is decoded by the implementation, all in this one process: decode(layout(p)) must be p"""
    rng = ctx.rng
    groups = []
    for _ in range(n):
        proto = rng.choice(["sdp", "scp", "scp"])
        base = gen_packet(rng, False)
        r = rng.random()
        if r < 0.3:
            # what the host actually sends: the constructors' default source (port 7, core 31), often chip (0, 0)
            base.update(src_port=7, src_cpu=31)
            if rng.random() < 0.5:
                base.update(src_x=0, src_y=0)
        elif r < 0.45:
            # what a monitor core answers: default-looking destination, any source
            base.update(dest_port=7, dest_cpu=31, dest_x=0, dest_y=0)
        fields = SDP_FIELDS + ["reply", "data"] + (["cmd_rc", "seq", "arg1", "arg2", "arg3"] if proto == "scp" else [])
        group = [base]
        for f in rng.sample(fields, rng.randrange(2, 6)):
            q = dict(group[rng.randrange(len(group))])
            if f == "reply":
                q[f] = not q[f]
            elif f == "data":
                q[f] = [rng.randrange(256) for _ in range(rng.choice([0, 1, 4, 9]))]
            elif f in WIDTH:
                q[f] = (q[f] + rng.randrange(1, WIDTH[f])) % WIDTH[f]
            elif f in ("cmd_rc", "seq"):
                q[f] = (q[f] + rng.randrange(1, 65536)) % 65536
            elif q[f] is not None:
                q[f] = (q[f] + rng.randrange(1, 2 ** 32)) % 2 ** 32
            else:
                continue
            group.append(q)
        if rng.random() < 0.5:
            group += [dict(g) for g in rng.sample(group, min(2, len(group)))]      # exact repeats too
        groups.append({"proto": proto, "twins": group})
    return groups


def eval_twins(ctx, groups):
    reqs, idx = [], []
    for g in groups:
        for q in g["twins"]:
            reqs.append(dict(q, suite="c15", op="layout_" + g["proto"]))
    lay = ctx.lean(reqs)
    i = 0
    for g in groups:
        scp = g["proto"] == "scp"
        bad = bad_enc = None
        for q in g["twins"]:
            bs = lay[i]
            i += 1
            n = sum(1 for a in ("arg1", "arg2", "arg3") if q[a] is not None) if scp else 0
            back = impl_decode(g["proto"], bs, n)
            want = {k: v for k, v in q.items() if scp or k in SDP_FIELDS + ["reply", "data"]}
            ctx.traces += 1
            if back.get("ok") != want and bad is None:
                bad = (q, back)
            # ... and ENCODED by the implementation in the same process, after its twins: the bytes must be the
            # documented layout of THIS packet (nothing remembered from a packet that differs in one field)
            enc = impl_encode(g["proto"], q)
            if enc.get("ok") != bs and bad_enc is None and isinstance(bs, list):
                bad_enc = (q, enc, bs)
        ctx.tag("twin_group_" + g["proto"])
        ctx.case(g, True)
        if bad_enc is not None:
            ctx.violation("layout-%s" % g["proto"],
                          "encoding %r (after encoding packets equal to it in all fields but one, in the same process) "
                          "gave %r, the documented layout is %r" % bad_enc, g)
        if bad is not None:
            ctx.violation("decode-of-layout-%s" % g["proto"],
                          "decoding the documented layout of %r (after decoding packets equal to it in all fields "
                          "but one, in the same process) gave %r" % bad, g)


def exhaustive_portcpu(ctx):
    """every value of the port/cpu byte, both directions (thorough)"""
    cases = []
    for b in range(256):
        p = gen_packet(ctx.rng, False)
        p["dest_port"], p["dest_cpu"] = b >> 5, b & 31
        p["src_port"], p["src_cpu"] = (255 - b) >> 5, (255 - b) & 31
        cases.append({"kind": "enc", "proto": "scp", "pkt": p})
    return cases


def run(ctx):
    ctx.extra["rule"] = RULE
    ctx.assumptions += ["struct.pack/unpack behave as documented by CPython",
                        "round trip is claimed for in-range fields with arguments present as a prefix"]
    n = ctx.scale(5000, 200000)
    if ctx.extended:
        n *= 4
    cases = gen_cases(ctx, n)
    if not ctx.quick:
        cases += exhaustive_portcpu(ctx)
    for i in range(0, len(cases), 20000):
        eval_cases(ctx, cases[i:i + 20000])
    eval_twins(ctx, twin_groups(ctx, ctx.scale(600, 20000) * (4 if ctx.extended else 1)))


def replay(ctx, payload):
    ctx.extra["rule"] = RULE
    case = payload["case"]
    if "twins" in case:
        return eval_twins(ctx, [case])
    if case.get("after_failed_encode"):
        impl_encode(case["after_failed_encode"]["proto"], case["after_failed_encode"]["pkt"])
    eval_cases(ctx, [case])
THEOREMS += ['gen_sdp_packed_data', 'gen_sdp_bytestring', 'gen_scp_packed_data', 'gen_scp_bytestring', 'gen_unpack_sdp', 'gen_sdp_from_bytestring', 'gen_scp_from_bytestring']   # translator tie: generated function bodies = model (Props/C15Gen.lean)
