"""C07 - remote memory reads/writes are byte exact.  The real MachineController
+ SCPConnection run against the simulated machine behind the scripted lossy
network; the request stream is compared with the Lean chunking model
(RigModel/Model/C07.lean) and the property (bytes returned / stored, nothing
else touched, command size and access-type rule) is checked on what the
implementation actually did."""
import os
import random
import re
import struct

from harness import simnet, simmachine

CLAIM = dict(
    text=("Machine-checked proof (Lean 4) for ALL addresses, lengths, buffer sizes >= 1 (>= 4 for links): the read/write/"
          "link chunk lists partition the requested range into consecutive non-empty commands no larger than the buffer, "
          "the access type is word/half-word only when address and length are so aligned (table regenerated from source "
          "and proved equal to the hardware rule), reassembling the replies of the read chunks in ANY completion order "
          "and multiplicity yields exactly the stored bytes, applying the write chunks in ANY order with duplicates yields "
          "exactly memory[addr := data] and changes no other byte, fill is exact. Tied to the code by exact request-stream "
          "correspondence through the real SCPConnection under loss/duplication/delay/retryable-error schedules and "
          "windows 1-8, with returned bytes and final simulated memory checked byte for byte. "
          "Struct and per-core field accessors (read/write_struct_field, read/write_vcpu_struct_field) are modelled "
          "as functions from the struct table PARSED BY THE MODEL PARSER (C20Parse; for rig/boot/sark.struct the "
          "kernel-checked sark_parsed, bytes regenerated each run) to those read/write requests, and proved for ALL "
          "tables, fields, values, cores, buffer sizes: a write leaves exactly the packed little-endian value at "
          "[base+offset, +size) and changes no other byte in any command order (struct_write_exact), a read returns "
          "the values packed in exactly those bytes (struct_read_exact, struct_write_then_read), the per-core "
          "address is sv.vcpu_base (as stored in the machine) + size_of(vcpu)*p + offset for every core p "
          "(vcpu_field_address, _total), and in a well-formed layout distinct fields - and distinct cores' blocks - "
          "never share a byte so writing one field never changes another (field_isolated, vcpu_field_isolated); "
          "well-formedness of the parsed sark.struct is a kernel-checked obligation (sark_layout_ok). The harness's "
          "struct/vcpu stream is judged by this model through the driver: address, command list, packed bytes in "
          "final memory, value returned."),
    design="3/C07",
    note=("Machine memory semantics (read/write/fill/link commands) is a Lean specification, simulated in Python. "
          "The fault-schedule clause is proved as the composition theorems read_through_burst / write_through_burst "
          "(Props/C06: for every environment and window, a burst that ends `done` assembles exactly the stored bytes / "
          "leaves exactly memory[addr := data]) and tied to the code here by running the real read/write under fault "
          "scripts against the Lean models readThrough / memAfter; the receive-length corner for unusual buffer sizes "
          "is checked by the truncating simulated socket. Struct accessors: struct.pack/unpack is modelled for the "
          "format units the struct-file parser can produce (optional count + one of s b B H I); the array branch "
          "of the per-core accessors (`__PAD[4]`, 'pragma: no cover' in the source) is modelled as the code is (ONE "
          "element) and cross-checked for its address/size only; the independent Python parse of sark.struct is kept "
          "as a cross-check of the model's table (every field, every struct-file variant, each run); the UTF-8 "
          "decode of string fields is outside the model (ASCII in the generated cases)."),
    technique="Lean 4 theorems over chunking/memory model + request-trace correspondence against a simulated machine")
CLAIM["note"] += (" POLLING SESSIONS (third session): one controller, one chip, the same (address, length) read again and again while "
                  "writes / fills change the memory under it and longer reads of other ranges come in between; every read is judged "
                  "byte for byte against the simulated memory as it is at that call (a receive buffer or prepared request list kept "
                  "by the connection from one read to the next must never show through).")

THEOREMS = ["dtype_table_is_hardware_rule", "dtype_sound", "read_partition", "write_partition",
            "read_exact_any_order", "write_exact_any_order", "link_read_partition", "link_write_partition",
            "fill_exact"]

RULE = ("cases = (operation in read/write/fill/link read/link write/struct field/vcpu field, chip, core, address of every "
        "alignment, length 0 .. 5 buffers +- 3, buffer size in {4,5,6,7,8,12,16,64,66,128,130,250,255,256,260,384,508,512}, window 1-8, network fault "
        "script); non-trivial = more than one command was needed or a datagram was lost/duplicated/delayed; distinct = "
        "distinct canonical JSON of the case; plus sessions = 2-5 such operations through ONE controller on different "
        "chips, some preceded by a software-version query to an application core that reports another buffer size, "
        "some with the struct definitions replaced mid-session (what boot() does) followed by accesses to fields "
        "touched before the swap, some issued alternately by two controllers on the same machine; write payloads are "
        "bytes, bytearray or memoryview; plus absolute-size cases = every operation with a length of 1-3 x 2**k +- a few "
        "bytes for k in {8,10,12,15,16,17}, aligned and ragged (whatever the buffer size: block sizes, counters or caches "
        "inside an implementation show only there); plus transfers of more commands than the (shrunk) sequence space with "
        "1-3 (often neighbouring) replies arriving late but before their timeout, i.e. still outstanding at the wrap")

BUFS = [4, 8, 12, 16, 64, 128, 256, 256, 256, 260, 384, 508, 512, 5, 6, 7, 66, 130, 250, 255]


def gen_script(rng, n, timeout):
    p_bad = rng.choice([0.0, 0.0, 0.1, 0.3])
    script = {}
    for k in range(1, n):
        if rng.random() < p_bad:
            kind = rng.choice(["lost", "late", "dup", "retry", "duplate"])
            if kind == "lost":
                script[str(k)] = []
            elif kind == "late":
                script[str(k)] = [[timeout * rng.randrange(1, 3) + rng.randrange(3), "ok"]]
            elif kind == "dup":
                script[str(k)] = [[rng.randrange(3), "ok"], [rng.randrange(4), "ok"]]
            elif kind == "duplate":
                script[str(k)] = [[rng.randrange(3), "ok"], [timeout * rng.randrange(1, 4), "ok"]]
            else:
                script[str(k)] = [[rng.randrange(3), ["rc", rng.choice([0x82, 0x8d])]], [rng.randrange(6), "ok"]]
        elif rng.random() < 0.5:
            script[str(k)] = [[rng.randrange(4), "ok"]]
    return script


def gen_case(rng, struct_fields):
    buf = rng.choice(BUFS) if rng.random() < 0.6 else rng.randrange(4, 600)     # every size, not only a list
    op = rng.choice(["read", "read", "write", "write", "fill", "link_read", "link_write", "struct", "vcpu"])
    align = rng.randrange(4)
    base = rng.choice([0x60000000, 0x70000000, 0x00400000, 0xf5000000]) + 4 * rng.randrange(1000)
    ln = max(0, rng.choice([0, 1, 2, 3, 4, 5, 7, buf - 1, buf, buf + 1, 2 * buf, 2 * buf + rng.randrange(4),
                            3 * buf - rng.randrange(4), 5 * buf + rng.randrange(-3, 4)]))
    if rng.random() < 0.01:
        ln = rng.choice([64, 257, 300]) * buf + rng.randrange(4)      # a few transfers of hundreds of commands
    if rng.random() < 0.03:
        # ends of the address space; the whole range stays below 2**32 for every alignment offset (0..3)
        base = rng.choice([(1 << 32) - ln - 4 - rng.randrange(8), 0, 1, 0x7fffffff - ln // 2])
        base = max(0, base) & ~3
    c = {"op": op, "buf": buf, "window": rng.choice([1, 1, 2, 3, 8]), "x": rng.randrange(2), "y": rng.randrange(2),
         "p": rng.randrange(18), "addr": base + align, "len": ln, "timeout": 4}
    if op in ("write", "link_write"):
        c["data"] = [rng.randrange(256) for _ in range(ln)]
        if rng.random() < 0.3:
            c["buf_kind"] = rng.choice(["bytearray", "memoryview"])
    if op in ("link_read", "link_write"):
        c["link"] = rng.randrange(6)
        if rng.random() < 0.8:
            c["addr"] = base
            c["len"] = ln // 4 * 4
            if "data" in c:
                c["data"] = c["data"][:c["len"]]
    if op == "fill":
        c["fill"] = rng.choice([0, 0xab, 0xff, 0x12345678, 0xffffffff]) if rng.random() < 0.5 else rng.randrange(256)
        if rng.random() < 0.5:
            c["addr"] = base
            c["len"] = ln // 4 * 4
        elif c["fill"] > 255:
            c["fill"] &= 0xff
    if op in ("struct", "vcpu"):
        s = "vcpu" if op == "vcpu" else rng.choice(["sv", "sv", "vcpu"]) if False else ("vcpu" if op == "vcpu" else "sv")
        # vcpu.__PAD[4] is padding, not a variable: the per-core accessors do not support it
        # (the array branch is marked "pragma: no cover" in the source) - outside the domain
        names = sorted(n for n in struct_fields[s] if not (s == "vcpu" and n == "__PAD"))
        c["field"] = rng.choice(names)
        c["rw"] = rng.choice(["r", "w"])
        c["seed"] = rng.randrange(1 << 30)
    if rng.random() < 0.02 and c["len"] > 0 and op not in ("struct", "vcpu"):
        c["addr"] = (1 << 32) - c["len"]        # the range ends with the very last byte of the address space
    n_cmds = (ln // max(buf & ~3, 1) + 3) * 5
    c["script"] = gen_script(rng, n_cmds, 4)
    return c


def gen_threshold_cases(rng, rounds):
    """transfers whose length sits around absolute sizes (powers of two and small multiples of them, far more
    than one buffer) whatever the buffer size: block sizes, counters and caches that an implementation might
    introduce show at such sizes only.  Every operation, aligned and ragged, no network faults."""
    out = []
    for _ in range(rounds):
        for op in ("read", "write", "fill", "link_read", "link_write"):
            for k in (8, 10, 12, 15, 16, 17):
                for ragged in (False, True):
                    m = rng.choice([1, 1, 2, 3]) if k < 17 else 1
                    ln = m * (1 << k) + (rng.choice([-7, -4, -3, -1, 1, 2, 4, 5, 10]) if rng.random() < 0.8 else 0)
                    buf = rng.choice([256, 256, 255, 128, 512, 300]) if k >= 12 else rng.choice(BUFS)
                    base = rng.choice([0x60000000, 0x70000000, 0x00400000]) + 4 * rng.randrange(1000)
                    c = {"op": op, "buf": buf, "window": rng.choice([1, 2, 3, 8]), "x": rng.randrange(2),
                         "y": rng.randrange(2), "p": rng.randrange(18), "addr": base, "len": ln, "timeout": 4,
                         "script": {}, "threshold": k}
                    if op in ("link_read", "link_write"):
                        c["link"] = rng.randrange(6)
                        c["len"] = ln = ln // 4 * 4
                    elif ragged:
                        c["addr"] = base + rng.randrange(1, 4)
                    else:
                        c["len"] = ln = (ln // 4 * 4) if op == "fill" else ln
                    if op in ("write", "link_write"):
                        c["data"] = [rng.randrange(256) for _ in range(ln)]
                    if op == "fill":
                        c["fill"] = rng.randrange(256) if (c["addr"] % 4 or ln % 4 or rng.random() < 0.5) else rng.randrange(1 << 32)
                    out.append(c)
    return out


def struct_text(repo, variant=0):
    """the text of rig's sark.struct; variant k > 0: the same definitions with the system-variable block
    at another base address (what booting with another struct file gives)"""
    text = open(os.path.join(repo, "rig", "boot", "sark.struct"), "rb").read().decode()
    if variant:
        new = re.sub(r"(name\s*=\s*sv\b.*?base\s*=\s*)(\S+)",
                     lambda m: m.group(1) + "%#x" % (int(m.group(2), 0) - 0x100 * variant), text, count=1, flags=re.S)
        assert new != text
        text = new
    return text


def independent_struct_table(repo, variant=0):
    """{struct: {"base":, "size":, fields: {name: (offset, perl_pack, count)}}} parsed independently of rig"""
    out, cur = {}, None
    for line in struct_text(repo, variant).splitlines():
        line = line.split("#")[0].strip()
        if not line:
            continue
        m = re.match(r"(name|size|base)\s*=\s*(\S+)$", line)
        if m:
            if m.group(1) == "name":
                cur = out.setdefault(m.group(2), {"fields": {}})
            else:
                cur[m.group(1)] = int(m.group(2), 0)
            continue
        tok = line.split()
        if len(tok) == 5:
            name, cnt = tok[0], 1
            mm = re.match(r"(\w+)\[(\d+)\]$", name)
            if mm:
                name, cnt = mm.group(1), int(mm.group(2))
            cur["fields"][name] = (int(tok[2], 0), tok[1], cnt)
    return out


PERL_SIZE = {"c": 1, "C": 1, "v": 2, "V": 4}


def field_size(pack, cnt):
    m = re.match(r"([A-Za-z])(\d+)$", pack)
    if m:
        return int(m.group(2))           # "A16" on name[16]: one 16-byte string
    return PERL_SIZE[pack] * cnt


_HANGS = [0]


def canon_value(v):
    """what an accessor returned, in the shape of the Lean model's `RVal` (Model/C07Struct.lean)"""
    def val(u):
        return {"b": list(u)} if isinstance(u, (bytes, bytearray)) else u
    if isinstance(v, str):
        return {"text": list(v.encode("utf-8"))}
    if isinstance(v, (tuple, list)):
        return {"tuple": [val(u) for u in v]}
    return {"one": val(v)}


_TEXT_HEX = {}


def struct_model_req(case, res, variant):
    """the request that makes the Lean model (over the table its own parser reads from the struct file) work out
    the same access: address, size, the read / write commands, the packed bytes resp. the value returned"""
    from harness import common
    r = {"suite": "c07struct", "buf": case["buf"], "field": case["field"], "mem": res.get("mem_segs", [])}
    if variant:
        if variant not in _TEXT_HEX:
            _TEXT_HEX[variant] = struct_text(common.REPO, variant).encode().hex()
        r["text"] = _TEXT_HEX[variant]
    if case["op"] == "struct":
        r["struct"] = "sv"
        r["op"] = "struct_read" if case["rw"] == "r" else "struct_write"
    else:
        r["p"] = case["p"]
        r["op"] = "vcpu_read" if case["rw"] == "r" else "vcpu_write"
    if case["rw"] == "w":
        r["value"] = res["value"]
    return r


def run_impl(case, table, env=None):
    from rig.machine_control import scp_connection as sc
    script = case["script"]

    def scr(k, data):
        return [(d, tuple(kd) if isinstance(kd, list) else kd) for d, kd in script.get(str(k), [[1, "ok"]])]

    if env is not None and "machine" in env:
        machine, net = env["machine"], env["net"]      # a session: several operations on one controller
    else:
        machine = simmachine.SimMachine(2, 2, buffer_size=case["buf"])
        net = simnet.Net(machine.handle, scr)
        if env is not None:
            env["machine"], env["net"] = machine, net
    log_start = len(net.log)
    res = {}
    before = {}
    # every chip keeps its per-core blocks at its own address
    vcpu_base = 0xe5007000 + 0x1000 * (2 * case["x"] + case["y"])
    if case["op"] == "vcpu":
        voff = table["sv"]["fields"]["vcpu_base"][0]
        machine.poke(case["x"], case["y"], table["sv"]["base"] + voff, struct.pack("<I", vcpu_base))
        off, pack, cnt = table["vcpu"]["fields"][case["field"]]
        if pack not in PERL_SIZE:
            # a string field holds text (the code decodes it as UTF-8)
            r0 = random.Random(case["seed"] ^ 0x5bd1)
            txt = bytes(r0.choice(b"abcdefXYZ_0189") for _ in range(r0.randrange(0, field_size(pack, cnt) + 1)))
            machine.poke(case["x"], case["y"], vcpu_base + table["vcpu"]["size"] * case["p"] + off,
                         txt.ljust(field_size(pack, cnt), b"\x00"))
    before = {k: dict(v) for k, v in machine.mem.items()}
    with simnet.installed(net):
        mck = "mc%d" % case.get("ctl", 0)       # a session may use two controllers on the same machine
        if env is not None and mck in env:
            mc = env[mck]
        else:
            mc = simmachine.make_controller(net, timeout=float(case["timeout"]))
            if env is not None:
                env[mck] = mc
        mc._window_size = case["window"]
        x, y, p = case["x"], case["y"], case["p"]
        op = case["op"]
        from harness import common
        limit = common.cpu_limit(20 if _HANGS[0] < 4 else 2)     # a transfer takes milliseconds
        limit.__enter__()
        try:
            if op == "sver":
                # an application core is asked for its software version (its SARK may report another
                # buffer size than SC&MP does); says nothing about the machine's transfer buffer
                machine.app_buffer_size = case["app_buf"]
                mc.get_software_version(x, y, max(1, p))
            elif op == "restruct":
                # what MachineController.boot(...) does with the struct definitions of the booted image
                from rig.machine_control import struct_file
                from harness import common
                mc.structs = struct_file.read_struct_file(struct_text(common.REPO, case["variant"]).encode())
                env["table"] = independent_struct_table(common.REPO, case["variant"])
                env["variant"] = case["variant"]
            buf = mc.scp_data_length            # one SVER request (send index 0)
            n_before = len(machine.requests)
            before = {k: dict(v) for k, v in machine.mem.items()}
            if op == "read":
                want = machine.peek(x, y, case["addr"], case["len"])
                got = mc.read(case["addr"], case["len"], x, y, p)
                res.update(want=list(want), got=list(got))
            elif op == "write":
                payload = {"bytearray": bytearray, "memoryview": lambda b: memoryview(bytes(b))}.get(
                    case.get("buf_kind"), bytes)(case["data"])
                mc.write(case["addr"], payload, x, y, p)
                if bytes(payload) != bytes(case["data"]):
                    res["payload_modified"] = True
                res["expect_mem"] = {(x, y): (case["addr"], case["data"])}
            elif op == "fill":
                mc.fill(case["addr"], case["fill"], case["len"], x, y, p)
                if case["addr"] % 4 or case["len"] % 4:
                    pat = [case["fill"]] * case["len"]
                else:
                    pat = list(struct.pack("<I", case["fill"]) * (case["len"] // 4))
                res["expect_mem"] = {(x, y): (case["addr"], pat)}
            elif op == "link_read":
                nx, ny = machine.neighbour(x, y, case["link"])
                want = machine.peek(nx, ny, case["addr"], case["len"])
                got = mc.read_across_link(case["addr"], case["len"], x, y, case["link"])
                res.update(want=list(want), got=list(got))
            elif op == "link_write":
                nx, ny = machine.neighbour(x, y, case["link"])
                payload = {"bytearray": bytearray, "memoryview": lambda b: memoryview(bytes(b))}.get(
                    case.get("buf_kind"), bytes)(case["data"])
                mc.write_across_link(case["addr"], payload, x, y, case["link"])
                if bytes(payload) != bytes(case["data"]):
                    res["payload_modified"] = True
                res["expect_mem"] = {(nx, ny): (case["addr"], case["data"])}
            elif op in ("struct", "vcpu"):
                sname = "sv" if op == "struct" else "vcpu"
                off, pack, cnt = table[sname]["fields"][case["field"]]
                size = field_size(pack, cnt)
                r = random.Random(case["seed"])
                if op == "struct":
                    address = table["sv"]["base"] + off
                else:
                    voff, _, _ = table["sv"]["fields"]["vcpu_base"]
                    vbase = struct.unpack("<I", machine.peek(x, y, table["sv"]["base"] + voff, 4))[0]
                    address = vbase + table["vcpu"]["size"] * p + off
                res["address"] = address
                res["py_size"] = size
                # what the machine holds where the Lean model (run afterwards, over the PARSED table) will look:
                # the system-variable block and this core's block, as they are before the access
                res["mem_segs"] = [[table["sv"]["base"], list(machine.peek(x, y, table["sv"]["base"], table["sv"]["size"]))]]
                if op == "vcpu":
                    blk = vbase + table["vcpu"]["size"] * p
                    res["mem_segs"].append([blk, list(machine.peek(x, y, blk, table["vcpu"]["size"]))])
                if case["rw"] == "r":
                    want = machine.peek(x, y, address, size)
                    if op == "struct":
                        v = mc.read_struct_field("sv", case["field"], x, y, p)
                        res["value_got"] = canon_value(v)
                        packed = struct.pack("<" + {"c": "b", "C": "B", "v": "H", "V": "I"}[pack] * cnt,
                                             *(v if cnt > 1 else [v]))
                        res.update(want=list(want), got=list(packed))
                    else:
                        v = mc.read_vcpu_struct_field(case["field"], x, y, p)
                        res["value_got"] = canon_value(v)
                        if isinstance(v, str):
                            got = want      # strings are stripped/decoded: only the requests are compared
                            res["string"] = True
                        else:
                            got = struct.pack("<" + {"c": "b", "C": "B", "v": "H", "V": "I"}[pack], v)
                        res.update(want=list(want), got=list(got))
                else:
                    if pack in PERL_SIZE:
                        lo, hi = (-(1 << 7), (1 << 7) - 1) if pack == "c" else (0, (1 << (8 * PERL_SIZE[pack])) - 1)
                        vals = [r.randint(lo, hi) for _ in range(cnt)]
                        data = struct.pack("<" + {"c": "b", "C": "B", "v": "H", "V": "I"}[pack] * cnt, *vals)
                        value = vals if cnt > 1 else vals[0]
                    else:
                        value = "".join(r.choice("abcXYZ") for _ in range(
                            r.choice([0, 1, size - 1, size, size, r.randrange(0, size + 1)])))     # incl. exactly the field width
                        data = value.encode().ljust(size, b"\x00")
                    res["value"] = ({"b": list(value.encode())} if isinstance(value, str) else value)
                    if op == "struct":
                        mc.write_struct_field("sv", case["field"], value, x, y, p)
                    else:
                        mc.write_vcpu_struct_field(case["field"], value, x, y, p)
                    res["expect_mem"] = {(x, y): (address, list(data))}
            res["ok"] = True
        except sc.TimeoutError:
            res["error"] = "Timeout"
        except sc.FatalReturnCodeError as e:
            res["error"] = "Fatal %s" % (e.return_code,)
        except ValueError as e:
            res["error"] = "ValueError"
        except struct.error:
            res["error"] = "struct.error"
        except common.ImplHang as e:
            _HANGS[0] += 1
            res["error"] = "DidNotReturn (%s)" % e
        finally:
            limit.__exit__()
    # distinct data commands in first-transmission order (seq identifies a command)
    seen, cmds = set(), []
    for e in net.log[log_start:]:
        if e[0] == "send":
            q = simnet.parse_scp(e[2])
            if q["cmd"] in (2, 3, 5, 17, 18) and q["seq"] not in seen:
                seen.add(q["seq"])
                cmds.append(q)
    res["cmds"] = cmds
    res["mem_before"] = before
    res["mem_after"] = machine.mem
    res["recv_lengths"] = sorted(set(net.recv_lengths))
    res["faults"] = any(v != [[1, "ok"]] and not (len(v) == 1 and v[0][1] == "ok" and v[0][0] < case["timeout"])
                        for v in script.values())
    return res


def model_req(case, res, table):
    op = case["op"]
    b = {"suite": "c07", "buf": case["buf"], "addr": case["addr"]}
    if op == "read":
        return dict(b, op="read", len=case["len"])
    if op == "write":
        return dict(b, op="write", data=case["data"])
    if op == "fill":
        return dict(b, op="fill", data=case["fill"], size=case["len"])
    if op == "link_read":
        return dict(b, op="link_read", len=case["len"])
    if op == "link_write":
        return dict(b, op="link_write", data=case["data"])
    return None


def cmds_as_chunks(cmds):
    out = []
    for q in cmds:
        if q["cmd"] in (2, 3):
            out.append([q["arg1"], q["arg2"], q["arg3"], list(q["data"])])
        elif q["cmd"] in (17, 18):
            out.append([q["arg1"], q["arg2"], 2, list(q["data"])])
    return out


def judge_struct_cases(ctx, sreqs, smeta):
    """struct / per-core accesses against the Lean model `structRead` / `structWrite` / `vcpuRead` / `vcpuWrite`
    (theorems struct_write_exact, struct_read_exact, vcpu_field_address, field_isolated in Props/C07Struct.lean)"""
    for (case, res), r in zip(smeta, ctx.lean(sreqs) if sreqs else []):
        impl_err = res.get("error")
        got = cmds_as_chunks(res["cmds"])
        if impl_err == "Timeout" and not res["cmds"]:
            continue
        if "err" in r:
            # the generated cases name existing fields and give values in range: the model accepts them all
            ctx.mismatch("c07struct." + case["op"], "model raises %s, implementation: %r" % (r["err"], impl_err), case)
            continue
        ctx.tag("struct_model_judged")
        # cross-check of the model against the independent Python parse of the struct file
        if (r["addr"], r["size"]) != (res["address"], res["py_size"]):
            ctx.mismatch("c07struct.crosscheck", "field %s: Lean model says %#x+%d, the independent parse %#x+%d" % (
                case["field"], r["addr"], r["size"], res["address"], res["py_size"]), case)
            continue
        want = r["cmds"]
        if impl_err in ("Timeout",):
            if got != want[:len(got)]:
                ctx.mismatch("c07struct." + case["op"], "command prefix differs: model=%r impl=%r" % (want[:3], got[:3]), case)
            continue
        if impl_err is not None:
            continue                    # already reported (unexpected-error)
        n_base = 1 if case["op"] == "vcpu" else 0      # buffer >= 4: the vcpu_base word is one command
        field_cmds = got[n_base:]
        first = field_cmds[0] if field_cmds else None
        if first is None or first[0] != r["addr"]:
            ctx.violation("struct-address", "field %s accessed at %#x, the struct file (parsed by the model) says %#x" % (
                case["field"], first[0] if first else -1, r["addr"]), case)
            continue
        if got != want:
            i = next((i for i, (a, b) in enumerate(zip(got, want)) if a != b), min(len(got), len(want)))
            ctx.mismatch("c07struct." + case["op"], "command %d differs: model=%r impl=%r (counts %d/%d)" % (
                i, want[i:i + 1], got[i:i + 1], len(want), len(got)), case)
        if case["rw"] == "r":
            if res.get("value_got") != r["value"]:
                ctx.violation("read-not-exact", "field %s: the accessor returned %r, the bytes at %#x hold %r" % (
                    case["field"], res.get("value_got"), r["addr"], r["value"]), case)
        else:
            now = res["field_after"]        # the bytes at [address, address + size) right after the access
            if now != r["data"]:
                ctx.violation("write-not-exact", "field %s: memory at %#x holds %r, the value packs to %r" % (
                    case["field"], r["addr"], now[:8], r["data"][:8]), case)


def eval_cases(ctx, cases, table, env=None):
    reqs, meta = [], []
    sreqs, smeta = [], []
    table0 = table
    for case in cases:
        table = (env or {}).get("table", table0)     # a session may have swapped the struct definitions
        res = run_impl(case, table, env)
        desc = case
        ctx.traces += 1
        ctx.tag("op_" + case["op"], "result_" + (res.get("error") or "ok"))
        multi = len(res["cmds"]) > 1
        ctx.case(desc, multi or res["faults"])
        if res["faults"]:
            ctx.tag("with_network_faults")
        # ---- property oracle on what the implementation did -------------------
        x, y = case["x"], case["y"]
        for q in res["cmds"]:
            if q["cmd"] in (2, 3):
                a, n, t = q["arg1"], q["arg2"], q["arg3"]
                if n > case["buf"]:
                    ctx.violation("command-exceeds-buffer", "a command moves %d bytes, buffer is %d" % (n, case["buf"]), desc)
                if (t == 2 and (a % 4 or n % 4)) or (t == 1 and (a % 2 or n % 2)) or t not in (0, 1, 2):
                    ctx.violation("misaligned-access-type", "access type %d for address %#x length %d" % (t, a, n), desc)
                if q["cmd"] == 3 and len(q["data"]) != n:
                    ctx.violation("write-length-mismatch", "announced %d bytes, carries %d" % (n, len(q["data"])), desc)
            elif q["cmd"] in (17, 18) and q["arg2"] > case["buf"]:
                ctx.violation("command-exceeds-buffer", "a link command moves %d bytes, buffer is %d" % (q["arg2"], case["buf"]), desc)
        if res.get("payload_modified"):
            ctx.tag("caller_buffer_modified_by_write")      # not in the property text: recorded only
        err = res.get("error")
        if err in ("Timeout",) and res["faults"]:
            ctx.tag("gave_up_after_retries")
        elif err == "ValueError" and case["op"] in ("link_read", "link_write") and (case["addr"] % 4 or case["len"] % 4):
            ctx.tag("link_misaligned_rejected")
        elif err == "struct.error" and case["op"] == "fill" and case["fill"] > 255:
            ctx.tag("fill_byte_out_of_range")
        elif err:
            ctx.violation("unexpected-error", "operation raised %s (receive lengths used: %r)" % (err, res["recv_lengths"]), desc)
        if "got" in res and res["got"] != res["want"]:
            ctx.violation("read-not-exact", "read returned %r..., memory holds %r..." % (res["got"][:8], res["want"][:8]), desc)
        # memory: nothing outside the target range may change; inside must equal the data (if completed)
        expect = res.get("expect_mem", {})
        after, before = res["mem_after"], res["mem_before"]
        for chip in set(after) | set(before):
            am, bm = after.get(chip, {}), before.get(chip, {})
            tgt = expect.get(chip)
            for a in set(am) | set(bm):
                if am.get(a) != bm.get(a):
                    if case["op"] in ("read", "link_read") or tgt is None or not (tgt[0] <= a < tgt[0] + len(tgt[1])):
                        ctx.violation("stray-write", "byte at %#x of chip %r changed (target %r)" % (
                            a, chip, None if tgt is None else (tgt[0], len(tgt[1]))), desc)
                        break
        if res.get("ok"):
            for chip, (addr, data) in expect.items():
                got = [after.get(chip, {}).get(addr + i, None) for i in range(len(data))]
                # a byte never written keeps its default value: compare against simulated peek
                got = [simmachine.default_byte(chip[0], chip[1], addr + i) if g is None else g for i, g in enumerate(got)]
                if got != list(data):
                    ctx.violation("write-not-exact", "memory at %#x holds %r..., wanted %r..." % (addr, got[:8], list(data)[:8]), desc)
        # ---- model correspondence -----------------------------------------------
        mr = model_req(case, res, table)
        if mr is not None:
            reqs.append(mr)
            meta.append((case, res))
        elif "address" in res and ("value" in res or case.get("rw") == "r"):
            # struct / vcpu field: judged by the Lean model over the PARSED table (below); the independent
            # Python parse (res["address"], res["py_size"]) stays as a cross-check of the model
            sreqs.append(struct_model_req(case, res, (env or {}).get("variant", 0)))
            chip_mem = after.get((x, y), {})
            res["field_after"] = [chip_mem[a] if a in chip_mem else simmachine.default_byte(x, y, a)
                                  for a in range(res["address"], res["address"] + res["py_size"])]
            smeta.append((case, res))
    judge_struct_cases(ctx, sreqs, smeta)
    for (case, res), r in zip(meta, ctx.lean(reqs)):
        impl_err = res.get("error")
        got = cmds_as_chunks(res["cmds"])
        if impl_err == "Timeout" and not res["cmds"]:
            continue        # the buffer-size query itself timed out: the operation never started
        if "err" in r:
            if impl_err != r["err"]:
                ctx.mismatch("c07." + case["op"], "model raises %s, implementation: %r" % (r["err"], impl_err), case)
            continue
        if "fill" in r:
            want_cmds = [q for q in res["cmds"] if q["cmd"] == 5]
            if len(want_cmds) != 1 or [want_cmds[0]["arg1"], want_cmds[0]["arg2"], want_cmds[0]["arg3"]] != r["fill"]:
                ctx.mismatch("c07.fill", "model sends fill %r, implementation sent %r" % (r["fill"], res["cmds"]), case)
            continue
        want = r.get("ok", r.get("writes", r)) if isinstance(r, dict) else r
        if impl_err in ("Timeout",):
            if got != want[:len(got)]:
                ctx.mismatch("c07." + case["op"], "command prefix differs: model=%r impl=%r" % (want[:3], got[:3]), case)
        elif impl_err is None and got != want:
            i = next((i for i, (a, b) in enumerate(zip(got, want)) if a != b), min(len(got), len(want)))
            ctx.mismatch("c07." + case["op"], "command %d differs: model=%r impl=%r (counts %d/%d)" % (
                i, want[i:i + 1], got[i:i + 1], len(want), len(got)), case)


def check_struct_tables(ctx):
    """the table the Lean model works on (its own parse of the struct file's bytes) against the independent Python
    parse, for EVERY field of both structs and every struct-file variant the sessions use; and the decided
    hypothesis of the isolation / per-core address theorems (`tableOKB`) on each of these tables"""
    from harness import common
    for variant in range(4):
        tab = independent_struct_table(common.REPO, variant)
        extra = {"text": struct_text(common.REPO, variant).encode().hex()} if variant else {}
        vb = 0xe5007000
        segs = [[tab["sv"]["base"] + tab["sv"]["fields"]["vcpu_base"][0], list(struct.pack("<I", vb))]]
        reqs = [dict(extra, suite="c07struct", op="layout")]
        keys = []
        for sname in ("sv", "vcpu"):
            for fname, (off, pack, cnt) in sorted(tab[sname]["fields"].items()):
                if sname == "sv":
                    reqs.append(dict(extra, suite="c07struct", op="struct_read", buf=256, struct="sv", field=fname, mem=segs))
                    keys.append((fname, tab["sv"]["base"] + off, field_size(pack, cnt)))
                else:
                    p = (off + cnt) % 18
                    # the per-core accessors use ONE element of an array field (`__PAD[4]`: 4 bytes)
                    size = field_size(pack, 1) if pack in PERL_SIZE else field_size(pack, cnt)
                    reqs.append(dict(extra, suite="c07struct", op="vcpu_read", buf=256, field=fname, p=p, mem=segs))
                    keys.append((fname, vb + tab["vcpu"]["size"] * p + off, size))
        out = ctx.lean(reqs)
        lay = out[0]
        if not lay.get("ok") or (variant == 0 and not lay.get("same")):
            ctx.mismatch("c07struct.layout", "the struct table (variant %d) is not what the theorems assume: %r" % (variant, lay),
                         {"variant": variant})
        for (fname, addr, size), r in zip(keys, out[1:]):
            if (r.get("addr"), r.get("size")) != (addr, size):
                ctx.mismatch("c07struct.crosscheck", "variant %d field %s: Lean model %r+%r, independent parse %#x+%d" % (
                    variant, fname, r.get("addr"), r.get("size"), addr, size), {"variant": variant, "field": fname})
        ctx.tag("struct_table_crosschecked")


def run(ctx):
    from harness import common
    ctx.extra["rule"] = RULE
    ctx.assumptions += ["buffer size >= 4 (link transfers need one whole word); sizes that are not multiples of 4 are included",
                        "simulated machine memory semantics = Lean execWrite/execFill/readMem"]
    table = independent_struct_table(common.REPO)
    check_struct_tables(ctx)
    n = ctx.scale(1500, 40000)
    if ctx.extended:
        n *= 4
    cases = [gen_case(ctx.rng, {k: v["fields"] for k, v in table.items()}) for _ in range(n)]
    for i in range(0, len(cases), 2000):
        eval_cases(ctx, cases[i:i + 2000], table)
    # absolute sizes (2**8 .. 2**17 and small multiples, +- a few bytes) for every operation
    th = gen_threshold_cases(ctx.rng, ctx.scale(1, 6) * (3 if ctx.extended else 1))
    for c in th:
        ctx.tag("threshold_2^%d_%s" % (c["threshold"], c["op"]))
    for i in range(0, len(th), 20):
        eval_cases(ctx, th[i:i + 20], table)
    # sessions: several operations through ONE controller (state kept by the controller between
    # operations - cached addresses, buffer sizes, sequence numbers - must not leak from one chip or
    # operation into the next); no network faults here, fresh chips each step
    fields = {k: v["fields"] for k, v in table.items()}
    for _ in range(ctx.scale(60, 1500) * (4 if ctx.extended else 1)):
        buf, window = ctx.rng.choice(BUFS), ctx.rng.choice([1, 2, 8])
        sess = []
        chips = [(0, 0), (0, 1), (1, 0), (1, 1)]
        ctx.rng.shuffle(chips)
        pre = ctx.rng.choice(["", "", "sver", "restruct", "restruct", "sverfail"])
        two_ctl = pre in ("", "sver") and ctx.rng.random() < 0.5
        n_steps = ctx.rng.randrange(2, 5) + (1 if pre else 0)
        swap_at = ctx.rng.randrange(1, n_steps - 1) if n_steps > 2 else 1
        for i in range(n_steps):
            c = gen_case(ctx.rng, fields)
            if pre == "restruct" and i < swap_at and ctx.rng.random() < 0.5:
                c["op"] = "struct"
                c["field"] = ctx.rng.choice(sorted(fields["sv"]))
                c["rw"] = ctx.rng.choice(["r", "w"])
                c["seed"] = ctx.rng.randrange(1 << 30)
            elif ctx.rng.random() < 0.6:
                c["op"] = "vcpu"
                c["field"] = ctx.rng.choice(sorted(n for n in fields["vcpu"] if n != "__PAD"))
                c["rw"] = ctx.rng.choice(["r", "w"])
                c["seed"] = ctx.rng.randrange(1 << 30)
            c.update(buf=buf, window=window, script={}, x=chips[i % 4][0], y=chips[i % 4][1], session_step=i)
            if "data" in c:
                c["data"] = c["data"][:c["len"]]
            if two_ctl:
                c["ctl"] = ctx.rng.randrange(2)
            if i == 0 and pre == "sverfail":
                # every try of the controller's first buffer-size query is lost (the call raises the timeout
                # error); the program keeps using the controller afterwards
                c["script"] = {str(k): [] for k in range(5)}
            elif i == 0 and pre == "sver":
                # before anything else: an application core reports ANOTHER buffer size in its sver reply
                c.update(op="sver", p=ctx.rng.randrange(1, 18), app_buf=ctx.rng.choice([2 * buf, buf + 4, max(4, buf // 2)]))
            elif i > 0 and pre == "restruct" and i == swap_at:
                c.update(op="restruct", variant=ctx.rng.randrange(1, 4))
            elif i > 0 and sess[-1]["op"] == "restruct" and ctx.rng.random() < 0.7:
                # after the swap: touch something that was touched before it
                prev = [h for h in sess if h["op"] in ("struct", "vcpu")]
                if prev:
                    h = ctx.rng.choice(prev)
                    c.update(op=h["op"], field=h["field"], rw=ctx.rng.choice(["r", "w"]), seed=ctx.rng.randrange(1 << 30))
                    if ctx.rng.random() < 0.5:
                        c.update(x=h["x"], y=h["y"], p=h["p"])
            # the replay of a step needs the steps before it
            c["session_history"] = [{k: v for k, v in h.items() if k != "session_history"} for h in sess]
            sess.append(c)
        ctx.tag("session")
        eval_cases(ctx, sess, table, env={})
    # polling sessions: ONE controller, ONE chip, the SAME (address, length) read again and again while the memory
    # under it changes and while longer and shorter reads of other ranges come in between (a receive buffer or a
    # prepared request list that the connection keeps from one read to the next must never show through)
    for _ in range(ctx.scale(40, 1000) * (4 if ctx.extended else 1)):
        rng = ctx.rng
        buf, window = rng.choice(BUFS), rng.choice([1, 2, 8])
        x, y, p = rng.randrange(2), rng.randrange(2), rng.randrange(18)
        base = rng.choice([0x60000000, 0x70000000]) + 4 * rng.randrange(1000) + rng.randrange(4)
        n0 = rng.choice([1, 3, 4, 8, buf - 1, buf, buf + 5, 2 * buf + 1])
        polled = [(base, n0), (base + rng.randrange(0, n0 + 1), rng.choice([1, 4, n0, n0 + 3]))]
        sess, longest = [], 0
        for i in range(rng.randrange(5, 10)):
            r = rng.random()
            if i in (0, 1):
                a, n = polled[i % 2]
                c = {"op": "read", "addr": a, "len": n}
            elif r < 0.45:
                a, n = rng.choice(polled)            # the same read again
                c = {"op": "read", "addr": a, "len": n}
            elif r < 0.7:
                # a read longer than every read so far (the connection has to enlarge whatever it keeps)
                n = longest + rng.choice([1, 4, buf, 2 * buf + 3])
                c = {"op": "read", "addr": base - rng.randrange(0, 8), "len": n}
            else:
                # the memory under the polled ranges changes
                a = base + rng.randrange(0, n0 + 1)
                n = rng.choice([1, 2, 4, n0, buf + 1])
                c = {"op": rng.choice(["write", "write", "fill"]), "addr": a, "len": n}
                if c["op"] == "write":
                    c["data"] = [rng.randrange(256) for _ in range(n)]
                else:
                    c["fill"] = rng.randrange(256)
            if c["op"] == "read":
                longest = max(longest, c["len"])
            c.update(buf=buf, window=window, script={}, x=x, y=y, p=p, timeout=4, session_step=i)
            c["session_history"] = [{k: v for k, v in h.items() if k != "session_history"} for h in sess]
            sess.append(c)
        ctx.tag("session-polling")
        eval_cases(ctx, sess, table, env={})
    # composition with C06 (theorems read_through_burst / write_through_burst in Props/C06): the real
    # SCPConnection.read/write under fault schedules vs the Lean models readThrough / memAfter fed with
    # the recorded environment.  Here a disagreement is verdict-bearing.
    from harness import c06
    ctx.rw_decides = True
    rw = [c06.gen_rw_case(ctx.rng) for _ in range(ctx.scale(200, 4000) * (4 if ctx.extended else 1))]
    # transfers of more commands than the (shrunk) sequence space with stragglers at the wrap
    rw += [c06.gen_rw_wrap_case(ctx.rng) for _ in range(ctx.scale(100, 2000) * (4 if ctx.extended else 1))]
    for i in range(0, len(rw), 500):
        c06.eval_rw_cases(ctx, rw[i:i + 500])


def replay(ctx, payload):
    from harness import common
    ctx.extra["rule"] = RULE
    if "session_history" in payload["case"]:
        case = payload["case"]
        eval_cases(ctx, case["session_history"] + [case], independent_struct_table(common.REPO), env={})
    elif "rw" in payload["case"] and "jitter" in payload["case"]:
        # (a through-burst case of the C06 composition stream; struct / per-core field cases also carry an "rw" key)
        from harness import c06
        ctx.rw_decides = True
        c06.eval_rw_cases(ctx, [payload["case"]])
    else:
        eval_cases(ctx, [payload["case"]], independent_struct_table(common.REPO))
THEOREMS += ['gen_read_packets', 'gen_write_packets', 'gen_write_across_link', 'gen_fill']   # translator tie: generated function bodies = model (Props/C07Gen.lean)
# struct / per-core field accessors over the PARSED struct table (Model/C07Struct.lean, Props/C07Struct.lean)
THEOREMS += ['struct_write_exact', 'struct_read_exact', 'struct_write_then_read', 'packItem_int', 'leBytes_getD',
             'unpackAll_packAll', 'vcpu_field_address', 'vcpu_field_address_total', 'layout_apart', 'field_isolated',
             'vcpu_field_isolated', 'sark_layout_ok', 'sark_field_isolated', 'sark_vcpu_field_address',
             'sark_vcpu_field_isolated']
