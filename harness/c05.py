"""C05 - greedy resource allocator: exact correspondence of
rig/place_and_route/allocate/greedy.py (+ allocate/utils.py, the two constraint
classes and Machine.__getitem__) with the Lean model RigModel/Model/C05.lean, and
the Lean specification `Valid` / `Feasible` evaluated on the implementation's own
allocations and exceptions (property oracle)."""
import glob
import json
import os
import re
import signal


class Hang(Exception):
    """the implementation used more CPU time than any terminating run could"""


def _on_vtalrm(signum, frame):
    raise Hang()


HANG_LIMIT_S = 5.0   # CPU seconds for ONE allocate() call on a problem with < 100 requests (normal: < 1 ms)

CLAIM = dict(
    text=("Machine-checked proof (Lean 4) over ALL machines (with per-chip exceptions), vertex sets, placements, "
          "vertex orders, demands (incl. 0), alignments >= 1 and lists of global/local reservations (overlapping, "
          "adjacent, empty, outside the range): every allocation the allocator model returns gives each placed "
          "vertex exactly one range per requested resource, of exactly the requested size, inside [0, capacity of "
          "its chip], starting on the alignment, overlapping no global reservation and no reservation of its chip, "
          "and disjoint from the ranges of every other vertex on that chip (and no vertex/resource pair gets two "
          "ranges); the only error on a documented-domain "
          "input is InsufficientResourceError (the proposal loop provably terminates); and with alignment 1 and "
          "reservations only at the two ends of the range a placement whose demand fits between them - in particular "
          "one that is feasible by the placers' own accounting (capacity minus reserved magnitudes) - always "
          "succeeds.  Tied to greedy.py by exact correspondence (allocations, error kind, failing resource and "
          "chip) on thousands of generated problems per run with the Lean predicate `Valid` run on every "
          "allocation the implementation returns."),
    design="3/C05",
    note=("Vertex order per chip = iteration order of the `placements` dict, passed to the model as a list; theorems "
          "hold for every order.  Domain (hypotheses of the theorems, applied to the generators): requirements >= 0, "
          "alignments >= 1, resources known to the machine, vertices on live chips."),
    technique="Lean 4 theorems over a hand-written model + differential correspondence + Lean spec as oracle")

THEOREMS = ["overlaps_iff_common", "alloc_sound", "alloc_sound_range", "alloc_unique", "alloc_only_failure",
            "alloc_complete", "alloc_complete_window", "alloc_complete_placer_budget"]
THEOREMS += ['gen_slices_overlap', 'gen_align']   # translator tie: generated function bodies = model (Props/C05Gen.lean)

RULE = ("machines 1-3 x 1-3 with 1-3 resources, per-chip exceptions and dead chips; 1-6 used chips, 0-12 vertices "
        "per chip placed in shuffled (interleaved) order, demands incl. 0 and absent resources; up to 6 global and "
        "6 local reservations per resource (prefix, suffix, interior, adjacent, nested/overlapping, empty, partly "
        "outside the range); alignments {1,2,3,4,8} incl. repeated align constraints; a stream built to satisfy "
        "the completeness hypothesis (no alignment, reservations at the ends, demand fits exactly or with slack) "
        "and a malformed stream (alignment 0, unknown resource, dead chip, vertex without resources, negative "
        "demand) compared with the model only.  Non-trivial: >= 2 ranges of one resource on one chip and either a "
        "gap forced by a reservation/alignment or an InsufficientResourceError raised with reservations present; "
        "distinct = distinct canonical JSON")


# ---------------------------------------------------------------- generators
def gen_reservations(rng, cap, n, ends_only):
    """n reservation slices for a range [0, cap)"""
    out = []
    for _ in range(n):
        k = rng.random()
        if ends_only:
            if k < 0.45:
                out.append((0, rng.randint(0, max(0, cap // 3))))
            elif k < 0.9:
                out.append((cap - rng.randint(0, max(0, cap // 3)), cap))
            else:
                a = rng.randint(0, cap)
                out.append((a, a))          # empty
            continue
        if k < 0.2:
            out.append((0, rng.randint(0, max(0, cap // 2))))
        elif k < 0.4:
            out.append((rng.randint(0, cap), cap))
        elif k < 0.55 and out:
            # adjacent to / nested in / overlapping an earlier one
            a, b = rng.choice(out)
            m = rng.random()
            if m < 0.4:
                out.append((b, b + rng.randint(0, 4)))
            elif m < 0.7:
                out.append((max(0, a - rng.randint(0, 3)), a))
            else:
                out.append((a + rng.randint(0, 2), b + rng.randint(-2, 3)))
        elif k < 0.62:
            a = rng.randint(0, cap)
            out.append((a, a))              # empty
        elif k < 0.66:
            a = rng.randint(0, cap)
            out.append((a, a - rng.randint(1, 3)))   # reversed = empty
        elif k < 0.70:
            out.append((-rng.randint(1, 3), rng.randint(0, 3)))  # partly below 0
        elif k < 0.74:
            out.append((cap - rng.randint(0, 3), cap + rng.randint(1, 4)))  # partly above
        else:
            a = rng.randint(0, cap)
            out.append((a, min(cap + 1, a + rng.randint(1, max(1, cap // 4)))))
    return out


def gen_case(rng, mode):
    """mode: 'general' | 'ends' | 'malformed' | 'single'"""
    w, h = rng.randint(1, 3), rng.randint(1, 3)
    nres = rng.randint(1, 3)
    big = rng.random() < 0.1
    capset = [0, 1, 2, 5, 8, 16, 17, 18, 31, 40, 64] if not big else [2 ** 20, 2 ** 27, 1000003]
    chip_resources = [[r, rng.choice(capset[2:] if rng.random() < 0.9 else capset)] for r in range(nres)]
    if rng.random() < 0.3:
        rng.shuffle(chip_resources)
    all_chips = [(x, y) for x in range(w) for y in range(h)]
    dead = [c for c in all_chips if rng.random() < 0.1] if len(all_chips) > 1 else []
    live = [c for c in all_chips if c not in dead] or [all_chips[0]]
    dead = [c for c in dead if c not in live]
    exceptions = []
    for c in live:
        if rng.random() < 0.3:
            exceptions.append([list(c), [[r, rng.choice(capset)] for r, _ in chip_resources]])

    def cap_of(c, r):
        for cc, rs in exceptions:
            if tuple(cc) == c:
                return dict(map(tuple, rs))[r]
        return dict(map(tuple, chip_resources))[r]

    single = mode == "single"
    used = rng.sample(live, min(len(live), 1 if single else rng.randint(1, 6)))
    ends = mode == "ends"
    constraints = []
    # alignments
    aligns = {}
    if not ends:
        for r in range(nres):
            if rng.random() < 0.45:
                for _ in range(1 if rng.random() < 0.8 else 2):
                    a = rng.choice([1, 2, 4, 8, 3, 2, 4])
                    aligns[r] = a
                    constraints.append({"k": "align", "res": r, "a": a})
    elif rng.random() < 0.3:
        constraints.append({"k": "align", "res": rng.randrange(nres), "a": 1})
    # reservations
    for r in range(nres):
        base_cap = dict(map(tuple, chip_resources))[r]
        if rng.random() < 0.6:
            n = rng.choice([1, 1, 2, 2, 3, 4, 6])
            for a, b in gen_reservations(rng, base_cap, n, ends and rng.random() < 0.95):
                constraints.append({"k": "reserve", "res": r, "start": a, "stop": b, "loc": None})
        for c in used:
            if rng.random() < 0.4:
                n = rng.choice([1, 1, 2, 3, 6])
                for a, b in gen_reservations(rng, cap_of(c, r), n, ends and rng.random() < 0.95):
                    constraints.append({"k": "reserve", "res": r, "start": a, "stop": b, "loc": list(c)})
        if rng.random() < 0.1 and len(live) > len(used):
            c = rng.choice([c for c in live if c not in used])
            constraints.append({"k": "reserve", "res": r, "start": 0, "stop": 3, "loc": list(c)})
    if rng.random() < 0.2:
        constraints.append({"k": "other"})
    rng.shuffle(constraints)

    # vertices
    vr, placements = [], []
    vid = 0
    for c in used:
        nv = rng.choice([0, 1, 1, 2, 2, 3, 4, 5, 7, 12]) if not single else rng.randint(2, 12)
        # budget per resource: roughly what is free
        budget = {}
        for r in range(nres):
            cap = cap_of(c, r)
            resv = [(x["start"], x["stop"]) for x in constraints
                    if x["k"] == "reserve" and x["res"] == r and (x["loc"] is None or tuple(x["loc"]) == c)]
            if ends:
                lo = max([0] + [b for a, b in resv if a < b and a <= 0])
                hi = min([cap] + [a for a, b in resv if a < b and a > 0])
                budget[r] = hi - lo
            else:
                budget[r] = cap - sum(max(0, min(b, cap) - max(a, 0)) for a, b in resv)
        tight = rng.random()
        for i in range(nv):
            rs = []
            order = list(range(nres))
            if rng.random() < 0.3:
                rng.shuffle(order)
            for r in order:
                if rng.random() < 0.8:
                    left = budget[r]
                    z = rng.random()
                    if z < 0.15 or left <= 0:
                        d = 0
                    elif i == nv - 1 and tight < 0.35:
                        d = left            # fill exactly
                    elif tight > 0.85 and z > 0.8:
                        d = left + rng.randint(1, 3)    # over-demand
                    else:
                        d = rng.randint(0, max(1, left // max(1, nv - i)))
                        if not ends and r in aligns and rng.random() < 0.5:
                            d = d // aligns[r] * aligns[r] + rng.choice([0, 0, 1])
                    if ends and d > left:
                        d = max(0, left)
                    if ends or d <= left:
                        budget[r] -= min(d, max(left, 0))
                    rs.append([r, d])
            vr.append([vid, rs])
            placements.append([vid, list(c)])
            vid += 1
    if rng.random() < 0.1:
        vr.append([vid, [[0, 1]]])      # a vertex that is not placed
        vid += 1
    rng.shuffle(placements)
    if rng.random() < 0.5:
        rng.shuffle(vr)
    case = {"vr": vr,
            "machine": {"width": w, "height": h, "chip_resources": chip_resources,
                        "exceptions": exceptions, "dead": [list(c) for c in dead]},
            "constraints": constraints, "placements": placements, "mode": mode}
    if mode == "malformed":
        what = rng.choice(["align0", "unknown-res", "dead-chip", "missing-vr", "neg-demand", "outside"])
        case["malformed"] = what
        if what == "align0":
            case["constraints"].append({"k": "align", "res": rng.randrange(nres), "a": 0})
        elif what == "unknown-res" and vr:
            rng.choice(vr)[1].append([7, rng.randint(0, 2)])
        elif what == "dead-chip" and placements:
            d = dead[0] if dead else (w + 1, 0)
            if not dead:
                pass
            rng.choice(placements)[1] = list(d)
        elif what == "outside" and placements:
            rng.choice(placements)[1] = [w, rng.randrange(h)] if rng.random() < 0.5 else [-1, 0]
        elif what == "missing-vr" and placements:
            v = rng.choice(placements)[0]
            case["vr"] = [q for q in vr if q[0] != v]
        elif what == "neg-demand" and vr:
            q = rng.choice(vr)
            if q[1]:
                rng.choice(q[1])[1] = -rng.randint(1, 3)
    return case


# ---------------------------------------------------------------- implementation
def impl_allocate(case, limit=None):
    from rig.place_and_route.allocate.greedy import allocate
    from rig.place_and_route.machine import Machine
    from rig.place_and_route.constraints import (
        ReserveResourceConstraint, AlignResourceConstraint, RouteEndpointConstraint)
    from rig.place_and_route.exceptions import InsufficientResourceError
    from rig.routing_table import Routes
    m = case["machine"]
    machine = Machine(m["width"], m["height"],
                      chip_resources=dict((r, c) for r, c in m["chip_resources"]),
                      chip_resource_exceptions=dict(
                          (tuple(xy), dict((r, c) for r, c in rs)) for xy, rs in m["exceptions"]),
                      dead_chips=set(tuple(c) for c in m["dead"]))
    constraints = []
    for c in case["constraints"]:
        if c["k"] == "reserve":
            constraints.append(ReserveResourceConstraint(
                c["res"], slice(c["start"], c["stop"]),
                None if c["loc"] is None else tuple(c["loc"])))
        elif c["k"] == "align":
            constraints.append(AlignResourceConstraint(c["res"], c["a"]))
        else:
            constraints.append(RouteEndpointConstraint(object(), Routes.north))
    vr = {}
    for v, rs in case["vr"]:
        vr[v] = dict((r, d) for r, d in rs)
    placements = {}
    for v, xy in case["placements"]:
        placements[v] = tuple(xy)
    old = signal.signal(signal.SIGVTALRM, _on_vtalrm)
    signal.setitimer(signal.ITIMER_VIRTUAL, limit or HANG_LIMIT_S)
    try:
        try:
            out = allocate(vr, [], machine, constraints, placements)
        finally:
            signal.setitimer(signal.ITIMER_VIRTUAL, 0)
            signal.signal(signal.SIGVTALRM, old)
    except Hang:
        return {"err": "NoTermination"}
    except InsufficientResourceError as e:
        r = {"err": "InsufficientResourceError"}
        mm = re.match(r"^(-?\d+) over-allocated on chip \((-?\d+), (-?\d+)\)$", str(e))
        if mm:
            r["res"] = int(mm.group(1))
            r["xy"] = [int(mm.group(2)), int(mm.group(3))]
        return r
    except (KeyError, IndexError, ZeroDivisionError) as e:
        return {"err": type(e).__name__}
    except Exception as e:      # anything else: reported by type
        return {"err": "Other:" + type(e).__name__}
    res = []
    bad = None
    if not isinstance(out, dict):
        return {"ok": None, "bad": "result is not a dict: %r" % (out,)}
    for v, va in out.items():
        row = []
        for r, s in va.items():
            if not isinstance(s, slice) or s.step not in (None, 1) or \
                    not isinstance(s.start, int) or not isinstance(s.stop, int):
                bad = "vertex %r resource %r: not a contiguous integer range: %r" % (v, r, s)
                continue
            row.append([r, s.start, s.stop])
        res.append([v, sorted(row)])
    r = {"ok": sorted(res)}
    if bad:
        r["bad"] = bad
    return r


def canon_model(rep):
    if "ok" in rep:
        return {"ok": sorted([v, sorted(va)] for v, va in rep["ok"])}
    return rep


def lean_input(case):
    return {k: case[k] for k in ("vr", "machine", "constraints", "placements")}


def gaps(case, ok):
    """(has two ranges of one resource on one chip, has a forced gap)"""
    place = dict((v, tuple(xy)) for v, xy in case["placements"])
    by = {}
    for v, va in ok:
        for r, a, b in va:
            by.setdefault((place.get(v), r), []).append((a, b))
    two = gap = False
    for k, l in by.items():
        l.sort()
        if len(l) >= 2:
            two = True
        p = 0
        for a, b in l:
            if a != p:
                gap = True
            p = b
    return two, gap


def judge(ctx, cases, limit=None):
    """Run implementation, model and the Lean oracles on every case.  Returns one
    verdict dict per case: viol = [(key, what)], mismatch = str | None, tags, nontriv.
    Stops early (returns fewer verdicts) after two non-terminating calls."""
    reqs = []
    hangs = 0
    impls = []
    for c in cases:
        impls.append(impl_allocate(c, limit))
        if impls[-1].get("err") == "NoTermination":
            hangs += 1
            if hangs >= 2:      # enough evidence; do not burn the time budget
                break
    cases = cases[:len(impls)]
    for c, impl in zip(cases, impls):
        inp = lean_input(c)
        reqs.append(dict(inp, suite="c05", op="allocate"))
        reqs.append(dict(inp, suite="c05", op="hyps"))
        if impl.get("ok") is not None:
            reqs.append(dict(inp, suite="c05", op="valid", out=impl["ok"]))
    reps = iter(ctx.lean(reqs))
    out = []
    for c, impl in zip(cases, impls):
        model = canon_model(next(reps))
        hyps = next(reps)
        valid = next(reps) if impl.get("ok") is not None else None
        v = {"viol": [], "mismatch": None, "tags": [], "nontriv": False}
        out.append(v)
        in_dom = hyps["well_formed"] and hyps["in_domain"]
        cmp_impl = {k: x for k, x in impl.items() if k != "bad"}
        if cmp_impl.get("err") == "InsufficientResourceError" and "res" not in cmp_impl:
            model_cmp = {"err": model.get("err")} if "err" in model else model
        else:
            model_cmp = model
        if cmp_impl != model_cmp:
            v["mismatch"] = "impl=%r model=%r" % (impl, model)
        nresv = sum(1 for x in c["constraints"] if x["k"] == "reserve")
        v["tags"] += ["mode_" + c.get("mode", "?"), "domain_" + ("in" if in_dom else "out")]
        if hyps["feasible"] and in_dom:
            v["tags"].append("completeness_hypothesis_holds")
        if "ok" in impl:
            v["tags"].append("result_ok")
            if impl.get("bad"):
                if in_dom:
                    v["viol"].append(("not-a-range", impl["bad"]))
            elif in_dom:
                if not valid["valid"]:
                    failed = [k for k in ("same_keys", "served", "justified", "disjoint") if not valid[k]]
                    v["viol"].append(("invalid-allocation-" + "+".join(failed),
                                      "allocation violates the property (Lean `Valid` false; failed clauses %s): %r"
                                      % (failed, impl["ok"])))
                two, gap = gaps(c, impl["ok"])
                v["nontriv"] = two and gap
                if gap:
                    v["tags"].append("forced_gap")
                if any(a == b for _, va in impl["ok"] for _, a, b in va):
                    v["tags"].append("zero_size_range")
        else:
            v["tags"].append("result_" + impl["err"])
            if in_dom:
                if impl["err"] == "NoTermination":
                    v["viol"].append(("no-termination",
                                      "allocate did not return within %.1f s of CPU time on an in-domain input "
                                      "(the model's loop provably terminates: propose_no_fuel)"
                                      % (limit or HANG_LIMIT_S)))
                elif impl["err"] != "InsufficientResourceError":
                    v["viol"].append(("undocumented-exception-" + impl["err"],
                                      "allocate raised %s on an in-domain input; the only documented failure is "
                                      "InsufficientResourceError" % impl["err"]))
                elif hyps["feasible"]:
                    v["viol"].append(("completeness",
                                      "InsufficientResourceError although there is no alignment, reservations are "
                                      "only at the ends of the ranges and the demand fits between them (Lean "
                                      "`Feasible` true): %r" % (impl,)))
                v["nontriv"] = nresv > 0 and len(c["placements"]) >= 2
    return out


def candidates(case):
    """all cases obtained by deleting / simplifying one element"""
    import copy
    out = []

    def variant(f):
        c = copy.deepcopy(case)
        f(c)
        out.append(c)
    for i in range(len(case["placements"])):
        v = case["placements"][i][0]

        def drop_vertex(c, i=i, v=v):
            del c["placements"][i]
            c["vr"] = [q for q in c["vr"] if q[0] != v]
        variant(drop_vertex)
    placed = set(v for v, _ in case["placements"])
    for i, q in enumerate(case["vr"]):
        if q[0] not in placed:
            variant(lambda c, i=i: c["vr"].pop(i))
        for k in range(len(q[1])):
            variant(lambda c, i=i, k=k: c["vr"][i][1].pop(k))
    for i in range(len(case["constraints"])):
        variant(lambda c, i=i: c["constraints"].pop(i))
    for i in range(len(case["machine"]["exceptions"])):
        variant(lambda c, i=i: c["machine"]["exceptions"].pop(i))
    for i in range(len(case["machine"]["dead"])):
        variant(lambda c, i=i: c["machine"]["dead"].pop(i))
    for i, q in enumerate(case["vr"]):
        for k, (r, d) in enumerate(q[1]):
            if d > 1:
                variant(lambda c, i=i, k=k, d=d: c["vr"][i][1][k].__setitem__(1, d // 2))
                variant(lambda c, i=i, k=k, d=d: c["vr"][i][1][k].__setitem__(1, d - 1))
    return out


def shrink(ctx, case, key, budget_s=25.0):
    """greedy delta debugging: keep deleting while the same finding key is reported"""
    import time
    t0 = time.time()
    cur = case
    while time.time() - t0 < budget_s:
        cands = candidates(cur)
        if not cands:
            break
        nxt = None
        for k in range(0, len(cands), 40):
            part = cands[k:k + 40]
            verdicts = judge(ctx, part, limit=0.5)
            for c, v in zip(part, verdicts):
                if any(kk == key for kk, _ in v["viol"]):
                    nxt = c
                    break
            if nxt is not None or time.time() - t0 > budget_s:
                break
        if nxt is None:
            break
        cur = nxt
    return cur


def eval_cases(ctx, cases, do_shrink=True):
    verdicts = judge(ctx, cases)
    seen = set(k for k, _, _ in ctx.concrete)
    for c, v in zip(cases, verdicts):
        desc = dict(c)
        ctx.traces += 1
        ctx.tag(*v["tags"])
        if v["mismatch"]:
            ctx.mismatch("c05.allocate", v["mismatch"], desc)
        for key, what in v["viol"]:
            if key not in seen and do_shrink:
                seen.add(key)
                small = shrink(ctx, desc, key)
                sv = judge(ctx, [small], limit=2.0)[0]
                for k2, w2 in sv["viol"]:
                    if k2 == key:
                        small["shrunk_from_seed_case"] = True
                        ctx.violation(key, w2, small)
                        break
                else:
                    ctx.violation(key, what, desc)
            else:
                ctx.violation(key, what, desc)
        ctx.case(desc, v["nontriv"])
    return len(verdicts)


def gen_cases(ctx, n):
    rng = ctx.rng
    out = []
    for i in range(n):
        r = rng.random()
        mode = "general" if r < 0.5 else "single" if r < 0.65 else "ends" if r < 0.9 else "malformed"
        out.append(gen_case(rng, mode))
    return out


def utils_cases(ctx, n):
    """slices_overlap / align against the model on edge-heavy integers"""
    from rig.place_and_route.allocate.utils import slices_overlap, align
    rng = ctx.rng
    reqs, want = [], []
    for _ in range(n):
        a0, b0 = rng.randint(-3, 12), rng.randint(-3, 12)
        a1, b1 = a0 + rng.randint(-2, 6), b0 + rng.randint(-2, 6)
        reqs.append({"suite": "c05", "op": "overlap", "a0": a0, "a1": a1, "b0": b0, "b1": b1})
        want.append(bool(slices_overlap(slice(a0, a1), slice(b0, b1))))
        v, al = rng.randint(-5, 70), rng.choice([1, 2, 3, 4, 8, 5, 16, -2, -3])
        reqs.append({"suite": "c05", "op": "align", "v": v, "a": al})
        want.append(align(v, al))
    for rq, w, g in zip(reqs, want, ctx.lean(reqs)):
        ctx.traces += 1
        if w != g:
            ctx.mismatch("c05.utils", "impl=%r model=%r" % (w, g), rq)
    ctx.tag("utils_pairs")


def run(ctx):
    ctx.extra["rule"] = RULE
    ctx.assumptions += [
        "dict iteration order is insertion order (CPython >= 3.7): the per-chip vertex order is the order of `placements`",
        "claimed for requirements >= 0, alignments >= 1, resource names known to the machine, vertices placed on live chips",
        "ranges are compared as (start, stop) of the returned slice objects"]
    n = ctx.scale(5000, 200000)
    if ctx.extended:
        n = max(n * 4, 40000)
    corpus = []
    here = os.path.dirname(os.path.dirname(os.path.abspath(__file__)))
    for f in sorted(glob.glob(os.path.join(here, "corpus", "C05", "*.json"))):
        corpus.append(json.load(open(f))["case"])
    if corpus:
        eval_cases(ctx, corpus)
    utils_cases(ctx, ctx.scale(500, 5000))
    done = 0
    while done < n:
        k = min(5000, n - done)
        eval_cases(ctx, gen_cases(ctx, k))
        done += k
        if ctx.concrete:
            break


def replay(ctx, payload):
    ctx.extra["rule"] = RULE
    eval_cases(ctx, [payload["case"]], do_shrink=False)
