"""C05 - greedy resource allocator: exact correspondence of
rig/place_and_route/allocate/greedy.py (+ allocate/utils.py, the two constraint
classes and Machine.__getitem__) with the Lean model RigModel/Model/C05.lean, and
the Lean specification `Valid` / `Feasible` evaluated on the implementation's own
allocations and exceptions (property oracle)."""
import glob
import json
import os
import re
import signal


class Hang(Exception):
    """the implementation used more CPU time than any terminating run could"""


def _on_vtalrm(signum, frame):
    raise Hang()


HANG_LIMIT_S = 5.0   # CPU seconds for ONE allocate() call on a problem with < 100 requests (normal: < 1 ms)

CLAIM = dict(
    text=("Machine-checked proof (Lean 4) over ALL machines (with per-chip exceptions), vertex sets, placements, "
          "vertex orders, demands (incl. 0), alignments >= 1 and lists of global/local reservations (overlapping, "
          "adjacent, empty, outside the range): every allocation the allocator model returns gives each placed "
          "vertex exactly one range per requested resource, of exactly the requested size, inside [0, capacity of "
          "its chip], starting on the alignment, overlapping no global reservation and no reservation of its chip, "
          "and disjoint from the ranges of every other vertex on that chip (and no vertex/resource pair gets two "
          "ranges); the only error on a documented-domain "
          "input is InsufficientResourceError (the proposal loop provably terminates); and with alignment 1 and "
          "reservations only at the two ends of the range a placement whose demand fits between them - in particular "
          "one that is feasible by the placers' own accounting (capacity minus reserved magnitudes) - always "
          "succeeds.  Tied to greedy.py by exact correspondence (allocations, error kind, failing resource and "
          "chip) on thousands of generated problems per run - quantities from 0 to beyond 2^100 (the model is "
          "over unbounded Int; the JSON protocol carries them exactly), identifiers of any hashable type - with "
          "the Lean predicate `Valid` run on every allocation the implementation returns."),
    design="3/C05",
    note=("Vertex order per chip = iteration order of the `placements` dict, passed to the model as a list; theorems "
          "hold for every order.  Domain (hypotheses of the theorems, applied to the generators): requirements >= 0, "
          "alignments >= 1, resources known to the machine, vertices on live chips."),
    technique="Lean 4 theorems over a hand-written model + differential correspondence + Lean spec as oracle")

THEOREMS = ["overlaps_iff_common", "alloc_sound", "alloc_sound_range", "alloc_unique", "alloc_only_failure",
            "alloc_complete", "alloc_complete_window", "alloc_complete_placer_budget"]
THEOREMS += ['gen_slices_overlap', 'gen_align']   # translator tie: generated function bodies = model (Props/C05Gen.lean)

RULE = ("machines 1-3 x 1-3 with 1-3 resources, per-chip exceptions and dead chips; 1-6 used chips, 0-12 vertices "
        "per chip placed in shuffled (interleaved) order, demands incl. 0 and absent resources; up to 6 global and "
        "6 local reservations per resource (prefix, suffix, interior, adjacent, nested/overlapping, empty, partly "
        "outside the range).  Quantities (capacities, requests, reservation bounds, alignments) in three size "
        "classes over the whole range of Python ints: small (0-64; 66%), medium (2^20-2^27; 8%) and huge (26%: "
        "capacities k*B+-few for B in {2^31, 2^32, 2^53, 2^54, 2^63, 2^64, 2^100}, requests 2^53+-1, 2^53+3, "
        "2^63+1, 2^64+-1, 2^100+1, B+-1, odd random values, so that resource pointers sit on integers no double "
        "represents).  Alignments: 1,2,4,8 and non-powers of two (3,5,6,7,10,12,24,100,1000,1000003), 2^31+1, "
        "2^53+1, 2^64-1, alignments equal to / larger than the resource, repeated align constraints; zero-size "
        "requests under every alignment.  Legal but unusual argument shapes: constraints duplicated, in any "
        "order, passed as list / tuple / one-shot iterator, constraints naming resources the machine lacks or "
        "chips outside the machine, resources named by ints, strings, bytes, tuples, frozensets, rig's sentinels "
        "or plain objects, vertices named by ints, strings, tuples or objects, unplaced vertices.  A stream built "
        "to satisfy the completeness hypothesis (no alignment, reservations at the ends, demand fits exactly or "
        "with slack) and a malformed stream (alignment 0, unknown resource, dead chip, vertex without resources, "
        "negative demand) compared with the model only; slices_overlap / align compared directly on small and "
        "huge integers.  Non-trivial: >= 2 ranges of one resource on one chip and either a gap forced by a "
        "reservation/alignment or an InsufficientResourceError raised with reservations present; distinct = "
        "distinct canonical JSON")


# ---------------------------------------------------------------- generators
HUGE_BASES = [2 ** 31, 2 ** 32, 2 ** 53, 2 ** 53, 2 ** 53, 2 ** 54, 2 ** 63, 2 ** 64, 2 ** 64, 2 ** 100]
EDGE_DEMANDS = [2 ** 53 + 1, 2 ** 53 - 1, 2 ** 53 + 3, 2 ** 54 + 2, 2 ** 31 + 1, 2 ** 32 - 1, 2 ** 63 + 1,
                2 ** 64 - 1, 2 ** 64 + 1, 2 ** 100 + 1, 3 * 2 ** 52 + 1]
RES_STYLES = ["int", "str", "tuple", "object", "sentinel", "frozenset", "bytes"]
VERTEX_STYLES = ["int", "str", "tuple", "object"]


class Named(object):
    """an arbitrary hashable user object (identity hash), printable for error messages"""

    def __init__(self, name):
        self.name = name

    def __repr__(self):
        return "<%s>" % self.name


def res_object(style, r):
    """the Python object that names resource number r"""
    if style == "int":
        return r
    if style == "str":
        return "res%d" % r
    if style == "tuple":
        return ("res", r)
    if style == "frozenset":
        return frozenset([("res", r)])
    if style == "bytes":
        return b"res%d" % r
    if style == "sentinel":
        from rig.place_and_route.machine import Cores, SDRAM, SRAM
        if r < 3:
            return (Cores, SDRAM, SRAM)[r]
    return Named("res%d" % r)


def vertex_object(style, v):
    if style == "int":
        return v
    if style == "str":
        return "v%d" % v
    if style == "tuple":
        return ("vertex", v, None)
    return Named("v%d" % v)


def gen_reservations(rng, cap, n, ends_only):
    """n reservation slices for a range [0, cap)"""
    out = []
    for _ in range(n):
        k = rng.random()
        if ends_only:
            if k < 0.45:
                out.append((0, rng.randint(0, max(0, cap // 3))))
            elif k < 0.9:
                out.append((cap - rng.randint(0, max(0, cap // 3)), cap))
            else:
                a = rng.randint(0, cap)
                out.append((a, a))          # empty
            continue
        if k < 0.2:
            out.append((0, rng.randint(0, max(0, cap // 2))))
        elif k < 0.4:
            out.append((rng.randint(0, cap), cap))
        elif k < 0.55 and out:
            # adjacent to / nested in / overlapping an earlier one
            a, b = rng.choice(out)
            m = rng.random()
            if m < 0.4:
                out.append((b, b + rng.randint(0, 4)))
            elif m < 0.7:
                out.append((max(0, a - rng.randint(0, 3)), a))
            else:
                out.append((a + rng.randint(0, 2), b + rng.randint(-2, 3)))
        elif k < 0.62:
            a = rng.randint(0, cap)
            out.append((a, a))              # empty
        elif k < 0.66:
            a = rng.randint(0, cap)
            out.append((a, a - rng.randint(1, 3)))   # reversed = empty
        elif k < 0.70:
            out.append((-rng.randint(1, 3), rng.randint(0, 3)))  # partly below 0
        elif k < 0.74:
            out.append((cap - rng.randint(0, 3), cap + rng.randint(1, 4)))  # partly above
        else:
            a = rng.randint(0, cap)
            out.append((a, min(cap + 1, a + rng.randint(1, max(1, cap // 4)))))
    return out


def gen_case(rng, mode):
    """mode: 'general' | 'ends' | 'malformed' | 'single'"""
    w, h = rng.randint(1, 3), rng.randint(1, 3)
    nres = rng.randint(1, 3)
    # size class of the quantities of this problem: resources are plain Python ints of any size
    zc = rng.random()
    if zc < 0.66:
        scale = "small"
        capset = [0, 1, 2, 5, 8, 16, 17, 18, 31, 40, 64]
        alignset = [1, 2, 4, 8, 3, 2, 4, 5, 6, 7, 12, 100]
    elif zc < 0.74:
        scale = "medium"
        capset = [2 ** 20, 2 ** 27, 1000003, 2 ** 27, 2 ** 20 + 1, 2 ** 27]
        alignset = [1, 2, 4, 8, 3, 7, 1000, 4096, 1000003, 2 ** 27 + 1]
    else:
        scale = "huge"
        base = rng.choice(HUGE_BASES)
        capset = [base + k for k in (-3, -1, 0, 0, 1, 2, 5)] + [2 * base + 1, 3 * base, 4 * base, 4 * base + 7]
        alignset = [1, 1, 2, 3, 4, 5, 6, 7, 8, 10, 12, 24, 1000, 4096, 1000003,
                    2 ** 31, 2 ** 31 + 1, 2 ** 32, 2 ** 53, 2 ** 53 + 1, 2 ** 64 - 1,
                    base, base + 1, base // 3 + 1, 4 * base + 8, 2 ** 101]
    chip_resources = [[r, rng.choice(capset[2:] if rng.random() < 0.9 else capset)] for r in range(nres)]
    if rng.random() < 0.3:
        rng.shuffle(chip_resources)
    all_chips = [(x, y) for x in range(w) for y in range(h)]
    dead = [c for c in all_chips if rng.random() < 0.1] if len(all_chips) > 1 else []
    live = [c for c in all_chips if c not in dead] or [all_chips[0]]
    dead = [c for c in dead if c not in live]
    exceptions = []
    for c in live:
        if rng.random() < 0.3:
            exceptions.append([list(c), [[r, rng.choice(capset)] for r, _ in chip_resources]])

    def cap_of(c, r):
        for cc, rs in exceptions:
            if tuple(cc) == c:
                return dict(map(tuple, rs))[r]
        return dict(map(tuple, chip_resources))[r]

    single = mode == "single"
    used = rng.sample(live, min(len(live), 1 if single else rng.randint(1, 6)))
    ends = mode == "ends"
    constraints = []
    # alignments
    aligns = {}
    if not ends:
        for r in range(nres):
            if rng.random() < 0.45:
                for _ in range(1 if rng.random() < 0.8 else 2):
                    a = rng.choice(alignset)
                    aligns[r] = a
                    constraints.append({"k": "align", "res": r, "a": a})
    elif rng.random() < 0.3:
        constraints.append({"k": "align", "res": rng.randrange(nres), "a": 1})
    # reservations
    for r in range(nres):
        base_cap = dict(map(tuple, chip_resources))[r]
        if rng.random() < 0.6:
            n = rng.choice([1, 1, 2, 2, 3, 4, 6])
            for a, b in gen_reservations(rng, base_cap, n, ends and rng.random() < 0.95):
                constraints.append({"k": "reserve", "res": r, "start": a, "stop": b, "loc": None})
        for c in used:
            if rng.random() < 0.4:
                n = rng.choice([1, 1, 2, 3, 6])
                for a, b in gen_reservations(rng, cap_of(c, r), n, ends and rng.random() < 0.95):
                    constraints.append({"k": "reserve", "res": r, "start": a, "stop": b, "loc": list(c)})
        if rng.random() < 0.1 and len(live) > len(used):
            c = rng.choice([c for c in live if c not in used])
            constraints.append({"k": "reserve", "res": r, "start": 0, "stop": 3, "loc": list(c)})
    if rng.random() < 0.2:
        constraints.append({"k": "other"})
    if constraints and rng.random() < 0.25:
        for _ in range(rng.choice([1, 1, 2])):
            constraints.append(dict(rng.choice(constraints)))       # duplicated constraint
    if rng.random() < 0.12:
        # constraints naming a resource the machine does not have / a chip outside the machine
        constraints.append({"k": "reserve", "res": 5, "start": 0, "stop": 4, "loc": None})
        constraints.append({"k": "align", "res": 6, "a": rng.choice([2, 3, 2 ** 53 + 1])})
        constraints.append({"k": "reserve", "res": 0, "start": 0, "stop": rng.choice(capset) + 1,
                            "loc": [w + 1, h]})
    rng.shuffle(constraints)

    # vertices
    vr, placements = [], []
    vid = 0
    for c in used:
        nv = rng.choice([0, 1, 1, 2, 2, 3, 4, 5, 7, 12]) if not single else rng.randint(2, 12)
        # budget per resource: roughly what is free
        budget = {}
        for r in range(nres):
            cap = cap_of(c, r)
            resv = [(x["start"], x["stop"]) for x in constraints
                    if x["k"] == "reserve" and x["res"] == r and (x["loc"] is None or tuple(x["loc"]) == c)]
            if ends:
                lo = max([0] + [b for a, b in resv if a < b and a <= 0])
                hi = min([cap] + [a for a, b in resv if a < b and a > 0])
                budget[r] = hi - lo
            else:
                budget[r] = cap - sum(max(0, min(b, cap) - max(a, 0)) for a, b in resv)
        tight = rng.random()
        for i in range(nv):
            rs = []
            order = list(range(nres))
            if rng.random() < 0.3:
                rng.shuffle(order)
            for r in order:
                if rng.random() < 0.8:
                    left = budget[r]
                    z = rng.random()
                    if z < 0.15 or left <= 0:
                        d = 0
                    elif i == nv - 1 and tight < 0.35:
                        d = left            # fill exactly
                    elif tight > 0.85 and z > 0.8:
                        d = left + rng.randint(1, 3)    # over-demand
                    elif scale == "huge" and z < 0.5:
                        # leave the pointer on values that no double represents exactly
                        d = rng.choice(EDGE_DEMANDS + [base + 1, base - 1, base // 2 + 1, 1, 3, 5])
                        if d > left and rng.random() < 0.9:
                            d = rng.randint(0, left) | 1
                            d = d if d <= left else left
                    else:
                        d = rng.randint(0, max(1, left // max(1, nv - i)))
                        if not ends and r in aligns and rng.random() < 0.5:
                            d = d // aligns[r] * aligns[r] + rng.choice([0, 0, 1])
                    if ends and d > left:
                        d = max(0, left)
                    if ends or d <= left:
                        budget[r] -= min(d, max(left, 0))
                    rs.append([r, d])
            vr.append([vid, rs])
            placements.append([vid, list(c)])
            vid += 1
    if rng.random() < 0.1:
        vr.append([vid, [[0, 1]]])      # a vertex that is not placed
        vid += 1
    rng.shuffle(placements)
    if rng.random() < 0.5:
        rng.shuffle(vr)
    case = {"vr": vr,
            "machine": {"width": w, "height": h, "chip_resources": chip_resources,
                        "exceptions": exceptions, "dead": [list(c) for c in dead]},
            "constraints": constraints, "placements": placements, "mode": mode, "scale": scale,
            # how the identifiers are spelled on the Python side (any hashable is legal)
            "names": {"res": [rng.choice(RES_STYLES) for _ in range(8)],
                      "vertex": rng.choice(VERTEX_STYLES),
                      "containers": rng.choice(["list", "list", "tuple", "iter"])}}
    if mode == "malformed":
        what = rng.choice(["align0", "unknown-res", "dead-chip", "missing-vr", "neg-demand", "outside"])
        case["malformed"] = what
        if what == "align0":
            case["constraints"].append({"k": "align", "res": rng.randrange(nres), "a": 0})
        elif what == "unknown-res" and vr:
            rng.choice(vr)[1].append([7, rng.randint(0, 2)])
        elif what == "dead-chip" and placements:
            d = dead[0] if dead else (w + 1, 0)
            if not dead:
                pass
            rng.choice(placements)[1] = list(d)
        elif what == "outside" and placements:
            rng.choice(placements)[1] = [w, rng.randrange(h)] if rng.random() < 0.5 else [-1, 0]
        elif what == "missing-vr" and placements:
            v = rng.choice(placements)[0]
            case["vr"] = [q for q in vr if q[0] != v]
        elif what == "neg-demand" and vr:
            q = rng.choice(vr)
            if q[1]:
                rng.choice(q[1])[1] = -rng.randint(1, 3)
    return case


# ---------------------------------------------------------------- implementation
def impl_allocate(case, limit=None):
    from rig.place_and_route.allocate.greedy import allocate
    from rig.place_and_route.machine import Machine
    from rig.place_and_route.constraints import (
        ReserveResourceConstraint, AlignResourceConstraint, RouteEndpointConstraint)
    from rig.place_and_route.exceptions import InsufficientResourceError
    from rig.routing_table import Routes
    names = case.get("names") or {"res": ["int"] * 8, "vertex": "int", "containers": "list"}
    robj, vobj = {}, {}

    def R(r):
        if r not in robj:
            robj[r] = res_object(names["res"][r % len(names["res"])], r)
        return robj[r]

    def V(v):
        if v not in vobj:
            vobj[v] = vertex_object(names["vertex"], v)
        return vobj[v]
    m = case["machine"]
    machine = Machine(m["width"], m["height"],
                      chip_resources=dict((R(r), c) for r, c in m["chip_resources"]),
                      chip_resource_exceptions=dict(
                          (tuple(xy), dict((R(r), c) for r, c in rs)) for xy, rs in m["exceptions"]),
                      dead_chips=set(tuple(c) for c in m["dead"]))
    constraints = []
    for c in case["constraints"]:
        if c["k"] == "reserve":
            constraints.append(ReserveResourceConstraint(
                R(c["res"]), slice(c["start"], c["stop"]),
                None if c["loc"] is None else tuple(c["loc"])))
        elif c["k"] == "align":
            constraints.append(AlignResourceConstraint(R(c["res"]), c["a"]))
        else:
            constraints.append(RouteEndpointConstraint(object(), Routes.north))
    if names["containers"] == "tuple":
        constraints = tuple(constraints)
    elif names["containers"] == "iter":
        constraints = iter(constraints)
    vr = {}
    for v, rs in case["vr"]:
        vr[V(v)] = dict((R(r), d) for r, d in rs)
    placements = {}
    for v, xy in case["placements"]:
        placements[V(v)] = tuple(xy)
    rid = dict((id(o), r) for r, o in robj.items())
    vid = dict((id(o), v) for v, o in vobj.items())

    def back(table, objs, o):
        """number of the identifier object `o` (by identity, else by equality)"""
        if id(o) in table:
            return table[id(o)]
        for k, oo in objs.items():
            if type(oo) is type(o) and oo == o:
                return k
        return None
    old = signal.signal(signal.SIGVTALRM, _on_vtalrm)
    signal.setitimer(signal.ITIMER_VIRTUAL, limit or HANG_LIMIT_S)
    try:
        try:
            out = allocate(vr, [], machine, constraints, placements)
        finally:
            signal.setitimer(signal.ITIMER_VIRTUAL, 0)
            signal.signal(signal.SIGVTALRM, old)
    except Hang:
        return {"err": "NoTermination"}
    except InsufficientResourceError as e:
        r = {"err": "InsufficientResourceError"}
        # "{resource} over-allocated on chip {xy}": find which resource / chip it names
        for rr, o in robj.items():
            for _, xy in case["placements"]:
                if str(e) == "{} over-allocated on chip {}".format(o, tuple(xy)):
                    r["res"] = rr
                    r["xy"] = list(xy)
        return r
    except (KeyError, IndexError, ZeroDivisionError) as e:
        return {"err": type(e).__name__}
    except Exception as e:      # anything else: reported by type
        return {"err": "Other:" + type(e).__name__}
    res = []
    bad = None
    if not isinstance(out, dict):
        return {"ok": None, "bad": "result is not a dict: %r" % (out,)}
    for vo, va in out.items():
        v = back(vid, vobj, vo)
        if v is None or not isinstance(va, dict):
            bad = "result key %r is not one of the placed vertices / its value is not a dict" % (vo,)
            continue
        row = []
        for ro, sl in va.items():
            r = back(rid, robj, ro)
            if r is None:
                bad = "vertex %r: %r is not one of the resources" % (vo, ro)
                continue
            if not isinstance(sl, slice) or sl.step not in (None, 1) or \
                    not isinstance(sl.start, int) or not isinstance(sl.stop, int):
                bad = "vertex %r resource %r: not a contiguous integer range: %r" % (vo, ro, sl)
                continue
            row.append([r, int(sl.start), int(sl.stop)])
        res.append([v, sorted(row)])
    r = {"ok": sorted(res)}
    if bad:
        r["bad"] = bad
    return r


def canon_model(rep):
    if "ok" in rep:
        return {"ok": sorted([v, sorted(va)] for v, va in rep["ok"])}
    return rep


def lean_input(case):
    return {k: case[k] for k in ("vr", "machine", "constraints", "placements")}


def gaps(case, ok):
    """(has two ranges of one resource on one chip, has a forced gap)"""
    place = dict((v, tuple(xy)) for v, xy in case["placements"])
    by = {}
    for v, va in ok:
        for r, a, b in va:
            by.setdefault((place.get(v), r), []).append((a, b))
    two = gap = False
    for k, l in by.items():
        l.sort()
        if len(l) >= 2:
            two = True
        p = 0
        for a, b in l:
            if a != p:
                gap = True
            p = b
    return two, gap


def judge(ctx, cases, limit=None):
    """Run implementation, model and the Lean oracles on every case.  Returns one
    verdict dict per case: viol = [(key, what)], mismatch = str | None, tags, nontriv.
    Stops early (returns fewer verdicts) after eight non-terminating calls."""
    reqs = []
    hangs = 0
    impls = []
    for c in cases:
        # the first non-terminating call gets the full CPU limit; once one has been seen the others are
        # cut short (they only add tags), and after a few the batch ends: do not burn the time budget
        impls.append(impl_allocate(c, limit if hangs == 0 else 0.5))
        if impls[-1].get("err") == "NoTermination":
            hangs += 1
            if hangs >= 8:
                break
    cases = cases[:len(impls)]
    for c, impl in zip(cases, impls):
        inp = lean_input(c)
        reqs.append(dict(inp, suite="c05", op="allocate"))
        reqs.append(dict(inp, suite="c05", op="hyps"))
        if impl.get("ok") is not None:
            reqs.append(dict(inp, suite="c05", op="valid", out=impl["ok"]))
    reps = iter(ctx.lean(reqs))
    out = []
    for c, impl in zip(cases, impls):
        model = canon_model(next(reps))
        hyps = next(reps)
        valid = next(reps) if impl.get("ok") is not None else None
        v = {"viol": [], "mismatch": None, "tags": [], "nontriv": False}
        out.append(v)
        in_dom = hyps["well_formed"] and hyps["in_domain"]
        cmp_impl = {k: x for k, x in impl.items() if k != "bad"}
        if cmp_impl.get("err") == "InsufficientResourceError" and "res" not in cmp_impl:
            model_cmp = {"err": model.get("err")} if "err" in model else model
        else:
            model_cmp = model
        if cmp_impl != model_cmp:
            v["mismatch"] = "impl=%r model=%r" % (impl, model)
        nresv = sum(1 for x in c["constraints"] if x["k"] == "reserve")
        v["tags"] += ["mode_" + c.get("mode", "?"), "domain_" + ("in" if in_dom else "out"),
                      "scale_" + c.get("scale", "corpus")]
        if "names" in c:
            v["tags"].append("vertex_named_by_" + c["names"]["vertex"])
            v["tags"].append("constraints_as_" + c["names"]["containers"])
        if any(x["k"] == "align" and x["a"] not in (1, 2, 4, 8) for x in c["constraints"]):
            v["tags"].append("alignment_not_small_power_of_two")
        if hyps["feasible"] and in_dom:
            v["tags"].append("completeness_hypothesis_holds")
        if "ok" in impl:
            v["tags"].append("result_ok")
            if impl.get("bad"):
                if in_dom:
                    v["viol"].append(("not-a-range", impl["bad"]))
            elif in_dom:
                if not valid["valid"]:
                    failed = [k for k in ("same_keys", "served", "justified", "disjoint") if not valid[k]]
                    v["viol"].append(("invalid-allocation-" + "+".join(failed),
                                      "allocation violates the property (Lean `Valid` false; failed clauses %s): %r"
                                      % (failed, impl["ok"])))
                two, gap = gaps(c, impl["ok"])
                v["nontriv"] = two and gap
                if gap:
                    v["tags"].append("forced_gap")
                if any(a == b for _, va in impl["ok"] for _, a, b in va):
                    v["tags"].append("zero_size_range")
                if any(a > 2 ** 53 and a % 2 == 1 for _, va in impl["ok"] for _, a, b in va):
                    v["tags"].append("range_starts_on_odd_value_above_2^53")
        else:
            v["tags"].append("result_" + impl["err"])
            if in_dom:
                if impl["err"] == "NoTermination":
                    v["viol"].append(("no-termination",
                                      "allocate did not return within %.1f s of CPU time on an in-domain input "
                                      "(the model's loop provably terminates: propose_no_fuel)"
                                      % (limit or HANG_LIMIT_S)))
                elif impl["err"] != "InsufficientResourceError":
                    v["viol"].append(("undocumented-exception-" + impl["err"],
                                      "allocate raised %s on an in-domain input; the only documented failure is "
                                      "InsufficientResourceError" % impl["err"]))
                elif hyps["feasible"]:
                    v["viol"].append(("completeness",
                                      "InsufficientResourceError although there is no alignment, reservations are "
                                      "only at the ends of the ranges and the demand fits between them (Lean "
                                      "`Feasible` true): %r" % (impl,)))
                v["nontriv"] = nresv > 0 and len(c["placements"]) >= 2
    return out


def candidates(case):
    """all cases obtained by deleting / simplifying one element"""
    import copy
    out = []

    def variant(f):
        c = copy.deepcopy(case)
        f(c)
        out.append(c)
    for i in range(len(case["placements"])):
        v = case["placements"][i][0]

        def drop_vertex(c, i=i, v=v):
            del c["placements"][i]
            c["vr"] = [q for q in c["vr"] if q[0] != v]
        variant(drop_vertex)
    placed = set(v for v, _ in case["placements"])
    for i, q in enumerate(case["vr"]):
        if q[0] not in placed:
            variant(lambda c, i=i: c["vr"].pop(i))
        for k in range(len(q[1])):
            variant(lambda c, i=i, k=k: c["vr"][i][1].pop(k))
    for i in range(len(case["constraints"])):
        variant(lambda c, i=i: c["constraints"].pop(i))
    for i in range(len(case["machine"]["exceptions"])):
        variant(lambda c, i=i: c["machine"]["exceptions"].pop(i))
    for i in range(len(case["machine"]["dead"])):
        variant(lambda c, i=i: c["machine"]["dead"].pop(i))
    for i, q in enumerate(case["vr"]):
        for k, (r, d) in enumerate(q[1]):
            if d > 1:
                variant(lambda c, i=i, k=k, d=d: c["vr"][i][1][k].__setitem__(1, d // 2))
                variant(lambda c, i=i, k=k, d=d: c["vr"][i][1][k].__setitem__(1, d - 1))
    return out


def shrink(ctx, case, key, budget_s=25.0):
    """greedy delta debugging: keep deleting while the same finding key is reported"""
    import time
    t0 = time.time()
    cur = case
    while time.time() - t0 < budget_s:
        cands = candidates(cur)
        if not cands:
            break
        nxt = None
        for k in range(0, len(cands), 40):
            part = cands[k:k + 40]
            verdicts = judge(ctx, part, limit=0.5)
            for c, v in zip(part, verdicts):
                if any(kk == key for kk, _ in v["viol"]):
                    nxt = c
                    break
            if nxt is not None or time.time() - t0 > budget_s:
                break
        if nxt is None:
            break
        cur = nxt
    return cur


def eval_cases(ctx, cases, do_shrink=True):
    verdicts = judge(ctx, cases)
    seen = set(k for k, _, _ in ctx.concrete)
    for c, v in zip(cases, verdicts):
        desc = dict(c)
        ctx.traces += 1
        ctx.tag(*v["tags"])
        if v["mismatch"]:
            ctx.mismatch("c05.allocate", v["mismatch"], desc)
        for key, what in v["viol"]:
            if key not in seen and do_shrink:
                seen.add(key)
                small = shrink(ctx, desc, key)
                sv = judge(ctx, [small], limit=2.0)[0]
                for k2, w2 in sv["viol"]:
                    if k2 == key:
                        small["shrunk_from_seed_case"] = True
                        ctx.violation(key, w2, small)
                        break
                else:
                    ctx.violation(key, what, desc)
            else:
                ctx.violation(key, what, desc)
        ctx.case(desc, v["nontriv"])
    return len(verdicts)


def gen_cases(ctx, n):
    rng = ctx.rng
    out = []
    for i in range(n):
        r = rng.random()
        mode = "general" if r < 0.5 else "single" if r < 0.65 else "ends" if r < 0.9 else "malformed"
        out.append(gen_case(rng, mode))
    return out


def utils_cases(ctx, n):
    """slices_overlap / align against the model on edge-heavy integers"""
    from rig.place_and_route.allocate.utils import slices_overlap, align
    rng = ctx.rng
    reqs, want = [], []
    for _ in range(n):
        a0, b0 = rng.randint(-3, 12), rng.randint(-3, 12)
        a1, b1 = a0 + rng.randint(-2, 6), b0 + rng.randint(-2, 6)
        reqs.append({"suite": "c05", "op": "overlap", "a0": a0, "a1": a1, "b0": b0, "b1": b1})
        want.append(bool(slices_overlap(slice(a0, a1), slice(b0, b1))))
        v, al = rng.randint(-5, 70), rng.choice([1, 2, 3, 4, 8, 5, 16, -2, -3])
        if rng.random() < 0.5:
            b = rng.choice(HUGE_BASES)
            v = rng.choice([b, 2 * b, 3 * b, b * b]) + rng.randint(-9, 9)
            al = rng.choice([1, 2, 3, 7, 10, 2 ** 31 + 1, 2 ** 53 + 1, b + 1, b - 1, 4 * b + 3])
            a0, b0 = a0 + rng.choice([0, b, 2 * b + 1]), b0 + rng.choice([0, b, 2 * b + 1])
            a1, b1 = a0 + rng.choice([-1, 0, 1, b, b + 1]), b0 + rng.choice([-1, 0, 1, b, b + 1])
            reqs[-1] = {"suite": "c05", "op": "overlap", "a0": a0, "a1": a1, "b0": b0, "b1": b1}
            want[-1] = bool(slices_overlap(slice(a0, a1), slice(b0, b1)))
        reqs.append({"suite": "c05", "op": "align", "v": v, "a": al})
        want.append(align(v, al))
    for rq, w, g in zip(reqs, want, ctx.lean(reqs)):
        ctx.traces += 1
        if w != g:
            ctx.mismatch("c05.utils", "impl=%r model=%r" % (w, g), rq)
    ctx.tag("utils_pairs")


def run(ctx):
    ctx.extra["rule"] = RULE
    ctx.assumptions += [
        "dict iteration order is insertion order (CPython >= 3.7): the per-chip vertex order is the order of `placements`",
        "claimed for requirements >= 0, alignments >= 1, resource names known to the machine, vertices placed on live chips",
        "ranges are compared as (start, stop) of the returned slice objects"]
    n = ctx.scale(5000, 200000)
    if ctx.extended:
        n = max(n * 4, 40000)
    corpus = []
    here = os.path.dirname(os.path.dirname(os.path.abspath(__file__)))
    for f in sorted(glob.glob(os.path.join(here, "corpus", "C05", "*.json"))):
        corpus.append(json.load(open(f))["case"])
    if corpus:
        eval_cases(ctx, corpus)
    utils_cases(ctx, ctx.scale(500, 5000))
    done = 0
    while done < n:
        k = min(5000, n - done)
        eval_cases(ctx, gen_cases(ctx, k))
        done += k
        if ctx.concrete:
            break


def replay(ctx, payload):
    ctx.extra["rule"] = RULE
    eval_cases(ctx, [payload["case"]], do_shrink=False)
