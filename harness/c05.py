"""C05 - greedy resource allocator: exact correspondence of
rig/place_and_route/allocate/greedy.py (+ allocate/utils.py, the two constraint
classes and Machine.__getitem__) with the Lean model RigModel/Model/C05.lean, and
the Lean specification `Valid` / `Feasible` evaluated on the implementation's own
allocations and exceptions (property oracle)."""
import collections
import copy
import glob
import json
import operator
import os
import time
import types

HANG_LIMIT_S = 5.0    # CPU seconds for ONE allocate() call on an ordinary problem (normal: < 1 ms, i.e. > 1000x)
HANG_LIMIT_BIG_S = 60.0   # ... on a problem of the scale stream (normal: < 0.5 s)
_HANGS = [0]

CLAIM = dict(
    text=("Machine-checked proof (Lean 4) over ALL machines (with per-chip exceptions), vertex sets, placements, "
          "vertex orders, demands (incl. 0), alignments >= 1 and lists of global/local reservations (overlapping, "
          "adjacent, empty, outside the range): every allocation the allocator model returns gives each placed "
          "vertex exactly one range per requested resource, of exactly the requested size, inside [0, capacity of "
          "its chip], starting on the alignment, overlapping no global reservation and no reservation of its chip, "
          "and disjoint from the ranges of every other vertex on that chip (and no vertex/resource pair gets two "
          "ranges); the only error on a documented-domain "
          "input is InsufficientResourceError (the proposal loop provably terminates); and with alignment 1 and "
          "reservations only at the two ends of the range a placement whose demand fits between them - in particular "
          "one that is feasible by the placers' own accounting (capacity minus reserved magnitudes) - always "
          "succeeds.  Tied to greedy.py by exact correspondence (allocations, error kind, failing resource and "
          "chip) on thousands of generated problems per run - quantities from 0 to beyond 2^100 (the model is "
          "over unbounded Int; the JSON protocol carries them exactly), identifiers of any hashable type, every "
          "legal Python kind of each argument, positional / keyword / re-exported entry point - as single calls, "
          "as HISTORIES of 2-6 calls in one process (caller keeps and edits in place what it passed and what it "
          "was handed back, keeps earlier results and looks at them again, twins in both orders, two callers "
          "alternately, calls after failed calls) and on a handful of very large problems; the Lean predicate "
          "`Valid` is run on every allocation the implementation returns and again on every kept allocation "
          "that changed after it was returned."),
    design="3/C05",
    note=("Vertex order per chip = iteration order of the `placements` mapping, passed to the model as a list; a set of "
          "constraints is passed to the model in the order observed just before the call; theorems hold for every "
          "order.  Domain (hypotheses of the theorems, applied to the generators): requirements >= 0, alignments "
          ">= 1, resources known to the machine, vertices on live chips.  Hardening checklist - not applicable here: "
          "byte-string arguments (none in this API); vertices_resources / placements as non-mappings (the code "
          "needs .items() and [] - dict, OrderedDict, dict subclass and mappingproxy are used); `nets` is ignored "
          "by the allocator (passed as [], () and a list of Net objects with a non-default weight; None is not a "
          "documented value); numpy ints only below 2^40 (int64 cannot hold the huge class; numpy's `//` by an "
          "alignment of 0 does not raise, so the malformed stream uses plain ints); optional parameters: "
          "allocate() has none, ReserveResourceConstraint.location is given by default / positionally / by "
          "keyword, Machine's chip_resources both defaulted and given, chip_resource_exceptions, dead_chips, "
          "dead_links given; nothing in the allocator is counted in 8 or 16 bits and nothing is recursive (the "
          "scale stream has > 1000 rounds of the proposal loop, thousands of chips / vertices / constraints "
          "instead); allocate returns a dict, nothing lazy to consume; no connection / callback that could fail - "
          "the only fault is InsufficientResourceError raised half-way, after which histories keep using the same "
          "objects; no simulated machine - per-chip configuration = resource exceptions, which differ between chips "
          "and between the two machines of one history.  Module-level state is reset (greedy.py and utils.py "
          "re-executed in place) before every item, so a replay reproduces; state that a change might put into "
          "machine.py / constraints.py classes is not reset - a history still carries all its calls.  "
          "Translator tie (harness/gen/pyfun.py, regenerated from greedy.py on every run): the WHOLE body of "
          "`allocate` is translated into Gen/PyFun.lean (dicts / dicts of dicts / defaultdicts as association "
          "lists in insertion order, the constraint list as typed records told apart by isinstance, `machine[xy]` "
          "as an environment function, `proposed_allocation` as an optional slice, the `while` loop with fuel; "
          "every loop body a definition of its own) and cross-checked against Python by tools/pyfun_difftest.py.  "
          "Props/C05Gen.lean proves about the generated text, for all inputs: the two reservation scans = the "
          "model's `scan` (gen_scan), one pass of the proposal loop (loop6_step), the whole `while` loop = the "
          "model's `proposeLoop` for every fuel incl. which runs are cut off (gen_propose), and the generated body "
          "of `for resource, requirement in ...` = the model's `allocOne` with that fuel, incl. every error and "
          "the order in which KeyError / IndexError / InsufficientResourceError arise and the pointer update "
          "(gen_allocOne; hypotheses: alignments != 0 - the translator does not model ZeroDivisionError - and the "
          "reservation / alignment dicts hold what the model reads off the constraint list, `Tables`); the "
          "generated constraint collection loop builds exactly such dicts (loop1_step, gen_collect, gen_tables: "
          "globally_reserved / locally_reserved / alignments answer globalRes / localRes / alignment for every "
          "resource and chip, incl. the isinstance dispatch, `location is None`, list order and last-align-wins).  So the "
          "over-allocation test, the alignment of every proposal, the reservation bump, the per-chip lookup key "
          "and the re-alignment after a bump are tied to greedy.py by proof.  The three outer loops and the whole "
          "function are proved too (Props/C05GenTop.lean, C05Group.lean, C05Fuel.lean, C05GenAllocate.lean): the "
          "generated loop over the resources of a vertex = allocResources (gen_resources: same ranges in dict order, "
          "pointers handed on, the break / exception flag), over the vertices of a chip = allocVertices "
          "(gen_vertices, incl. KeyError for a vertex without resources entry), over the chips = allocChips with "
          "fresh pointers per chip (gen_chips, rel_init), the grouping of placements by chip "
          "(`chip_contents[xy].append(vertex)`) = chipOrder / chipVertices (gen_group); fuel independence "
          "(proposeLoop_det, allocateF_det, allocateF_stable: the model run with ONE fuel for every `while` loop is "
          "either cut off or equal to the model, and from some fuel on it is never cut off).  Hence gen_allocate: on "
          "every WellFormed input (mappings are dicts, requirements >= 0, alignments >= 1) the function GENERATED "
          "from greedy.py returns, from some fuel on, exactly what Rig.C05.allocate returns (allocation in dict "
          "order or the exception), and gen_allocate_det: with any positive fuel it returns that or reports a "
          "cut-off loop.  The property theorems are restated about the generated function - about what greedy.py "
          "says at the time of the run: gen_alloc_sound (a returned dict has no None entry and satisfies Valid), gen_alloc_unique, "
          "gen_alloc_only_failure (dict, InsufficientResourceError or cut-off loop; from some fuel on never cut "
          "off, i.e. every `while` loop terminates), gen_alloc_complete.  A change of greedy.py that alters the "
          "meaning of any statement of `allocate` inside the translated subset breaks one of these proofs (or "
          "leaves the subset: then the translator reports it); the verdict logic of the framework then widens the "
          "differential search for a concrete failing input.  Still under differential correspondence only: "
          "Machine.__getitem__ / __contains__ (an environment function of the generated `allocate`; model "
          "Machine.get), the constraint classes' constructors, ZeroDivisionError for alignment 0 (outside the "
          "documented domain), the text of the InsufficientResourceError message."),
    technique="Lean 4 theorems over a hand-written model + differential correspondence + Lean spec as oracle")

THEOREMS = ["overlaps_iff_common", "alloc_sound", "alloc_sound_range", "alloc_unique", "alloc_only_failure",
            "alloc_complete", "alloc_complete_window", "alloc_complete_placer_budget"]
THEOREMS += ['gen_slices_overlap', 'gen_align']   # translator tie: generated function bodies = model (Props/C05Gen.lean)
THEOREMS += ['loop7_step', 'loop8_step', 'gen_scan', 'loop6_step', 'gen_propose', 'gen_allocOne',   # generated body of greedy.allocate (inner loops) = model
             'loop1_step', 'gen_collect', 'gen_tables']   # generated constraint collection loop = globalRes / localRes / alignment
THEOREMS += ['gen_resources', 'gen_vertices', 'gen_chips', 'rel_init', 'gen_group',   # generated outer loops / grouping = allocResources / allocVertices / allocChips / chipOrder
             'proposeLoop_det', 'allocateF_det', 'allocateF_stable',   # fuel independence
             'gen_allocateF', 'gen_allocate_det', 'gen_allocate',   # generated allocate = Rig.C05.allocate
             'gen_alloc_sound', 'gen_alloc_unique', 'gen_alloc_only_failure', 'gen_alloc_complete']   # the property, about the generated function

RULE = ("machines 1-3 x 1-3 with 1-3 resources, per-chip exceptions and dead chips; 1-6 used chips, 0-12 vertices "
        "per chip placed in shuffled (interleaved) order, demands incl. 0 and absent resources; up to 6 global and "
        "6 local reservations per resource (prefix, suffix, interior, adjacent, nested/overlapping, empty, partly "
        "outside the range).  Quantities (capacities, requests, reservation bounds, alignments) in three size "
        "classes over the whole range of Python ints: small (0-64; 66%), medium (2^20-2^27; 8%) and huge (26%: "
        "capacities k*B+-few for B in {2^31, 2^32, 2^53, 2^54, 2^63, 2^64, 2^100}, requests 2^53+-1, 2^53+3, "
        "2^63+1, 2^64+-1, 2^100+1, B+-1, odd random values, so that resource pointers sit on integers no double "
        "represents).  Alignments: 1,2,4,8 and non-powers of two (3,5,6,7,10,12,24,100,1000,1000003), 2^31+1, "
        "2^53+1, 2^64-1, alignments equal to / larger than the resource, repeated align constraints; zero-size "
        "requests under every alignment.  Legal but unusual argument shapes: constraints duplicated, in any "
        "order, passed as list / tuple / one-shot iterator, constraints naming resources the machine lacks or "
        "chips outside the machine, resources named by ints, strings, bytes, tuples, frozensets, rig's sentinels "
        "or plain objects, vertices named by ints, strings, tuples or objects, unplaced vertices.  A stream built "
        "to satisfy the completeness hypothesis (no alignment, reservations at the ends, demand fits exactly or "
        "with slack) and a malformed stream (alignment 0, unknown resource, dead chip, vertex without resources, "
        "negative demand) compared with the model only; slices_overlap / align compared directly on small and "
        "huge integers, positionally and by keyword.  ARGUMENT KINDS (every case draws one of each): quantities "
        "as int / bool+IntEnum / int subclass / numpy.int64; mappings as dict / OrderedDict / dict subclass / "
        "mappingproxy; constraints as list / tuple / iterator / generator / set / frozenset / dict values / "
        "deque; chips as tuple / namedtuple; resources and vertices also as strings containing '%' and '{}', "
        "tuples of length 0-3, namedtuples; Machine and constraint SUBCLASS instances; Machine with its default "
        "chip_resources and with dead_links; constraints built positionally / by keyword; allocate called "
        "positionally / by keyword / through rig.place_and_route.allocate.  HISTORIES (quick 700, thorough "
        "20,000; greedy.py and utils.py re-executed before each item): the same call repeated; twins differing in "
        "one demand / capacity / chip exception / alignment / reservation / vertex position / order, in both "
        "orders, on fresh objects or by editing IN PLACE every object passed before (dicts, inner dicts, the "
        "constraint list and the constraint objects' attributes, the Machine's dicts and sets); two callers "
        "alternately; after 40% of the calls the caller overwrites the allocation it was handed back; every "
        "allocation kept from an earlier call is compared with its snapshot after every later call and edit, "
        "and Lean `Valid` decides whether a changed one is a violation (`kept-result-invalidated`) or only a "
        "mismatch.  SCALE (quick 4, thorough 12): 1xN / Nx1 / 2xN machines with 1,500-4,000 chips; 1,200-2,500 "
        "vertices on one chip; > 1,000 fenced unit gaps (> 1,000 rounds of the proposal loop for one request); "
        "2,000-4,000 constraints about other chips / resources.  Every call runs under common.cpu_limit (5 s, "
        "60 s for the scale stream; 0.5 s / 5 s after three hangs): no return on an in-domain input = "
        "`did-not-return` (theorems propose_no_fuel, alloc_only_failure), any exception other than "
        "InsufficientResourceError (RecursionError, TypeError, OverflowError ...) on an in-domain input = "
        "`undocumented-exception-*`; keys of the result that are no vertex / resource of the caller are shown to "
        "the Lean oracle as a foreign vertex / resource.  Non-trivial: >= 2 ranges of one resource on one chip and "
        "either a gap forced by a reservation/alignment or an InsufficientResourceError raised with reservations "
        "present; distinct = distinct canonical JSON")


# ---------------------------------------------------------------- generators
HUGE_BASES = [2 ** 31, 2 ** 32, 2 ** 53, 2 ** 53, 2 ** 53, 2 ** 54, 2 ** 63, 2 ** 64, 2 ** 64, 2 ** 100]
EDGE_DEMANDS = [2 ** 53 + 1, 2 ** 53 - 1, 2 ** 53 + 3, 2 ** 54 + 2, 2 ** 31 + 1, 2 ** 32 - 1, 2 ** 63 + 1,
                2 ** 64 - 1, 2 ** 64 + 1, 2 ** 100 + 1, 3 * 2 ** 52 + 1]
RES_STYLES = ["int", "str", "str_fmt", "tuple", "namedtuple", "object", "sentinel", "frozenset", "bytes"]
VERTEX_STYLES = ["int", "str", "str_fmt", "tuple", "namedtuple", "frozenset", "object"]
CONTAINERS = ["list", "list", "list", "tuple", "iter", "genexp", "set", "frozenset", "dictvalues", "deque"]
INT_KINDS = ["plain", "plain", "plain", "bool_enum", "subint", "numpy"]
MAPPINGS = ["dict", "dict", "ordered", "subdict", "proxy"]

ResName = collections.namedtuple("ResName", "kind index")
VertexName = collections.namedtuple("VertexName", "index label")
XY = collections.namedtuple("XY", "x y")


class Named(object):
    """an arbitrary hashable user object (identity hash), printable for error messages"""

    def __init__(self, name):
        self.name = name

    def __repr__(self):
        return "<%s>" % self.name


class SubDict(dict):
    """a user subclass of dict"""


class SubInt(int):
    """a user subclass of int"""


_ENUM = []


def quantity(n, kind):
    """the Python number that carries quantity n: plain int, bool / IntEnum member, int subclass, numpy int"""
    if kind == "bool_enum":
        if n in (0, 1):
            return bool(n)
        if 0 <= n < 70:
            if not _ENUM:
                import enum
                _ENUM.append(enum.IntEnum("Quantity", dict(("q%d" % i, i) for i in range(70))))
            return _ENUM[0](n)
    elif kind == "subint":
        return SubInt(n)
    elif kind == "numpy" and -2 ** 40 < n < 2 ** 40:
        import numpy
        return numpy.int64(n)
    return n


def res_object(style, r):
    """the Python object that names resource number r"""
    if style == "int":
        return r
    if style == "str":
        return "res%d" % r
    if style == "str_fmt":
        return "{} %s {0!r} %(x)d res" + str(r)
    if style == "tuple":
        return tuple(["res%d" % r] * (r % 4))      # length 0-3
    if style == "namedtuple":
        return ResName("res", r)
    if style == "frozenset":
        return frozenset([("res", r)])
    if style == "bytes":
        return b"res%d" % r
    if style == "sentinel":
        from rig.place_and_route.machine import Cores, SDRAM, SRAM
        if r < 3:
            return (Cores, SDRAM, SRAM)[r]
    return Named("res%d" % r)


def vertex_object(style, v):
    if style == "int":
        return v
    if style == "str":
        return "v%d" % v
    if style == "str_fmt":
        return "%s {} {1} %d v" + str(v)
    if style == "tuple":
        return (v, "vertex", None)[:1 + v % 3]      # length 1-3
    if style == "namedtuple":
        return VertexName(v, "v")
    if style == "frozenset":
        return frozenset([v, "v"])
    return Named("v%d" % v)


def gen_reservations(rng, cap, n, ends_only):
    """n reservation slices for a range [0, cap)"""
    out = []
    for _ in range(n):
        k = rng.random()
        if ends_only:
            if k < 0.45:
                out.append((0, rng.randint(0, max(0, cap // 3))))
            elif k < 0.9:
                out.append((cap - rng.randint(0, max(0, cap // 3)), cap))
            else:
                a = rng.randint(0, cap)
                out.append((a, a))          # empty
            continue
        if k < 0.2:
            out.append((0, rng.randint(0, max(0, cap // 2))))
        elif k < 0.4:
            out.append((rng.randint(0, cap), cap))
        elif k < 0.55 and out:
            # adjacent to / nested in / overlapping an earlier one
            a, b = rng.choice(out)
            m = rng.random()
            if m < 0.4:
                out.append((b, b + rng.randint(0, 4)))
            elif m < 0.7:
                out.append((max(0, a - rng.randint(0, 3)), a))
            else:
                out.append((a + rng.randint(0, 2), b + rng.randint(-2, 3)))
        elif k < 0.62:
            a = rng.randint(0, cap)
            out.append((a, a))              # empty
        elif k < 0.66:
            a = rng.randint(0, cap)
            out.append((a, a - rng.randint(1, 3)))   # reversed = empty
        elif k < 0.70:
            out.append((-rng.randint(1, 3), rng.randint(0, 3)))  # partly below 0
        elif k < 0.74:
            out.append((cap - rng.randint(0, 3), cap + rng.randint(1, 4)))  # partly above
        else:
            a = rng.randint(0, cap)
            out.append((a, min(cap + 1, a + rng.randint(1, max(1, cap // 4)))))
    return out


def gen_case(rng, mode):
    """mode: 'general' | 'ends' | 'malformed' | 'single'"""
    w, h = rng.randint(1, 3), rng.randint(1, 3)
    nres = rng.randint(1, 3)
    # size class of the quantities of this problem: resources are plain Python ints of any size
    zc = rng.random()
    if zc < 0.66:
        scale = "small"
        capset = [0, 1, 2, 5, 8, 16, 17, 18, 31, 40, 64]
        alignset = [1, 2, 4, 8, 3, 2, 4, 5, 6, 7, 12, 100]
    elif zc < 0.74:
        scale = "medium"
        capset = [2 ** 20, 2 ** 27, 1000003, 2 ** 27, 2 ** 20 + 1, 2 ** 27]
        alignset = [1, 2, 4, 8, 3, 7, 1000, 4096, 1000003, 2 ** 27 + 1]
    else:
        scale = "huge"
        base = rng.choice(HUGE_BASES)
        capset = [base + k for k in (-3, -1, 0, 0, 1, 2, 5)] + [2 * base + 1, 3 * base, 4 * base, 4 * base + 7]
        alignset = [1, 1, 2, 3, 4, 5, 6, 7, 8, 10, 12, 24, 1000, 4096, 1000003,
                    2 ** 31, 2 ** 31 + 1, 2 ** 32, 2 ** 53, 2 ** 53 + 1, 2 ** 64 - 1,
                    base, base + 1, base // 3 + 1, 4 * base + 8, 2 ** 101]
    chip_resources = [[r, rng.choice(capset[2:] if rng.random() < 0.9 else capset)] for r in range(nres)]
    if rng.random() < 0.3:
        rng.shuffle(chip_resources)
    machine_defaults = mode != "malformed" and rng.random() < 0.05
    if machine_defaults:
        # Machine(width, height) with its DEFAULT chip_resources {Cores: 18, SDRAM: 128 MiB, SRAM: 32 KiB}
        scale, nres = "medium", 3
        capset = [18, 2 ** 27, 2 ** 15, 17, 1, 0, 2 ** 20]
        alignset = [1, 2, 4, 8, 3, 1000, 4096]
        chip_resources = [[0, 18], [1, 128 * 1024 * 1024], [2, 32 * 1024]]
    all_chips = [(x, y) for x in range(w) for y in range(h)]
    dead = [c for c in all_chips if rng.random() < 0.1] if len(all_chips) > 1 else []
    live = [c for c in all_chips if c not in dead] or [all_chips[0]]
    dead = [c for c in dead if c not in live]
    exceptions = []
    for c in live:
        if rng.random() < 0.3:
            exceptions.append([list(c), [[r, rng.choice(capset)] for r, _ in chip_resources]])

    def cap_of(c, r):
        for cc, rs in exceptions:
            if tuple(cc) == c:
                return dict(map(tuple, rs))[r]
        return dict(map(tuple, chip_resources))[r]

    single = mode == "single"
    used = rng.sample(live, min(len(live), 1 if single else rng.randint(1, 6)))
    ends = mode == "ends"
    constraints = []
    # alignments
    aligns = {}
    if not ends:
        for r in range(nres):
            if rng.random() < 0.45:
                for _ in range(1 if rng.random() < 0.8 else 2):
                    a = rng.choice(alignset)
                    aligns[r] = a
                    constraints.append({"k": "align", "res": r, "a": a})
    elif rng.random() < 0.3:
        constraints.append({"k": "align", "res": rng.randrange(nres), "a": 1})
    # reservations
    for r in range(nres):
        base_cap = dict(map(tuple, chip_resources))[r]
        if rng.random() < 0.6:
            n = rng.choice([1, 1, 2, 2, 3, 4, 6])
            for a, b in gen_reservations(rng, base_cap, n, ends and rng.random() < 0.95):
                constraints.append({"k": "reserve", "res": r, "start": a, "stop": b, "loc": None})
        for c in used:
            if rng.random() < 0.4:
                n = rng.choice([1, 1, 2, 3, 6])
                for a, b in gen_reservations(rng, cap_of(c, r), n, ends and rng.random() < 0.95):
                    constraints.append({"k": "reserve", "res": r, "start": a, "stop": b, "loc": list(c)})
        if rng.random() < 0.1 and len(live) > len(used):
            c = rng.choice([c for c in live if c not in used])
            constraints.append({"k": "reserve", "res": r, "start": 0, "stop": 3, "loc": list(c)})
    if rng.random() < 0.2:
        constraints.append({"k": "other"})
    if constraints and rng.random() < 0.25:
        for _ in range(rng.choice([1, 1, 2])):
            constraints.append(dict(rng.choice(constraints)))       # duplicated constraint
    if rng.random() < 0.12:
        # constraints naming a resource the machine does not have / a chip outside the machine
        constraints.append({"k": "reserve", "res": 5, "start": 0, "stop": 4, "loc": None})
        constraints.append({"k": "align", "res": 6, "a": rng.choice([2, 3, 2 ** 53 + 1])})
        constraints.append({"k": "reserve", "res": 0, "start": 0, "stop": rng.choice(capset) + 1,
                            "loc": [w + 1, h]})
    rng.shuffle(constraints)

    # vertices
    vr, placements = [], []
    vid = 0
    for c in used:
        nv = rng.choice([0, 1, 1, 2, 2, 3, 4, 5, 7, 12]) if not single else rng.randint(2, 12)
        # budget per resource: roughly what is free
        budget = {}
        for r in range(nres):
            cap = cap_of(c, r)
            resv = [(x["start"], x["stop"]) for x in constraints
                    if x["k"] == "reserve" and x["res"] == r and (x["loc"] is None or tuple(x["loc"]) == c)]
            if ends:
                lo = max([0] + [b for a, b in resv if a < b and a <= 0])
                hi = min([cap] + [a for a, b in resv if a < b and a > 0])
                budget[r] = hi - lo
            else:
                budget[r] = cap - sum(max(0, min(b, cap) - max(a, 0)) for a, b in resv)
        tight = rng.random()
        for i in range(nv):
            rs = []
            order = list(range(nres))
            if rng.random() < 0.3:
                rng.shuffle(order)
            for r in order:
                if rng.random() < 0.8:
                    left = budget[r]
                    z = rng.random()
                    if z < 0.15 or left <= 0:
                        d = 0
                    elif i == nv - 1 and tight < 0.35:
                        d = left            # fill exactly
                    elif tight > 0.85 and z > 0.8:
                        d = left + rng.randint(1, 3)    # over-demand
                    elif scale == "huge" and z < 0.5:
                        # leave the pointer on values that no double represents exactly
                        d = rng.choice(EDGE_DEMANDS + [base + 1, base - 1, base // 2 + 1, 1, 3, 5])
                        if d > left and rng.random() < 0.9:
                            d = rng.randint(0, left) | 1
                            d = d if d <= left else left
                    else:
                        d = rng.randint(0, max(1, left // max(1, nv - i)))
                        if not ends and r in aligns and rng.random() < 0.5:
                            d = d // aligns[r] * aligns[r] + rng.choice([0, 0, 1])
                    if ends and d > left:
                        d = max(0, left)
                    if ends or d <= left:
                        budget[r] -= min(d, max(left, 0))
                    rs.append([r, d])
            vr.append([vid, rs])
            placements.append([vid, list(c)])
            vid += 1
    if rng.random() < 0.1:
        vr.append([vid, [[0, 1]]])      # a vertex that is not placed
        vid += 1
    rng.shuffle(placements)
    if rng.random() < 0.5:
        rng.shuffle(vr)
    case = {"vr": vr,
            "machine": {"width": w, "height": h, "chip_resources": chip_resources,
                        "exceptions": exceptions, "dead": [list(c) for c in dead]},
            "constraints": constraints, "placements": placements, "mode": mode, "scale": scale,
            # how the identifiers are spelled on the Python side (any hashable is legal)
            "names": {"res": [rng.choice(RES_STYLES) if not machine_defaults else "sentinel" for _ in range(8)],
                      "vertex": rng.choice(VERTEX_STYLES),
                      "containers": rng.choice(CONTAINERS)},
            # in which Python kinds the arguments are passed (all legal for the API)
            "kinds": {"ints": rng.choice(INT_KINDS) if scale != "huge" else rng.choice(["plain", "plain", "subint"]),
                      "mapping": rng.choice(MAPPINGS),
                      "subclass": rng.random() < 0.3,
                      "nets": rng.choice(["empty", "empty", "nets", "tuple"]),
                      "call": rng.choice(["positional", "positional", "keyword", "alias"]),
                      "xy": rng.choice(["tuple", "tuple", "namedtuple"]),
                      "reserve_kw": rng.random() < 0.4,
                      "machine_defaults": machine_defaults,
                      "dead_links": rng.random() < 0.3}}
    if mode == "malformed":
        what = rng.choice(["align0", "unknown-res", "dead-chip", "missing-vr", "neg-demand", "outside"])
        case["malformed"] = what
        if what == "align0":
            case["constraints"].append({"k": "align", "res": rng.randrange(nres), "a": 0})
        elif what == "unknown-res" and vr:
            rng.choice(vr)[1].append([7, rng.randint(0, 2)])
        elif what == "dead-chip" and placements:
            d = dead[0] if dead else (w + 1, 0)
            if not dead:
                pass
            rng.choice(placements)[1] = list(d)
        elif what == "outside" and placements:
            rng.choice(placements)[1] = [w, rng.randrange(h)] if rng.random() < 0.5 else [-1, 0]
        elif what == "missing-vr" and placements:
            v = rng.choice(placements)[0]
            case["vr"] = [q for q in vr if q[0] != v]
        elif what == "neg-demand" and vr:
            q = rng.choice(vr)
            if q[1]:
                rng.choice(q[1])[1] = -rng.randint(1, 3)
    return case


# ---------------------------------------------------------------- implementation
DEFAULT_NAMES = {"res": ["int"] * 8, "vertex": "int", "containers": "list"}
DEFAULT_KINDS = {"ints": "plain", "mapping": "dict", "subclass": False, "nets": "empty", "call": "positional",
                 "xy": "tuple", "reserve_kw": False, "machine_defaults": False, "dead_links": False}
_CLASSES = {}


def rig_classes():
    """rig's classes and user SUBCLASSES of them (an API taking a Machine takes a subclass instance)"""
    if not _CLASSES:
        from rig.place_and_route.machine import Machine
        from rig.place_and_route.constraints import (
            ReserveResourceConstraint, AlignResourceConstraint, RouteEndpointConstraint)

        class MyMachine(Machine):
            pass

        class MyReserve(ReserveResourceConstraint):
            pass

        class MyAlign(AlignResourceConstraint):
            pass
        _CLASSES.update(Machine=Machine, Reserve=ReserveResourceConstraint, Align=AlignResourceConstraint,
                        Other=RouteEndpointConstraint, MyMachine=MyMachine, MyReserve=MyReserve, MyAlign=MyAlign)
    return _CLASSES


_CODES = []


def get_allocate(fresh=True):
    """the implementation's entry point.  `fresh`: greedy.py and utils.py (the anchored files) are executed
    again IN their module namespaces, so every item (single call or history) starts from pristine
    module-level state and a replay of the item alone reproduces what the run saw (22 us per item)."""
    import importlib
    u = importlib.import_module("rig.place_and_route.allocate.utils")
    g = importlib.import_module("rig.place_and_route.allocate.greedy")
    if fresh:
        if not _CODES:
            for m in (u, g):
                _CODES.append((m, compile(open(m.__file__).read(), m.__file__, "exec")))
        for m, code in _CODES:
            d = m.__dict__
            for k in [k for k in d if not (k.startswith("__") and k.endswith("__"))]:
                del d[k]
            exec(code, d)
    return g.allocate


class Objs(object):
    """the Python argument objects of one caller (kept between the calls of a history)"""

    def __init__(self, case):
        self.names = case.get("names") or DEFAULT_NAMES
        self.kinds = dict(DEFAULT_KINDS, **(case.get("kinds") or {}))
        self.robj, self.vobj = {}, {}
        self.inner = {}         # vertex number -> the (base) dict of its resources
        self.exc_inner = {}     # chip -> the dict of its exception entry
        self.cons = []          # the caller's list of constraint objects
        self.vr_base = self._newmap()
        self.pl_base = self._newmap()
        self.machine = None
        self.sync(case)

    # -- identifiers and numbers
    def R(self, r):
        if r not in self.robj:
            self.robj[r] = res_object(self.names["res"][r % len(self.names["res"])], r)
        return self.robj[r]

    def V(self, v):
        if v not in self.vobj:
            self.vobj[v] = vertex_object(self.names["vertex"], v)
        return self.vobj[v]

    def Q(self, n):
        return quantity(n, self.kinds["ints"])

    def XY(self, xy):
        return XY(*xy) if self.kinds["xy"] == "namedtuple" else tuple(xy)

    def _newmap(self):
        k = self.kinds["mapping"]
        return collections.OrderedDict() if k == "ordered" else SubDict() if k == "subdict" else {}

    def _view(self, d):
        return types.MappingProxyType(d) if self.kinds["mapping"] == "proxy" else d

    # -- make the objects describe `case`, editing IN PLACE whatever already exists
    def sync(self, case):
        C = rig_classes()
        sub = self.kinds["subclass"]
        m = case["machine"]
        cr = [(self.R(r), self.Q(c)) for r, c in m["chip_resources"]]
        if self.machine is None:
            kw = {}
            if not self.kinds["machine_defaults"]:
                kw["chip_resources"] = dict(cr)
            if self.kinds["dead_links"]:
                from rig.links import Links
                kw["dead_links"] = set([(0, 0, Links.north), (m["width"] - 1, 0, Links.east)])
            self.machine = (C["MyMachine"] if sub else C["Machine"])(m["width"], m["height"], **kw)
        mach = self.machine
        mach.width, mach.height = m["width"], m["height"]
        if not self.kinds["machine_defaults"] or dict(mach.chip_resources) != dict(cr):
            mach.chip_resources.clear()
            mach.chip_resources.update(cr)
        keep = {}
        for xy, rs in m["exceptions"]:
            d = self.exc_inner.get(tuple(xy))
            if d is None:
                d = {}
            d.clear()
            d.update((self.R(r), self.Q(c)) for r, c in rs)
            keep[tuple(xy)] = d
        self.exc_inner = keep
        mach.chip_resource_exceptions.clear()
        mach.chip_resource_exceptions.update(keep)
        mach.dead_chips.clear()
        mach.dead_chips.update(tuple(c) for c in m["dead"])
        # constraints: objects are re-used position by position, their attributes edited
        new = []
        for i, c in enumerate(case["constraints"]):
            old = self.cons[i] if i < len(self.cons) else None
            if c["k"] == "reserve":
                loc = None if c["loc"] is None else self.XY(c["loc"])
                sl = slice(self.Q(c["start"]), self.Q(c["stop"]))
                if isinstance(old, C["Reserve"]):
                    old.resource, old.reservation, old.location = self.R(c["res"]), sl, loc
                else:
                    cls = C["MyReserve"] if sub else C["Reserve"]
                    if self.kinds["reserve_kw"]:
                        old = cls(resource=self.R(c["res"]), reservation=sl, location=loc)
                    elif loc is None:
                        old = cls(self.R(c["res"]), sl)
                    else:
                        old = cls(self.R(c["res"]), sl, loc)
            elif c["k"] == "align":
                if isinstance(old, C["Align"]):
                    old.resource, old.alignment = self.R(c["res"]), self.Q(c["a"])
                elif self.kinds["reserve_kw"]:
                    old = (C["MyAlign"] if sub else C["Align"])(resource=self.R(c["res"]), alignment=self.Q(c["a"]))
                else:
                    old = (C["MyAlign"] if sub else C["Align"])(self.R(c["res"]), self.Q(c["a"]))
            elif not isinstance(old, C["Other"]):
                from rig.routing_table import Routes
                old = C["Other"](object(), Routes.north)
            new.append(old)
        self.cons[:] = new
        # vertices_resources / placements
        inner = {}
        self.vr_base.clear()
        for v, rs in case["vr"]:
            d = self.inner.get(v)
            if d is None:
                d = self._newmap()
            d.clear()
            for r, q in rs:
                d[self.R(r)] = self.Q(q)
            inner[v] = d
            self.vr_base[self.V(v)] = self._view(d)
        self.inner = inner
        self.pl_base.clear()
        for v, xy in case["placements"]:
            self.pl_base[self.V(v)] = self.XY(xy)

    def constraints_arg(self):
        """(the object passed as `constraints`, the order in which it yields the caller's constraints)"""
        k = self.names["containers"]
        base = self.cons
        if k == "list":
            return base, list(range(len(base)))
        if k == "tuple":
            return tuple(base), list(range(len(base)))
        if k == "iter":
            return iter(base), list(range(len(base)))
        if k == "genexp":
            return (c for c in base), list(range(len(base)))
        if k == "deque":
            return collections.deque(base), list(range(len(base)))
        if k == "dictvalues":
            return dict(enumerate(base)).values(), list(range(len(base)))
        # set / frozenset of the constraint objects: the iteration order is whatever the set gives; it
        # is observed here (iterating an unmodified set twice gives the same order) and handed to the model
        st = set(base) if k == "set" else frozenset(base)
        pos = {}
        for i, c in enumerate(base):
            pos.setdefault(id(c), i)
        order = [pos[id(c)] for c in st]
        return st, order

    def nets_arg(self):
        k = self.kinds["nets"]
        if k == "tuple":
            return ()
        if k == "nets" and len(self.vobj) >= 1:
            from rig.netlist import Net
            vs = list(self.vobj.values())
            return [Net(vs[0], vs[1:3]), Net(vs[-1], vs[0], 2.5)]
        return []

    def back(self, table, o):
        for k, oo in table.items():
            if oo is o:
                return k
        for k, oo in table.items():
            if type(oo) is type(o) and oo == o:
                return k
        return None


def canon_out(objs, out):
    """canonical form of an allocation object: {"ok": [[v, [[res, start, stop], ...]], ...]} (+ "bad")"""
    if not isinstance(out, dict):
        return {"ok": None, "bad": "result is not a dict: %r" % (out,)}
    rid = dict((id(o), r) for r, o in objs.robj.items())
    vid = dict((id(o), v) for v, o in objs.vobj.items())
    res, bad = [], None
    for vo, va in out.items():
        v = vid.get(id(vo))
        if v is None:
            v = objs.back(objs.vobj, vo)
        if v is None:
            v = UNKNOWN_VERTEX      # a key that is no vertex of the caller: the Lean oracle sees a foreign vertex
        if not isinstance(va, dict):
            bad = "the value for vertex %r is not a dict: %r" % (vo, va)
            continue
        row = []
        for ro, sl in va.items():
            r = rid.get(id(ro))
            if r is None:
                r = objs.back(objs.robj, ro)
            if r is None:
                r = UNKNOWN_RESOURCE        # likewise: a range for something that is no resource
            try:
                if not isinstance(sl, slice) or sl.step not in (None, 1):
                    raise TypeError
                row.append([r, operator.index(sl.start), operator.index(sl.stop)])
            except TypeError:
                bad = "vertex %r resource %r: not a contiguous integer range: %r" % (vo, ro, sl)
        res.append([v, sorted(row)])
    r = {"ok": sorted(res)}
    if bad:
        r["bad"] = bad
    return r


UNKNOWN_VERTEX = 10 ** 9 + 7
UNKNOWN_RESOURCE = 10 ** 9 + 9


def invoke(objs, case, allocate, limit=None, big=False):
    """ONE call of the implementation with the caller's current objects.
    Returns (canonical result, raw result object or None, constraint order seen by the callee)."""
    from harness import common
    from rig.place_and_route.exceptions import InsufficientResourceError
    cons, order = objs.constraints_arg()
    args = [objs._view(objs.vr_base), objs.nets_arg(), objs.machine, cons, objs._view(objs.pl_base)]
    how = objs.kinds["call"]
    if limit is None:
        limit = (HANG_LIMIT_BIG_S if big else HANG_LIMIT_S) if _HANGS[0] < 3 else (5.0 if big else 0.5)
    try:
        with common.cpu_limit(limit):
            if how == "keyword":
                out = allocate(vertices_resources=args[0], nets=args[1], machine=args[2],
                               constraints=args[3], placements=args[4])
            elif how == "alias":
                import rig.place_and_route
                out = rig.place_and_route.allocate(*args)
            else:
                out = allocate(*args)
    except common.ImplHang as e:
        _HANGS[0] += 1
        return {"err": "DidNotReturn", "where": str(e), "limit": limit}, None, order
    except InsufficientResourceError as e:
        r = {"err": "InsufficientResourceError"}
        # "{resource} over-allocated on chip {xy}": find which resource / chip it names
        msg = str(e)
        seen = set()
        for _, xy in case["placements"]:
            if tuple(xy) in seen:
                continue
            seen.add(tuple(xy))
            for rr, o in objs.robj.items():
                if msg == "{} over-allocated on chip {}".format(o, objs.XY(xy)):
                    r["res"] = rr
                    r["xy"] = list(xy)
        return r, None, order
    except (KeyError, IndexError, ZeroDivisionError) as e:
        return {"err": type(e).__name__}, None, order
    except (ImportError, SyntaxError):
        raise
    except Exception as e:      # anything else: reported by type
        import traceback
        tb = traceback.extract_tb(e.__traceback__)
        return {"err": "Other:" + type(e).__name__,
                "where": "%s:%s" % (tb[-1].name, tb[-1].lineno) if tb else ""}, None, order
    return canon_out(objs, out), out, order


def scribble(out):
    """the caller edits, in place, the allocation it was handed back (deterministic)"""
    if not isinstance(out, dict):
        return
    for i, (v, va) in enumerate(list(out.items())):
        if isinstance(va, dict):
            for r in list(va):
                va[r] = slice(0, 7) if i % 2 == 0 else slice(3, 10 ** 9)
            va["scribbled"] = slice(1, 2)
        if i % 3 == 2:
            del out[v]
    out["scribbled"] = {"x": slice(0, 1)}


def canon_model(rep):
    if "ok" in rep:
        return {"ok": sorted([v, sorted(va)] for v, va in rep["ok"])}
    return rep


def lean_input(case, order=None):
    d = {k: case[k] for k in ("vr", "machine", "constraints", "placements")}
    if order is not None and order != list(range(len(d["constraints"]))):
        d["constraints"] = [case["constraints"][i] for i in order]
    return d


def gaps(case, ok):
    """(has two ranges of one resource on one chip, has a forced gap)"""
    place = dict((v, tuple(xy)) for v, xy in case["placements"])
    by = {}
    for v, va in ok:
        for r, a, b in va:
            by.setdefault((place.get(v), r), []).append((a, b))
    two = gap = False
    for k, l in by.items():
        l.sort()
        if len(l) >= 2:
            two = True
        p = 0
        for a, b in l:
            if a != p:
                gap = True
            p = b
    return two, gap


def is_big(case):
    return len(case["placements"]) > 300 or len(case["constraints"]) > 300


def steps_of(item):
    """an item of a stream is one case (a history of one fresh call) or {"history": [step, ...]};
    step = {"case": case, "how": "fresh" | "sync" | "same" | "alt", "scribble": bool}"""
    if "history" in item:
        return item["history"]
    return [{"case": item, "how": "fresh", "scribble": False}]


def run_history(item, limit=None):
    """run the calls of one history on the implementation.  Returns a list of records
    {"step", "case", "impl", "order", "changed": [(index of an earlier call, its result now)]}"""
    steps = steps_of(item)
    hist = "history" in item
    allocate = get_allocate()
    sets = {}
    kept = []       # [record index, objs, raw object, canonical snapshot]
    recs = []
    for i, st in enumerate(steps):
        case = st["case"]
        if hist:
            case = dict(case, _in_history=True)
        which = 1 if st["how"] == "alt" else 0
        if st["how"] == "fresh" or which not in sets:
            sets[which] = Objs(case)
        elif st["how"] != "same":
            sets[which].sync(case)      # the caller edits the objects it passed before, in place
        objs = sets[which]
        impl, raw, order = invoke(objs, case, allocate, limit, big=is_big(case))
        rec = {"step": i, "case": st["case"], "impl": impl, "order": order, "changed": [], "how": st["how"],
               "scribble": bool(st.get("scribble"))}
        recs.append(rec)
        if impl.get("err") == "DidNotReturn":
            break

        def recheck():
            for k in kept:
                if k[2] is None:
                    continue
                now = canon_out(k[1], k[2])
                if now != k[3]:
                    rec["changed"].append((k[0], now))
                    k[2] = None         # reported once
        recheck()       # (c) results kept from earlier calls, looked at again after this call
        if raw is not None:
            if st.get("scribble"):
                scribble(raw)   # (b) the caller edits what it was handed back ...
                recheck()       # ... which must not reach the other results it keeps
            else:
                kept.append([i, objs, raw, {k: v for k, v in impl.items()}])
    return recs


def judge_items(ctx, items, limit=None):
    """Run implementation, model and the Lean oracles on every call of every item.  Returns, per item,
    the list of per-call verdicts {viol: [(key, what)], mismatch, tags, nontriv, case}."""
    runs = []
    for it in items:
        runs.append(run_history(it, limit))
        if _HANGS[0] >= 8 and any(r["impl"].get("err") == "DidNotReturn" for r in runs[-1]) and len(runs) >= 3:
            break       # every call hangs: do not burn the budget (the rest of the batch is dropped)
    reqs = []
    for recs in runs:
        for rec in recs:
            inp = lean_input(rec["case"], rec["order"])
            reqs.append(dict(inp, suite="c05", op="allocate"))
            reqs.append(dict(inp, suite="c05", op="hyps_domain" if is_big(rec["case"]) else "hyps"))
            if rec["impl"].get("ok") is not None:
                reqs.append(dict(inp, suite="c05", op="valid", out=rec["impl"]["ok"]))
            for k, now in rec["changed"]:
                if now.get("ok") is not None:
                    reqs.append(dict(lean_input(recs[k]["case"], recs[k]["order"]), suite="c05", op="valid",
                                     out=now["ok"]))
    reps = iter(ctx.lean(reqs))
    out = []
    for recs in runs:
        vs = []
        out.append(vs)
        doms = []
        for rec in recs:
            c, impl = rec["case"], rec["impl"]
            model = canon_model(next(reps))
            hyps = next(reps)
            valid = next(reps) if impl.get("ok") is not None else None
            v = {"viol": [], "mismatch": None, "tags": [], "nontriv": False, "case": c}
            vs.append(v)
            in_dom = hyps["well_formed"] and hyps["in_domain"]
            doms.append(in_dom)
            cmp_impl = {k: x for k, x in impl.items() if k not in ("bad", "where", "limit")}
            if cmp_impl.get("err") == "InsufficientResourceError" and "res" not in cmp_impl:
                model_cmp = {"err": model.get("err")} if "err" in model else model
            else:
                model_cmp = model
            if cmp_impl != model_cmp and not (impl.get("err") == "DidNotReturn" and in_dom):
                v["mismatch"] = "impl=%r model=%r" % (impl, model)
            nresv = sum(1 for x in c["constraints"] if x["k"] == "reserve")
            kinds = dict(DEFAULT_KINDS, **(c.get("kinds") or {}))
            names = c.get("names") or DEFAULT_NAMES
            v["tags"] += ["mode_" + c.get("mode", "?"), "domain_" + ("in" if in_dom else "out"),
                          "scale_" + c.get("scale", "corpus"),
                          "vertex_named_by_" + names["vertex"], "constraints_as_" + names["containers"],
                          "ints_as_" + kinds["ints"], "mappings_as_" + kinds["mapping"], "nets_" + kinds["nets"],
                          "call_" + kinds["call"], "xy_as_" + kinds["xy"]]
            for flag in ("subclass", "reserve_kw", "machine_defaults", "dead_links"):
                if kinds[flag]:
                    v["tags"].append("with_" + flag)
            for st_ in set(names["res"][:3]):
                v["tags"].append("resource_named_by_" + st_)
            if rec["order"] != list(range(len(c["constraints"]))):
                v["tags"].append("constraint_order_observed_from_set")
            if len(recs) > 1:
                v["tags"] += ["history_call", "history_step_" + rec["how"]]
                if rec["scribble"]:
                    v["tags"].append("history_result_scribbled")
                if rec["step"] > 0 and "err" in recs[rec["step"] - 1]["impl"]:
                    v["tags"].append("history_call_after_failed_call")
            if any(x["k"] == "align" and x["a"] not in (1, 2, 4, 8) for x in c["constraints"]):
                v["tags"].append("alignment_not_small_power_of_two")
            if hyps["feasible"] and in_dom:
                v["tags"].append("completeness_hypothesis_holds")
            if "ok" in impl:
                v["tags"].append("result_ok")
                if impl.get("bad"):
                    if in_dom:
                        v["viol"].append(("not-a-range", impl["bad"]))
                elif in_dom:
                    if not valid["valid"]:
                        failed = [k for k in ("same_keys", "served", "justified", "disjoint") if not valid[k]]
                        v["viol"].append(("invalid-allocation-" + "+".join(failed),
                                          "allocation violates the property (Lean `Valid` false; failed clauses "
                                          "%s): %s" % (failed, short(impl["ok"]))))
                    two, gap = gaps(c, impl["ok"])
                    v["nontriv"] = two and gap
                    if gap:
                        v["tags"].append("forced_gap")
                    if any(a == b for _, va in impl["ok"] for _, a, b in va):
                        v["tags"].append("zero_size_range")
                    if any(a > 2 ** 53 and a % 2 == 1 for _, va in impl["ok"] for _, a, b in va):
                        v["tags"].append("range_starts_on_odd_value_above_2^53")
            else:
                v["tags"].append("result_" + impl["err"].split(":")[0])
                if in_dom:
                    if impl["err"] == "DidNotReturn":
                        v["viol"].append(("did-not-return",
                                          "allocate did not return within %.1f s of CPU time on an in-domain input "
                                          "(%s; the model's loop provably terminates: propose_no_fuel, "
                                          "alloc_only_failure)" % (impl.get("limit", 0), impl.get("where", ""))))
                    elif impl["err"] != "InsufficientResourceError":
                        v["viol"].append(("undocumented-exception-" + impl["err"],
                                          "allocate raised %s %s on an in-domain input; the only documented failure "
                                          "is InsufficientResourceError" % (impl["err"], impl.get("where", ""))))
                    elif hyps["feasible"]:
                        v["viol"].append(("completeness",
                                          "InsufficientResourceError although there is no alignment, reservations "
                                          "are only at the ends of the ranges and the demand fits between them "
                                          "(Lean `Feasible` true): %r" % (impl,)))
                    v["nontriv"] = nresv > 0 and len(c["placements"]) >= 2
            # results the caller kept from earlier calls and found changed after this one
            for k, now in rec["changed"]:
                v["tags"].append("kept_result_changed")
                ok_now = next(reps)["valid"] if now.get("ok") is not None else False
                what = ("the allocation returned by call %d of the history is no longer what was returned after "
                        "call %d%s: now %s" % (k, rec["step"], " and the caller's edit of that call's result"
                                               if rec["scribble"] else "", short(now)))
                if doms[k] and not ok_now:
                    v["viol"].append(("kept-result-invalidated", what + " (Lean `Valid` false on it)"))
                else:
                    v["mismatch"] = (v["mismatch"] or "") + " kept result changed: " + what
    return out


def short(x, n=600):
    s = repr(x)
    return s if len(s) <= n else s[:n] + "... (%d characters)" % len(s)


# ---------------------------------------------------------------- shrinking
def candidates(case):
    """cases obtained by deleting / simplifying one element (blocks of elements while the case is large)"""
    out = []

    def variant(f):
        c = copy.deepcopy(case)
        f(c)
        out.append(c)
    npl, ncs = len(case["placements"]), len(case["constraints"])
    if npl > 40 or ncs > 40:
        for n, key in ((npl, "placements"), (ncs, "constraints")):
            size = n // 2
            while size >= 8 and n > 40:
                for a in range(0, n, size):
                    def drop_block(c, a=a, size=size, key=key):
                        gone = c[key][a:a + size]
                        del c[key][a:a + size]
                        if key == "placements":
                            vs = set(v for v, _ in gone)
                            c["vr"] = [q for q in c["vr"] if q[0] not in vs]
                    variant(drop_block)
                size //= 2
        return out
    for i in range(npl):
        v = case["placements"][i][0]

        def drop_vertex(c, i=i, v=v):
            del c["placements"][i]
            c["vr"] = [q for q in c["vr"] if q[0] != v]
        variant(drop_vertex)
    placed = set(v for v, _ in case["placements"])
    for i, q in enumerate(case["vr"]):
        if q[0] not in placed:
            variant(lambda c, i=i: c["vr"].pop(i))
        for k in range(len(q[1])):
            variant(lambda c, i=i, k=k: c["vr"][i][1].pop(k))
    for i in range(ncs):
        variant(lambda c, i=i: c["constraints"].pop(i))
    for i in range(len(case["machine"]["exceptions"])):
        variant(lambda c, i=i: c["machine"]["exceptions"].pop(i))
    for i in range(len(case["machine"]["dead"])):
        variant(lambda c, i=i: c["machine"]["dead"].pop(i))
    for i, q in enumerate(case["vr"]):
        for k, (r, d) in enumerate(q[1]):
            if d > 1:
                variant(lambda c, i=i, k=k, d=d: c["vr"][i][1][k].__setitem__(1, d // 2))
                variant(lambda c, i=i, k=k, d=d: c["vr"][i][1][k].__setitem__(1, d - 1))
    if case.get("kinds") and case["kinds"] != DEFAULT_KINDS:
        variant(lambda c: c.__setitem__("kinds", dict(DEFAULT_KINDS)))
    if case.get("names") and case["names"] != DEFAULT_NAMES:
        variant(lambda c: c.__setitem__("names", copy.deepcopy(DEFAULT_NAMES)))
    return out


def has_key(verdicts, key):
    return any(k == key for v in verdicts for k, _ in v["viol"])


def shrink_case(ctx, case, key, budget_s=25.0):
    """greedy delta debugging: keep deleting while the same finding key is reported"""
    t0 = time.time()
    cur = case
    while time.time() - t0 < budget_s:
        cands = candidates(cur)
        if not cands:
            break
        nxt = None
        for k in range(0, len(cands), 40):
            part = cands[k:k + 40]
            vs = judge_items(ctx, part, limit=5.0 if is_big(cur) else 0.5)
            for c, v in zip(part, vs):
                if has_key(v, key):
                    nxt = c
                    break
            if nxt is not None or time.time() - t0 > budget_s:
                break
        if nxt is None:
            break
        cur = nxt
    return cur


def shrink_item(ctx, item, key):
    """smallest item found that still shows finding `key` (the whole history is kept when it is needed)"""
    if "history" not in item:
        return shrink_case(ctx, item, key)
    steps = item["history"]
    last = steps[-1]["case"]
    alone = judge_items(ctx, [last], limit=2.0)[0]
    if has_key(alone, key):
        return shrink_case(ctx, last, key)        # the history is not needed
    cur = steps
    changed = True
    t0 = time.time()
    while changed and time.time() - t0 < 20:
        changed = False
        for i in range(len(cur) - 1):
            cand = cur[:i] + cur[i + 1:]
            if cand[0]["how"] in ("sync", "same"):
                cand = [dict(cand[0], how="fresh")] + cand[1:]
            if has_key(judge_items(ctx, [{"history": cand}], limit=2.0)[0], key):
                cur, changed = cand, True
                break
    return dict(item, history=cur)


def eval_items(ctx, items, do_shrink=True):
    """judge a batch of items, record verdicts; returns the number of items judged"""
    verdicts = judge_items(ctx, items)
    seen = set(k for k, _, _ in ctx.concrete)
    for it, vs in zip(items, verdicts):
        for j, v in enumerate(vs):
            desc = dict(v["case"]) if "history" not in it else \
                {"history": it["history"][:j + 1], "mode": it.get("mode", "history")}
            ctx.traces += 1
            ctx.tag(*v["tags"])
            if v["mismatch"]:
                ctx.mismatch("c05.allocate", v["mismatch"], desc)
            for key, what in v["viol"]:
                if key not in seen and do_shrink:
                    seen.add(key)
                    small = shrink_item(ctx, desc, key)
                    sv = judge_items(ctx, [small], limit=HANG_LIMIT_BIG_S if "history" not in small and is_big(small) else 2.0)[0]
                    for k2, w2 in [kw for x in sv for kw in x["viol"]]:
                        if k2 == key:
                            small = dict(small, shrunk_from_seed_case=True)
                            ctx.violation(key, w2, small)
                            break
                    else:
                        ctx.violation(key, what, desc)
                else:
                    ctx.violation(key, what, desc)
            ctx.case(v["case"] if not is_big(v["case"]) else
                     {"big_case": c_summary(v["case"])}, v["nontriv"])
    return len(verdicts)


def c_summary(c):
    return {"mode": c.get("mode"), "machine": [c["machine"]["width"], c["machine"]["height"]],
            "placements": len(c["placements"]), "constraints": len(c["constraints"]),
            "first_placements": c["placements"][:3]}


def gen_cases(ctx, n):
    rng = ctx.rng
    out = []
    for i in range(n):
        r = rng.random()
        mode = "general" if r < 0.5 else "single" if r < 0.65 else "ends" if r < 0.9 else "malformed"
        c = gen_case(rng, mode)
        if mode == "malformed":
            c["kinds"]["ints"] = "plain"     # numpy's `//` by zero does not raise: outside the domain anyway
        out.append(c)
    return out


# ---------------------------------------------------------------- histories (several calls in one process)
def twin(rng, case):
    """a case equal to `case` in all but ONE aspect"""
    c = copy.deepcopy(case)
    m = c["machine"]
    used = sorted(set(tuple(xy) for _, xy in c["placements"]))
    live = [(x, y) for x in range(m["width"]) for y in range(m["height"]) if [x, y] not in m["dead"]]
    nres = len(m["chip_resources"])
    caps = [cp for _, cp in m["chip_resources"]] or [8]
    for _ in range(8):
        what = rng.choice(["demand", "demand", "capacity", "exception", "align", "reserve", "reserve",
                           "move", "order", "vertex"])
        if what == "demand":
            qs = [q for q in c["vr"] if q[1]]
            if qs:
                e = rng.choice(rng.choice(qs)[1])
                e[1] = rng.choice([0, e[1] + 1, max(0, e[1] - 1), 2 * e[1], rng.choice(caps), e[1] + rng.choice(caps)])
                c["twin"] = "demand"
                return c
        elif what == "capacity" and nres:
            e = rng.choice(m["chip_resources"])
            e[1] = rng.choice([e[1] + 1, max(0, e[1] - 1), 2 * e[1], e[1] // 2])
            c["twin"] = "capacity"
            return c
        elif what == "exception" and used and nres:
            xy = rng.choice(used)
            ex = [e for e in m["exceptions"] if tuple(e[0]) == xy]
            if ex and rng.random() < 0.5:
                m["exceptions"].remove(ex[0])
            elif ex:
                e = rng.choice(ex[0][1])
                e[1] = rng.choice([e[1] + 1, max(0, e[1] - 1), 2 * e[1], 0])
            else:
                m["exceptions"].append([list(xy), [[r, rng.choice([cp, cp // 2, cp + 1, 0])]
                                                   for r, cp in m["chip_resources"]]])
            c["twin"] = "one chip's resources"
            return c
        elif what == "align" and nres:
            al = [x for x in c["constraints"] if x["k"] == "align"]
            if al and rng.random() < 0.6:
                x = rng.choice(al)
                if rng.random() < 0.3:
                    c["constraints"].remove(x)
                else:
                    x["a"] = rng.choice([1, 2, 3, 4, 8, x["a"] + 1, 2 * x["a"]])
            else:
                c["constraints"].insert(rng.randint(0, len(c["constraints"])),
                                        {"k": "align", "res": m["chip_resources"][rng.randrange(nres)][0],
                                         "a": rng.choice([1, 2, 3, 4, 8])})
            c["twin"] = "alignment"
            return c
        elif what == "reserve" and nres:
            rs = [x for x in c["constraints"] if x["k"] == "reserve"]
            z = rng.random()
            if rs and z < 0.25:
                c["constraints"].remove(rng.choice(rs))
            elif rs and z < 0.5:
                x = rng.choice(rs)
                x["loc"] = None if x["loc"] is not None else list(rng.choice(used or live))
            elif rs and z < 0.75:
                x = rng.choice(rs)
                x["stop"] = x["stop"] + rng.choice([-1, 1, 2])
            else:
                cp = rng.choice(caps)
                a = rng.randint(0, max(0, cp))
                c["constraints"].insert(rng.randint(0, len(c["constraints"])),
                                        {"k": "reserve", "res": m["chip_resources"][rng.randrange(nres)][0],
                                         "start": a, "stop": a + rng.randint(0, max(1, cp // 4)),
                                         "loc": rng.choice([None, list(rng.choice(used or live))])})
            c["twin"] = "reservation"
            return c
        elif what == "move" and c["placements"] and len(live) > 1:
            e = rng.choice(c["placements"])
            e[1] = list(rng.choice([xy for xy in live if list(xy) != e[1]]))
            c["twin"] = "one vertex on another chip"
            return c
        elif what == "order" and len(c["placements"]) > 1:
            if rng.random() < 0.5:
                c["placements"].reverse()
            else:
                c["constraints"].reverse()
            c["twin"] = "order"
            return c
        elif what == "vertex" and c["placements"]:
            if rng.random() < 0.5:
                v = rng.choice(c["placements"])[0]
                c["placements"] = [e for e in c["placements"] if e[0] != v]
                c["vr"] = [q for q in c["vr"] if q[0] != v]
            else:
                v = max([q[0] for q in c["vr"]] + [e[0] for e in c["placements"]]) + 1
                c["vr"].append([v, [[r, rng.choice([0, 1, 2, cp // 3])] for r, cp in m["chip_resources"]
                                    if rng.random() < 0.8]])
                c["placements"].insert(rng.randint(0, len(c["placements"])), [v, list(rng.choice(used or live))])
            c["twin"] = "one vertex more or less"
            return c
    c["twin"] = "none"
    return c


def gen_history(rng):
    """a history of 2-6 calls in one process on the caller's kept objects"""
    a = gen_case(rng, rng.choice(["general", "single", "ends", "ends"]))
    if a["names"]["containers"] in ("iter", "genexp") and rng.random() < 0.5:
        a["names"]["containers"] = "list"       # the SAME list object is then passed again and again
    pat = rng.choice(["repeat", "twins-in-place", "twins-in-place", "twins-fresh", "alternate", "walk", "walk"])

    def sc():
        return rng.random() < 0.4
    if pat == "repeat":
        steps = [{"case": a, "how": "fresh", "scribble": sc()}] + \
                [{"case": a, "how": rng.choice(["same", "sync", "fresh"]), "scribble": sc()}
                 for _ in range(rng.randint(1, 3))]
    elif pat == "twins-in-place":
        b = twin(rng, a)
        seq = [a, b, a, b] if rng.random() < 0.5 else [b, a, b]
        steps = [{"case": c, "how": "sync" if i else "fresh", "scribble": sc()} for i, c in enumerate(seq)]
    elif pat == "twins-fresh":
        b = twin(rng, a)
        seq = [a, b, a] if rng.random() < 0.5 else [b, a]
        steps = [{"case": c, "how": "fresh", "scribble": sc()} for c in seq]
    elif pat == "alternate":
        # two callers with their own machines / dictionaries, used alternately
        b = twin(rng, a) if rng.random() < 0.6 else gen_case(rng, "general")
        a2, b2 = twin(rng, a), twin(rng, b)
        steps = [{"case": a, "how": "fresh", "scribble": sc()}, {"case": b, "how": "alt", "scribble": sc()},
                 {"case": a2, "how": "sync", "scribble": sc()}, {"case": b2, "how": "alt", "scribble": sc()},
                 {"case": a, "how": "sync", "scribble": sc()}]
        for st in steps:        # one caller = one way of spelling things
            if st["how"] == "alt":
                st["case"]["names"], st["case"]["kinds"] = b["names"], b["kinds"]
            else:
                st["case"]["names"], st["case"]["kinds"] = a["names"], a["kinds"]
    else:
        steps = [{"case": a, "how": "fresh", "scribble": sc()}]
        cur = a
        for _ in range(rng.randint(2, 5)):
            cur = twin(rng, cur)
            steps.append({"case": cur, "how": rng.choice(["sync", "sync", "fresh"]), "scribble": sc()})
    return {"history": steps, "mode": "history", "pattern": pat}


# ---------------------------------------------------------------- scale (a handful of very large problems)
def gen_scale_case(rng, kind):
    """kind: row | crowd | fence | clutter"""
    names = {"res": [rng.choice(["int", "str", "object"]) for _ in range(8)], "vertex": rng.choice(["int", "tuple"]),
             "containers": rng.choice(["list", "tuple", "iter"])}
    kinds = dict(DEFAULT_KINDS, mapping=rng.choice(["dict", "ordered"]), call=rng.choice(["positional", "keyword"]))
    cons, vr, pl, exc, dead = [], [], [], [], []
    if kind == "row":
        n = rng.randint(1500, 4000)
        w, h = rng.choice([(1, n), (n, 1), (2, n // 2)])
        chips = [(x, y) for x in range(w) for y in range(h)]
        cr = [[0, 18], [1, 2 ** 27]]
        cons = [{"k": "reserve", "res": 0, "start": 0, "stop": 1, "loc": None},
                {"k": "align", "res": 1, "a": 4},
                {"k": "reserve", "res": 1, "start": 0, "stop": 1000, "loc": list(rng.choice(chips))}]
        for c in rng.sample(chips, 20):
            exc.append([list(c), [[0, rng.choice([17, 16, 1])], [1, 2 ** 26]]])
        dead = [list(c) for c in rng.sample(chips, 5)]
        exc = [e for e in exc if e[0] not in dead]
        v = 0
        for c in chips:
            if list(c) in dead or rng.random() < 0.1:
                continue
            for _ in range(1 if rng.random() < 0.9 else 3):
                vr.append([v, [[0, rng.choice([1, 1, 2, 0])], [1, rng.choice([0, 5, 4096, 10 ** 6])]]])
                pl.append([v, list(c)])
                v += 1
        rng.shuffle(pl)
    elif kind == "crowd":
        n = rng.randint(1200, 2500)
        w, h = 2, 1
        cr = [[0, 3 * n + 10]]
        cons = [{"k": "align", "res": 0, "a": rng.choice([1, 2, 3])},
                {"k": "reserve", "res": 0, "start": n, "stop": n + 7, "loc": None}]
        for v in range(n):
            vr.append([v, [[0, rng.choice([0, 1, 1, 2])]]])
            pl.append([v, [0, 0] if rng.random() < 0.97 else [1, 0]])
    elif kind == "fence":
        # > 1000 unit gaps fenced by reservations: a request of 2 walks past all of them (> 1000 loop rounds)
        k = rng.randint(1050, 1300)
        w, h = 1, 2
        cr = [[0, 2 * k + 60]]
        for i in range(k):
            cons.append({"k": "reserve", "res": 0, "start": 2 * i + 1, "stop": 2 * i + 2,
                         "loc": None if i % 3 else [0, 0]})
        rng.shuffle(cons)
        cons.insert(rng.randint(0, k), {"k": "align", "res": 0, "a": 1})
        big_one = rng.randint(3, 30)
        for v in range(40):
            vr.append([v, [[0, 2 if v == big_one else rng.choice([1, 1, 1, 0])]]])
            pl.append([v, [0, 0] if v % 4 else [0, 1]])
    else:   # clutter: thousands of constraints that concern other chips / resources
        w, h = 3, 3
        cr = [[0, 64], [1, 1000]]
        for i in range(rng.randint(2000, 4000)):
            z = rng.random()
            if z < 0.5:
                cons.append({"k": "reserve", "res": 5, "start": i, "stop": i + 3, "loc": None})
            elif z < 0.8:
                cons.append({"k": "reserve", "res": 0, "start": 0, "stop": 60, "loc": [2, 2]})
            elif z < 0.9:
                cons.append({"k": "align", "res": 6, "a": 1 + i % 7})
            else:
                cons.append({"k": "other"})
        cons.insert(len(cons) // 2, {"k": "reserve", "res": 0, "start": 0, "stop": 3, "loc": None})
        cons.append({"k": "align", "res": 1, "a": 8})
        for v in range(30):
            vr.append([v, [[0, 1], [1, rng.choice([1, 7, 8, 9])]]])
            pl.append([v, [v % 2, v % 3 % 2]])
    return {"vr": vr, "machine": {"width": w, "height": h, "chip_resources": cr, "exceptions": exc, "dead": dead},
            "constraints": cons, "placements": pl, "mode": "scale-" + kind, "scale": "small",
            "names": names, "kinds": kinds}


def utils_cases(ctx, n):
    """slices_overlap / align against the model on edge-heavy integers (small and huge; plain ints, bools,
    IntEnum members, int subclasses, numpy ints; positional and keyword calls)"""
    from rig.place_and_route.allocate.utils import slices_overlap, align
    rng = ctx.rng
    reqs, want = [], []
    for _ in range(n):
        a0, b0 = rng.randint(-3, 12), rng.randint(-3, 12)
        a1, b1 = a0 + rng.randint(-2, 6), b0 + rng.randint(-2, 6)
        v, al = rng.randint(-5, 70), rng.choice([1, 2, 3, 4, 8, 5, 16, -2, -3])
        kind = rng.choice(INT_KINDS)
        if rng.random() < 0.5:
            kind = rng.choice(["plain", "subint"])
            b = rng.choice(HUGE_BASES)
            v = rng.choice([b, 2 * b, 3 * b, b * b]) + rng.randint(-9, 9)
            al = rng.choice([1, 2, 3, 7, 10, 2 ** 31 + 1, 2 ** 53 + 1, b + 1, b - 1, 4 * b + 3])
            a0, b0 = a0 + rng.choice([0, b, 2 * b + 1]), b0 + rng.choice([0, b, 2 * b + 1])
            a1, b1 = a0 + rng.choice([-1, 0, 1, b, b + 1]), b0 + rng.choice([-1, 0, 1, b, b + 1])
        q = lambda x: quantity(x, kind)      # noqa: E731
        sa, sb = slice(q(a0), q(a1)), slice(q(b0), q(b1))
        kw = rng.random() < 0.3
        reqs.append({"suite": "c05", "op": "overlap", "a0": a0, "a1": a1, "b0": b0, "b1": b1})
        want.append(bool(slices_overlap(slice_a=sa, slice_b=sb) if kw else slices_overlap(sa, sb)))
        reqs.append({"suite": "c05", "op": "align", "v": v, "a": al})
        want.append(operator.index(align(value=q(v), alignment=q(al)) if kw else align(q(v), q(al))))
        ctx.tag("utils_ints_as_" + kind)
    for rq, w, g in zip(reqs, want, ctx.lean(reqs)):
        ctx.traces += 1
        if w != g:
            ctx.mismatch("c05.utils", "impl=%r model=%r" % (w, g), rq)
    ctx.tag("utils_pairs")


def run(ctx):
    ctx.extra["rule"] = RULE
    ctx.assumptions += [
        "dict iteration order is insertion order (CPython >= 3.7): the per-chip vertex order is the order of `placements`",
        "a set of constraint objects is iterated by the implementation in the order the harness observes just before the call",
        "claimed for requirements >= 0, alignments >= 1, resource names known to the machine, vertices placed on live chips",
        "ranges are compared as (start, stop) of the returned slice objects (operator.index of both)"]
    _HANGS[0] = 0
    n = ctx.scale(5000, 200000)
    nh = ctx.scale(700, 20000)
    if ctx.extended:
        n, nh = max(n * 4, 40000), max(nh * 4, 4000)
    corpus = []
    here = os.path.dirname(os.path.dirname(os.path.abspath(__file__)))
    for f in sorted(glob.glob(os.path.join(here, "corpus", "C05", "*.json"))):
        corpus.append(json.load(open(f))["case"])
    if corpus:
        eval_items(ctx, corpus)
    utils_cases(ctx, ctx.scale(500, 5000))
    done = 0
    while done < n:         # single calls
        k = min(5000, n - done)
        eval_items(ctx, gen_cases(ctx, k))
        done += k
        if ctx.concrete:
            break
    done = 0
    while done < nh:        # histories: several calls in one process, objects kept and edited by the caller
        k = min(1000, nh - done)
        items = [gen_history(ctx.rng) for _ in range(k)]
        for it in items:
            ctx.tag("history_" + it["pattern"])
        eval_items(ctx, items)
        done += k
        if ctx.concrete:
            break
    kinds = ["row", "crowd", "fence", "clutter"]
    for i in range(ctx.scale(4, 12)):       # scale: a handful of very large problems
        eval_items(ctx, [gen_scale_case(ctx.rng, kinds[i % 4])])


def replay(ctx, payload):
    ctx.extra["rule"] = RULE
    eval_items(ctx, [payload["case"]], do_shrink=False)
