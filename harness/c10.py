"""C10 - routing entries installed in a chip's router are the entries given.

Pure half: rig.routing_table.routing_tree_to_tables (and RoutingTree.traverse) against the
Lean model `treeTables`, with the Lean predicate `TablesSpec` (written over the tree structure,
not over the traversal) evaluated on the implementation's own result.

Machine half: the real MachineController.load_routing_tables / load_routing_table_entries /
get_routing_table_entries / clear_routing_table_entries drive a simulated machine with a router
(free list, alloc_rtr, router load, router copy in memory) behind the simulated network.  The
request stream is compared with the Lean controller model, the simulator is cross-checked by
replaying every request/reply pair through the Lean router specification (a disagreement is an
infrastructure error), and the Lean predicates `LoadSpec` / `ReadbackSpec` decide the property
on the router contents of the simulated machine and on what the implementation read back."""
import collections
import random
import struct

from harness import simnet, simmachine
from harness.common import Infra

CLAIM = dict(
    text=("Machine-checked proof (Lean 4). Tree->table conversion, for ALL forests of routing trees (any shape, any sharing "
          "of key/mask, leaves with route None, vertices as leaves): the result is a table set iff no two tree nodes on one "
          "chip under one (key, mask) leave by different direction sets, else MultisourceRouteError naming such a chip/key/"
          "mask; a returned table set has exactly the visited chips, one entry per (key, mask) per chip, route = the "
          "non-None child directions of the nodes there, sources = the opposite arrival links (None for roots); breadth-"
          "first traversal visits exactly the nodes of the tree. Loading: the 16-byte record round-trips for every subset of "
          "the 24 route bits and every 32-bit key/mask (bitwise proof); against the router specification (any free list, any "
          "valid allocation answer) load_routing_table_entries leaves exactly the given entries in rows base..base+n-1 in "
          "order, owned by the application, every other row unchanged; an allocation answer 0 raises SpiNNakerRouterError "
          "with no write and no load command and the router unchanged; get_routing_table_entries returns for every row "
          "exactly its key, mask, route set, app id, core (None for unused rows). Machine of several chips (map chip -> "
          "chip state, any valid allocation policy per chip, tables in the dict's iteration order): load_routing_tables "
          "returns normally iff every chip grants its allocation, then every chip of the dict holds exactly its entries and "
          "every other chip is unchanged (load_tables_exact, load_tables_ok_iff); otherwise the error names the first "
          "refusing chip, the chips before it are loaded (not rolled back), that chip, all later ones and all others are "
          "untouched (load_tables_failure, load_tables_spec). End to end (trees_to_router): for well-formed trees without "
          "conflict, loading treeTables(trees) and reading every chip back returns at base..base+n-1 entries whose key/mask "
          "are those the trees use on that chip and whose route set is exactly the trees' departures there (the table's "
          "sources exactly their arrivals), everything else as before. Retransmitted alloc_rtr (first reply lost) on the "
          "router specification: the first block stays allocated to the application and unused (leak), the load is still "
          "exact for the block the controller was told about, the leak ends with free_rtr_by_app (alloc_retransmit_leak, "
          "alloc_retransmit_refused, leak_recovered_by_clear). Cross-model: conversion C10 entry <-> C04 entry preserves "
          "matches and first-match lookup for all 32-bit keys (toC04_lookup, ofC04_lookup, round trips), so tables from "
          "treeTables can be fed to C04's theorems (treeTables_c04_lookup), and the router's lowest-matching-row decision "
          "after a load is that lookup (loaded_router_lookup, loaded_router_lookup_c04; assuming no used row outside the "
          "block matches the key). Tied to the code by exact table "
          "correspondence on generated forests and by request-trace and final-router correspondence of the real "
          "MachineController against the Lean machine `runM` (the function the theorems are about) and a simulated router "
          "that is itself replayed through the Lean specification on every run, including a stream in which alloc_rtr "
          "requests or their replies are lost and sessions of several loads through one controller in which the caller "
          "re-uses and edits the same list object (each load judged against the list at the time of the call); the Lean predicates LoadSpec/ReadbackSpec/TablesLoadSpec/TablesSpec are "
          "evaluated on the implementation's own outputs."),
    design="3/C10",
    note=("Proved: everything listed in THEOREMS, for all inputs. Validated only (differential, every run): that the Lean "
          "model is the code (traces, outcomes, router contents, tables) and that the Python simulator is the Lean router "
          "specification. The router behaviour of SC&MP/SARK (alloc_rtr answers 0 or the first row of a free block; load "
          "copies record i of the buffer to row base+next_i with the app id; the router copy encodes unused rows with route "
          "0xff000000) is a Lean specification written from the repo's constants and docstrings. Order of entries within a "
          "chip's table from routing_tree_to_tables, and the order of chips in load_routing_tables, are modelled (insertion "
          "order / dict order) but not demanded by the property: a deviation there is reported as a broken correspondence, "
          "not as a violation; a changed router on a chip that has no table is a violation. The hardware stores no "
          "sources: read-back is compared on key, mask, route, app id. alloc_rtr is not idempotent: a retransmission after "
          "a lost reply leaks a block until the application is stopped; the property's clauses still hold (theorem), the "
          "leak is counted in evidence (coverage.retransmitted_alloc), not reported. General loss/reordering is C06/C07. "
          "The theorems are about one call from an arbitrary machine state; that the controller carries nothing from one "
          "call to the next (packed table, sv addresses, allocation base) is validated by the session stream, not proved: a "
          "carried value that changes the router content is a violation, one that only changes the commands sent (e.g. a "
          "cached staging buffer address that still loads the right entries) is a broken correspondence. scp_data_length "
          "is cached by the controller by design and constant within a session. Read-back entries carry no source "
          "information: the Lean model's decoded entry has the documented default sources {None} and ReadbackSpec demands "
          "it, so state shared between entries handed to the caller (a shared default set) is a violation once the caller "
          "edits one of them. Trees are judged on their documented structure (a child that is an instance of RoutingTree "
          "or of any subclass continues the route, anything else is a vertex). build_routing_tables (deprecated, "
          "place_and_route/utils.py) is not part of this property's anchors and is not exercised. "
          "OBJECT SHARING (25% of the forests, also inside histories that do not edit trees): the forest is written out "
          "in full - that is what the Lean model and TablesSpec see, sharing is invisible to the specification - but nodes "
          "carrying the same label are built as ONE Python object: the same root object under several nets (another key, "
          "another mask only, the same key and mask - then also the very same (key, mask) tuple object), the same subtree "
          "object under a further root or under two parents (a DAG of tree objects, never a cycle), the same child object "
          "listed twice under one node. "
          "A table is a list: 35% of the generated tables of two or more entries (single-load, lossy, scale and "
          "session streams, through load_routing_table_entries and through load_routing_tables) repeat an entry exactly "
          "(adjacent, far apart, several times) or repeat its key and mask with another route, and sessions insert copies "
          "of entries already present; LoadSpec demands every one of them, in order. Disagreements between the simulated "
          "router and the Lean router specification (replies, final state, state after an unanswered allocation - the "
          "block length is taken from the request that was sent) depend on what the implementation sends, so they are "
          "reported as a broken correspondence (c10.simulator) and the case is still judged; the harness raises no "
          "infrastructure error of its own (only the shared driver does, when the Lean process fails). "
          "HARDENING (what is validated by which stream; every verdict comes from the Lean oracles TablesSpec / LoadSpec / "
          "TablesLoadSpec / ReadbackSpec or from the comparison with the Lean model): "
          "[1 argument kinds] forest stream, option ak (35% of forests) and the decorations (40%): net identifiers as "
          "pair, int, str containing % and {}, tuples of length 0-3, namedtuple, frozenset, plain object; routes / net_keys "
          "as dict, OrderedDict, defaultdict, dict subclass; (key, mask) as tuple or namedtuple; keys and masks as int, "
          "bool, IntEnum member, numpy integer, and (8% of the pools) around 2**31, 2**32, 2**53+1, 2**63, 2**64, 2**100 "
          "(the conversion treats them as opaque; the toC04 comparison is skipped there because C04's keys are 32-bit); "
          "chip coordinates shifted by such numbers; the chip argument of RoutingTree as tuple, list, namedtuple; children "
          "as list / tuple / set (a one-shot iterator is not legal: the documented type is list and traverse() may be "
          "called again); vertices of every hashable kind incl. bool and tuples of length 0, 1, 3; RoutingTree subclasses. "
          "Machine streams, option ak (half of the single-load, lossy and session cases; class Caller): an entry's route "
          "as set, frozenset, list with a duplicate, tuple, one-shot iterator; sources default / {None} / a link / both / "
          "a list; entries of an application subclass of RoutingTableEntry; keys and masks as bool / IntEnum / numpy "
          "integer; the table as list, list subclass, tuple (the code takes len(): no generators); routing_tables as "
          "dict, OrderedDict, defaultdict, dict subclass with (x, y) keys as tuple or namedtuple; x, y, app_id as int, bool, "
          "IntEnum member (rig never passes numpy integers here); packed records as bytes, bytearray, memoryview; empty "
          "table, empty dict, empty forest, app id 0, chip (0, 0), key 0, mask 0. Not varied: Routes members stay Routes "
          "(entries' route sets are documented as sets of Routes); keys beyond 32 bits on the load path are out of the "
          "documented domain and only compared (struct.error). "
          "[2 optional parameters] RoutingTree(chip, children): children omitted, None, [], by keyword; "
          "RoutingTableEntry(route, key, mask, sources): sources default and explicit, positional and keyword; "
          "routing_tree_to_tables(routes, net_keys) positional and keyword; load_routing_table_entries(entries, x, y, "
          "app_id), load_routing_tables(routing_tables, app_id), get_routing_table_entries(x, y), "
          "clear_routing_table_entries(x, y, app_id): positional, keyword, from the controller's context (with mc(x=, y=, "
          "app_id=)), mixed, and a context naming another chip that the explicit arguments / the dict override; "
          "unpack_routing_table_entry(packed) and traverse() have nothing optional. "
          "[3 scale, one case each per run, CPU limit raised] a chain of 1200 (thorough 3000) hops with a second net "
          "joining half-way, sent to Lean in a flat form because the JSON encoder cannot nest that deep; a node with 600 "
          "(5000) children plus six subtrees; 300 (2000) nets with one key crossing one chip; a table of 1025 entries "
          "(thorough also 65536 and 65537: the count field of the load command has 16 bits) - every valid allocator refuses "
          "it, the call must raise the router error and send nothing else; one load_routing_tables call over 150 (256) "
          "chips of a 16x16 machine. Nothing in scope recurses (traverse is an iterative breadth-first search); app ids "
          "are documented as 0..255 and 256+ is not fed. "
          "[4 histories] session stream (two controllers used alternately, same call repeated, twins of a table in both "
          "orders via in-place edits) and history stream (fhist: the same conversion repeated; twin forests differing in "
          "one route / key / node class / child / enum kind / argument kinds, in both orders; two forests used "
          "alternately); rig's modules are forgotten and imported afresh at the start of every session and history, so "
          "module-level, class-level and default-argument state starts clean and the replay of a history reproduces. "
          "[5 caller keeps and edits] (a) passed objects edited in place and passed again: table lists (sessions), the "
          "routing_tables dict object (sessions: chips added, rebound, deleted), the trees' children lists, the routes and "
          "net_keys dicts (history stream: add / delete a child anywhere, change a net's key, delete a net); (b) returned "
          "objects edited: read-back lists and their entries' sources, the dict / lists / entries returned by "
          "routing_tree_to_tables; (c) kept results re-read at the end of the session / history: a read-back list or a "
          "tables dict that changed after it was returned without the caller touching it is the finding "
          "result-changed-after-return; (d) traverse() generators advanced alternately on one or two trees, interleaved "
          "with conversions, resumed later or abandoned half-way; what they yielded is compared with the Lean model's "
          "traversal (theorem traverse_exact), a deviation is a broken correspondence. "
          "[6 faults then continued use] lossy stream (alloc_rtr request / reply lost) and session steps with one network "
          "fault at the n-th datagram of the load: request lost, reply lost after execution, a retryable return code, a "
          "fatal return code, the datagram and all its retransmissions lost; faults the protocol hides must leave the "
          "load exact (judged as usual), a call that fails with the connection's error is not judged itself (the property "
          "does not say what it leaves behind; the simulator is still checked against the specification) and the same "
          "controllers go on being used: every later step is judged from the routers as they then are. "
          "[7 configuration] per case: scp_data_length 16..512, window 1..8, n_tries 2/5, timeout 0.5/1/4 ticks, machine "
          "chips anywhere in the 256x256 coordinate space; per chip: sv.sdram_sys, sv.rtr_copy, router content, allocation "
          "policy. Not varied: the layout of the sv struct and the SCP command numbers - they are data of the repository, "
          "translated into the Lean model on every run (a caller-supplied struct layout is not modelled); core counts, "
          "link states and version strings are not read by the functions in scope. "
          "[8 non-termination] every call of the implementation runs under common.cpu_limit: 2 s for a conversion, a "
          "traversal step or an unpack, 30 s for a controller call, 120-300 s for the scale cases, a tenth of that after "
          "three hangs; a call that does not return is the finding did-not-return (the model's runs end: tables_total, "
          "load_exact, load_tables_spec, readback_exact); a session stops at a hang."),
    technique="Lean 4 theorems over a hand-written model + differential correspondence + Lean spec as oracle")
CLAIM["note"] += (" SESSION ORACLE failed-load-removed-installed-entries (third session): a load that FAILED (network fault, refused "
                  "allocation) may leave its own block in any state, but every router row that held an entry before the step must "
                  "hold the same entry under the same owner after it - the tables earlier loads installed are what the application "
                  "runs on.  The simulated network delivers a reply only to the socket that sent the request (two controllers of a "
                  "session have their own UDP ports).")

THEOREMS = ["routes_enum_documented", "traverse_exact", "tables_exact", "multisource_iff", "tables_total",
            "tables_spec", "rte_roundtrip", "route_word_bits", "load_exact", "load_alloc_failure",
            "readback_exact", "load_then_readback", "clear_exact",
            # Props/C10Machine.lean: machine of several chips, end to end, retransmitted allocation
            "load_tables_exact", "load_tables_failure", "load_tables_ok_iff", "load_tables_spec", "trees_to_router",
            "alloc_retransmit_leak", "alloc_retransmit_refused", "leak_recovered_by_clear",
            # Props/C10Cross.lean: C10 entries <-> C04 entries
            "toC04_matches", "toC04_lookup", "ofC04_lookup", "toC04_route_bits", "toC04_sources_bits", "toC04_ofC04",
            "ofC04_toC04", "treeTables_c04_lookup", "loaded_router_lookup", "loaded_router_lookup_c04"]
THEOREMS += ['gen_inDir']   # translator tie: generated function bodies = model (Props/C10Gen.lean)

RULE = ("pure cases = forests of 1-6 nets on a 4x4 torus: random branching trees/chains with vertex leaves (core route, link "
        "route or None), key/mask drawn from a pool of 1-3 so nets share them, later nets re-using (copying) subtrees of "
        "earlier nets so that they merge without conflict or differ in one child so that they conflict, plus a malformed "
        "stream (subtree under route None / under a core route); 40% of the forests are dressed differently without "
        "changing their meaning: nodes that are instances of application subclasses of RoutingTree (adding a slot, adding "
        "a __dict__ attribute, a subclass of a subclass) at root, inner and leaf-adjacent positions, children held in a "
        "list / tuple / set, child pairs as tuples or namedtuples, vertices of arbitrary hashable types (object, str, int, "
        "a (Routes, object) tuple that looks like a child pair, an (x, y) tuple, a namedtuple, a frozenset, an unrelated "
        "class that is also called RoutingTree); in 15% the caller first edits the tables it was handed (sources sets, "
        "lists, dict) and converts the same trees again, the second result is judged; 25% of the forests share objects (the "
        "same root object under nets with other / equal keys and masks, the same subtree object under several roots or "
        "parents, the same child twice) while the specification sees the forest written out in full; machine cases = tables of 0..1024 entries (sizes 0,1,2,3,"
        "16,17,64,1023,1024 and random) over all 24 route bits with full-width keys/masks, 1-3 chips, app ids 0..255, scp "
        "buffer sizes 16..512, 35% of the tables of >= 2 entries with exactly repeated entries or a repeated key/mask "
        "with another route, random router free-list states (fragmented, full, empty) and allocation policies (first "
        "fit, last fit, random fit, refuse), 0-2 bystander chips that have a router state but no table, followed by a full "
        "read-back and optionally a clear; lossy stream = the same with the first one or two transmissions of a chip's "
        "alloc_rtr request or of its reply lost (the chip then executes the allocation twice); sessions = 2-5 loads through "
        "ONE MachineController onto one simulated machine of 2-4 chips with pairwise different sv.sdram_sys / sv.rtr_copy "
        "values, router states and allocation policies: the caller re-uses the same list object (edited in place between "
        "loads: replace - also same key/mask with another route -, append, insert, extend, delete, reverse, swap, clear; "
        "or unchanged), interleaved with fresh lists, changing app ids, load_routing_tables with several chips sharing "
        "one list object, the same or another chip as target, and read-backs of loaded and other chips in between; every "
        "load is judged by the Lean oracles against the list as it is at the time of that call and the router as it "
        "was when the call started; the replay payload is the whole session; after a read-back (single-load stream and "
        "sessions, first or second controller) the caller edits in place what it was handed - the sources set of one "
        "returned entry, the returned list - and likewise the sources of entries it built itself with default arguments; "
        "all other entries of that read-back and every later read-back / unpack round trip must still be the router's "
        "(Lean ReadbackSpec now demands the unknown-source default {None}, and read-back entries are compared with entries "
        "built with an explicit {None}); between cases the harness restores a shared default set if the implementation "
        "has one, so that every reported case is self-contained; non-trivial = (pure) at "
        "least two nodes share chip+key+mask, (machine) a table of >= 2 entries was loaded or an allocation failed with a "
        "non-empty router or a block was leaked by a retransmitted allocation, (session) a list object that had been "
        "loaded before was edited and loaded again; argument kinds / calling conventions (option ak), big numbers, "
        "histories of conversions with in-place edits, twins and lazily consumed traversals (kind fhist: non-trivial when "
        "more than one conversion or a traversal took place), network faults inside sessions, scale cases and the CPU "
        "limit are described item by item in the claim's note (HARDENING); distinct = distinct canonical JSON of the case")

LINK_VEC = simmachine.LINK_VEC
W = H = 4
FW = FH = 7      # torus the forests live on

# --------------------------------------------------------------------------------------------
# pure half
# --------------------------------------------------------------------------------------------


def gen_tree(rng, chip, depth, budget, shape):
    """tree as JSON: {"c": [x, y], "k": [[route|None, subtree|None], ...]}"""
    kids = []
    n_leaf = rng.choice([0, 0, 1, 1, 2, 3]) if shape != "chain" else rng.choice([0, 0, 1])
    for _ in range(n_leaf):
        r = rng.random()
        if r < 0.2:
            route = None
        elif r < 0.9:
            route = 6 + rng.randrange(18)
        else:
            route = rng.randrange(6)
        kids.append([route, None])
    if depth > 0 and budget[0] > 0:
        n_sub = 1 if shape == "chain" else rng.choice([0, 1, 1, 2, 2, 3])
        links = rng.sample(range(6), n_sub)
        for l in links:
            if budget[0] <= 0:
                break
            budget[0] -= 1
            dx, dy = LINK_VEC[l]
            nxt = [(chip[0] + dx) % FW, (chip[1] + dy) % FH]
            kids.append([l, gen_tree(rng, nxt, depth - 1, budget, shape)])
    elif not kids:
        kids.append([6 + rng.randrange(18), None])
    rng.shuffle(kids)
    return {"c": list(chip), "k": kids}


def tree_nodes(t):
    """all nodes, parents before children, children in order (iterative: trees may be thousands of levels deep)"""
    out, stack = [], [t]
    while stack:
        n = stack.pop()
        out.append(n)
        stack.extend(s for r, s in reversed(n["k"]) if s is not None)
    return out


def copy_tree(t):
    return {"c": list(t["c"]), "k": [[r, None if s is None else copy_tree(s)] for r, s in t["k"]]}


BIG_INTS = [2 ** 31, 2 ** 32, 2 ** 53 + 1, 2 ** 63, 2 ** 64, 2 ** 100]
NET_ID_KINDS = ["pair", "int", "str", "tuple", "named", "frozenset", "object"]


def gen_forest(rng):
    n_nets = rng.choice([1, 2, 2, 3, 3, 4, 6])
    pool = [(rng.choice([0, 1, 0xffff0000, 0xffffffff, rng.randrange(1 << 32)]),
             rng.choice([0, 0xffffffff, 0xffff0000, rng.randrange(1 << 32)])) for _ in range(rng.choice([1, 2, 3, 4]))]
    if rng.random() < 0.08:
        # keys and masks are opaque to the conversion (unbounded): values around and beyond the 32/53/64-bit edges
        pool = [(max(0, rng.choice(BIG_INTS + [k]) + rng.choice([0, 0, -1, 1])), rng.choice(BIG_INTS + [m])) for k, m in pool]
    nets = []
    for i in range(n_nets):
        key, mask = rng.choice(pool)
        shape = rng.choice(["chain", "bushy", "bushy", "small"])
        depth = {"chain": rng.randrange(1, 7), "bushy": rng.randrange(1, 4), "small": rng.randrange(0, 2)}[shape]
        same = [n for n in nets if (n["key"], n["mask"]) == (key, mask)]
        mode = rng.choice(["fresh", "fresh", "join", "join", "join", "join", "clash"]) if same else "fresh"
        if mode == "fresh":
            tree = gen_tree(rng, [rng.randrange(FW), rng.randrange(FH)], depth, [rng.randrange(1, 12)], shape)
        else:
            # a new net that reaches a node of an earlier net with the same key/mask and continues with a copy
            # of that net's subtree (merge: same out set, new source) or a copy changed in one place (clash)
            other = rng.choice(same)
            target = rng.choice(tree_nodes(other["tree"]))
            sub = copy_tree(target)
            if mode == "clash":
                victim = rng.choice(tree_nodes(sub))
                what = rng.random()
                if what < 0.4 or not victim["k"]:
                    victim["k"].append([rng.choice([r for r in range(24)]), None])
                elif what < 0.7:
                    victim["k"].pop(rng.randrange(len(victim["k"])))
                else:
                    # same set written differently (duplicate / reordered): NOT a conflict
                    victim["k"].append(list(rng.choice(victim["k"])[:1]) + [None])
                    rng.shuffle(victim["k"])
            how = rng.random()
            if how < 0.25:
                tree = sub                      # a second root on the same chip
            else:
                occupied = {tuple(t["c"]) for n in same for t in tree_nodes(n["tree"])}
                for _ in range(4):      # prefer entering from a chip no net with this key uses
                    l = rng.randrange(6)
                    dx, dy = LINK_VEC[l]
                    src = [(sub["c"][0] - dx) % FW, (sub["c"][1] - dy) % FH]
                    if tuple(src) not in occupied:
                        break
                tree = {"c": src, "k": [[l, sub]] + ([[6 + rng.randrange(18), None]] if rng.random() < 0.3 else [])}
                if how > 0.7:
                    l2 = rng.randrange(6)
                    dx, dy = LINK_VEC[l2]
                    tree = {"c": [(src[0] - dx) % FW, (src[1] - dy) % FH], "k": [[l2, tree]]}
        nets.append({"key": key, "mask": mask, "tree": tree})
    if rng.random() < 0.04:
        # malformed stream: a subtree under route None (assert) or under a core route (ValueError in .opposite)
        victim = rng.choice(tree_nodes(rng.choice(nets)["tree"]))
        sub = {"c": [rng.randrange(FW), rng.randrange(FH)], "k": [[7, None]]}
        victim["k"].append([None if rng.random() < 0.5 else 6 + rng.randrange(18), sub])
    case = {"kind": "forest", "nets": nets, "links_enum": rng.random() < 0.3}
    if rng.random() < 0.01:
        case["nets"] = nets = []                # nothing to convert: empty dicts in, empty dict out
    if rng.random() < 0.04:
        # chip coordinates are opaque too: the whole forest far away from the origin
        dx, dy = rng.choice(BIG_INTS + [0]), rng.choice(BIG_INTS + [255])
        for n in nets:
            for t in tree_nodes(n["tree"]):
                t["c"] = [t["c"][0] + dx, t["c"][1] + dy]
    if rng.random() < 0.35:
        # argument kinds and calling convention (see build_forest)
        case["ak"] = {"ids": rng.choice(NET_ID_KINDS), "routes": rng.choice(["dict", "ordered", "subclass"]),
                      "net_keys": rng.choice(["dict", "ordered", "default", "subclass"]),
                      "km": rng.choice(["tuple", "named"]), "num": rng.choice(["int", "intlike"]),
                      "conv": rng.choice(["pos", "kw"])}
    if rng.random() < 0.4:
        # the same trees in other legal clothes (the Lean side reads only "c" and "k")
        # (children in a set are visited in an arbitrary order; in a malformed forest the order decides which of
        # several errors is raised, and those are only compared with the model: no sets there)
        ordered = not all(wellformed(n["tree"]) for n in nets)
        for n in nets:
            for t in tree_nodes(n["tree"]):
                decorate(rng, t, ordered)
    if rng.random() < 0.15:
        # the caller edits the tables it was handed (dict, lists, the entries' sources sets) and converts again
        case["reconvert"] = rng.randrange(1000)
    if nets and rng.random() < 0.25:
        add_sharing(rng, case)
    return case


def subtree_ids(t):
    return {id(n) for n in tree_nodes(t)}


def add_sharing(rng, case):
    """OBJECT SHARING: the forest stays written out in full (that is what the Lean model and the specification see -
    sharing is invisible to them), but nodes given the same label "o" are built as one Python object: the same root
    object under several nets (other key, other mask only, same key and mask), the same subtree object under several
    roots or several parents (a DAG of tree objects), the same child listed twice under one node; nets holding the
    very same (key, mask) object."""
    import copy
    nets = case["nets"]
    labels = [0]

    def label(t):
        if t.get("o") is None:
            labels[0] += 1
            t["o"] = "o%d" % labels[0]
        return t["o"]
    wf = all(wellformed(n["tree"]) for n in nets)
    kinds = []
    # phase 1 - new children (only where no shared object exists yet, so that copies stay equal)
    for _ in range(rng.choice([0, 0, 1, 2])):
        n = rng.choice(nets)
        frozen = set()
        for m in nets:
            for t in tree_nodes(m["tree"]):
                if t.get("o") is not None:
                    frozen |= subtree_ids(t)
        nodes = [t for t in tree_nodes(n["tree"]) if id(t) not in frozen]
        if not nodes:
            continue
        if rng.random() < 0.5:
            cand = [t for t in nodes if any(sub is not None for r, sub in t["k"])]
            if cand:
                p = rng.choice(cand)
                j = rng.choice([j for j, (r, sub) in enumerate(p["k"]) if sub is not None])
                label(p["k"][j][1])
                p["k"].insert(rng.randrange(len(p["k"]) + 1), [p["k"][j][0], copy.deepcopy(p["k"][j][1])])
                if "v" in p:
                    p["v"].append("obj")
                kinds.append("child_twice")
        else:
            subs = [t for t in tree_nodes(n["tree"])[1:]]
            if subs:
                x = rng.choice(subs)
                inside = subtree_ids(x)
                parents = [t for t in nodes if id(t) not in inside]          # (never below x itself: no cycles)
                if parents:
                    p = rng.choice(parents)
                    label(x)
                    p["k"].append([rng.randrange(6), copy.deepcopy(x)])
                    if "v" in p:
                        p["v"].append("obj")
                    kinds.append("subtree_under_two_parents")
    # phase 2 - further nets made of objects that exist already
    for _ in range(rng.choice([1, 1, 2, 3])):
        n = rng.choice(nets)
        kind = rng.choice(["root_other_key", "root_other_key", "root_other_mask", "root_same_key",
                           "subtree_new_root", "subtree_new_root_other_key"])
        key, mask = n["key"], n["mask"]
        if kind in ("root_other_key", "subtree_new_root_other_key"):
            key = rng.choice([key ^ (1 << rng.randrange(32)), rng.randrange(1 << 32), key + 1])
        elif kind == "root_other_mask":
            mask = mask ^ (1 << rng.randrange(32))
        if kind.startswith("root"):
            label(n["tree"])
            new = {"key": key, "mask": mask, "tree": copy.deepcopy(n["tree"])}
            if kind == "root_same_key" and rng.random() < 0.5:
                labels[0] += 1
                n["kmo"] = new["kmo"] = n.get("kmo") or "km%d" % labels[0]
        else:
            x = rng.choice(tree_nodes(n["tree"]))
            label(x)
            l = rng.randrange(6)
            dx, dy = LINK_VEC[l]
            new = {"key": key, "mask": mask,
                   "tree": {"c": [abs(x["c"][0] - dx), abs(x["c"][1] - dy)], "k": [[l, copy.deepcopy(x)]]}}
        nets.insert(rng.randrange(len(nets) + 1), new)
        kinds.append(kind)
    case["sharing"] = sorted(set(kinds))
    if wf and not all(wellformed(n["tree"]) for n in nets):
        raise AssertionError("sharing made a well-formed forest malformed")


VERTEX_KINDS = ["obj", "obj", "str", "int", "pair", "xy", "ntuple", "frozenset", "faketree", "t0", "t1", "t3", "bool"]


def decorate(rng, t, ordered=False):
    """node class: 0 RoutingTree, 1 subclass adding a slot, 2 subclass with a __dict__ and an attribute, 3 subclass of
    a subclass; container of children: list (documented), tuple, set (documented up to Rig 1.5.1); child pairs: tuple
    or a namedtuple (a subclass of tuple); vertices: arbitrary hashable objects, also ones that look like child pairs,
    chip coordinates or a tree"""
    t["s"] = rng.choice([0, 0, 1, 1, 2, 3])
    t["f"] = rng.choice(["list", "list", "tuple", "tuple" if ordered else "set"])
    t["p"] = rng.choice(["tuple", "tuple", "named"])
    t["v"] = [rng.choice(VERTEX_KINDS) for _ in t["k"]]
    t["cf"] = rng.choice(["tuple", "tuple", "list", "named"])          # the chip argument: any (x, y) pair
    t["nk"] = rng.choice(["empty", "omit", "none", "kw"])               # a node without children: [], omitted, None


def wellformed(t):
    return all(s is None or (r is not None and r < 6) for n in tree_nodes(t) for r, s in n["k"])


class Vertex(object):
    pass


class RoutingTree(object):
    """NOT rig's RoutingTree: an unrelated application object that happens to look like one - a vertex"""
    def __init__(self, chip):
        self.chip = chip
        self.children = []


ChildPair = collections.namedtuple("ChildPair", "route obj")
VertexTuple = collections.namedtuple("VertexTuple", "route obj")
ChipXY = collections.namedtuple("ChipXY", "x y")
KeyMask = collections.namedtuple("KeyMask", "key mask")
NetId = collections.namedtuple("NetId", "name index")
_tree_classes = {}


def tree_classes():
    """rig's RoutingTree and application subclasses of it (created once per rig module object)"""
    from rig.place_and_route import routing_tree as rt
    if _tree_classes.get("base") is not rt.RoutingTree:
        class SlotTree(rt.RoutingTree):
            __slots__ = ["label"]

            def __init__(self, chip, children=None, label=None):
                super(SlotTree, self).__init__(chip, children)
                self.label = label

        class DictTree(rt.RoutingTree):
            def __init__(self, chip, children=None):
                super(DictTree, self).__init__(chip, children)
                self.note = "added by the application"

        class SubSlotTree(SlotTree):
            __slots__ = []
        _tree_classes.update(base=rt.RoutingTree, classes=[rt.RoutingTree, SlotTree, DictTree, SubSlotTree])
    return _tree_classes["classes"]


def make_vertex(kind, chip, i):
    from rig.routing_table import Routes
    if kind == "str":
        return "vertex %d at %r" % (i, chip) + ": 100% {} {0} %s %(x)d"
    if kind == "t0":
        return ()
    if kind == "t1":
        return (Vertex(),)
    if kind == "t3":
        return (Routes(i % 24), Vertex(), None)
    if kind == "bool":
        return i % 2 == 0
    if kind == "int":
        return 1000 * i + chip[0]
    if kind == "pair":
        return (Routes(i % 6), Vertex())            # looks like a (route, object) child pair
    if kind == "xy":
        return (chip[0], chip[1])
    if kind == "ntuple":
        return VertexTuple(Routes((i + 1) % 6), Vertex())
    if kind == "frozenset":
        return frozenset([i, "v"])
    if kind == "faketree":
        return RoutingTree(tuple(chip))
    return Vertex()


def build_tree(t, use_links, memo=None):
    """the live tree of a JSON tree; nodes carrying the same object label "o" become ONE object (the first one met is
    built, the others - equal in chip and children by construction - re-use it)"""
    if memo is not None and t.get("o") is not None:
        if t["o"] not in memo:
            memo[t["o"]] = build_node(t, use_links, memo)
        return memo[t["o"]]
    return build_node(t, use_links, memo)


def build_node(t, use_links, memo):
    from rig.routing_table import Routes
    from rig.links import Links
    kids = []
    kinds = t.get("v") or []
    for i, (r, s) in enumerate(t["k"]):
        if r is None:
            rr = None
        elif use_links and r < 6:
            rr = Links(r)
        else:
            rr = Routes(r)
        child = make_vertex(kinds[i] if i < len(kinds) else "obj", t["c"], i) if s is None else build_tree(s, use_links, memo)
        kids.append(ChildPair(rr, child) if t.get("p") == "named" else (rr, child))
    form = t.get("f", "list")
    kids = tuple(kids) if form == "tuple" else set(kids) if form == "set" else kids
    cf = t.get("cf", "tuple")
    chip = list(t["c"]) if cf == "list" else ChipXY(*t["c"]) if cf == "named" else tuple(t["c"])
    cls = tree_classes()[t.get("s", 0)]
    if not t["k"] and form == "list":
        nk = t.get("nk", "empty")
        if nk == "omit":
            return cls(chip)
        if nk == "none":
            return cls(chip, None)
        if nk == "kw":
            return cls(chip=chip, children=[])
    return cls(chip, kids)


def RoutingTableEntryExplicit(e):
    """the entry [route, key, mask] built with every argument explicit (sources {None})"""
    from rig.routing_table import RoutingTableEntry, Routes
    return RoutingTableEntry({Routes(r) for r in e[0]}, e[1], e[2], {None})


def restore_default_sources():
    """hygiene between cases: if the implementation hands out one shared `sources` set for entries built with the
    default argument, an edit made by one case would leak into all later ones and their replays would not be
    self-contained; on a correct implementation this touches a fresh, unshared set"""
    from rig.routing_table import RoutingTableEntry
    src = RoutingTableEntry(set(), 0, 0).sources
    if src != {None}:
        src.clear()
        src.add(None)


def edit_tables(tables, k):
    """what a caller may do with the dict routing_tree_to_tables handed it: edit the entries' sources sets, the
    lists and the dict, all in place (k selects the edits)"""
    from rig.routing_table import Routes
    for j, (chip, es) in enumerate(list(tables.items())):
        for i, e in enumerate(es):
            if (k + i) % 2:
                e.sources.discard(None)
            e.sources.add(Routes((k + i + j) % 24))
        if (k + j) % 3 == 0:
            es.reverse()
            es.pop()
        if (k + j) % 4 == 1:
            es.append(es[0] if es else None)
        if (k + j) % 5 == 2:
            del tables[chip]
    if k % 7 == 3:
        tables.clear()


def canon_entry(e):
    return [sorted(int(r) for r in e.route), int(e.key), int(e.mask),
            sorted(-1 if s is None else int(s) for s in e.sources)]


_HANGS = [0]


def limited(seconds, f):
    """one call of the implementation under a CPU-time limit (about 100x what such a call needs; a tenth of it once
    three calls of this run did not return); common.ImplHang is raised when it does not return in time"""
    from harness import common
    with common.cpu_limit(seconds if _HANGS[0] < 3 else max(0.5, seconds / 10.0)):
        return f()


def fresh_rig():
    """forget rig's modules: the next import executes them again, so module-level, class-level and default-argument
    state starts afresh - a history then replays on its own"""
    import sys
    for k in [k for k in sys.modules if k == "rig" or k.startswith("rig.")]:
        del sys.modules[k]
    _tree_classes.clear()


def int_like(v, i):
    """the same number as another legal kind of int: bool, IntEnum member, numpy integer"""
    if v in (0, 1) and i % 3 == 0:
        return bool(v)
    if i % 2 == 0:
        import enum
        return enum.IntEnum("Number", {"value_%d" % i: v})["value_%d" % i]
    try:
        import numpy
        if v < 2 ** 63:
            return numpy.int64(v)
        if v < 2 ** 64:
            return numpy.uint64(v)
    except ImportError:
        pass
    return v


def net_id(kind, i):
    if kind == "int":
        return i
    if kind == "str":
        return "net %d" % i + ": 100% {} {0} %s %(x)d"
    if kind == "tuple":
        return tuple(range(i % 4)) + ((i,) if i >= 4 else ())      # lengths 0..3
    if kind == "named":
        return NetId("net", i)
    if kind == "frozenset":
        return frozenset(["net", i])
    if kind == "object":
        return Vertex()
    return ("net", i)


class DictSubclass(dict):
    pass


def make_dict(kind):
    if kind == "ordered":
        return collections.OrderedDict()
    if kind == "default":
        return collections.defaultdict(lambda: None)
    if kind == "subclass":
        return DictSubclass()
    return {}


def build_forest(case):
    """the live arguments of routing_tree_to_tables for a forest case: (routes, net_keys, net ids in order)"""
    ak = case.get("ak") or {}
    routes, net_keys, ids = make_dict(ak.get("routes")), make_dict(ak.get("net_keys")), []
    memo, kms = {}, {}
    for i, n in enumerate(case["nets"]):
        net = net_id(ak.get("ids"), i)
        ids.append(net)
        routes[net] = build_tree(n["tree"], case.get("links_enum", False), memo)
        if n.get("kmo") is not None:
            # several nets holding the very same (key, mask) object
            if n["kmo"] not in kms:
                kms[n["kmo"]] = make_km(ak, n["key"], n["mask"], i)
            net_keys[net] = kms[n["kmo"]]
        else:
            net_keys[net] = make_km(ak, n["key"], n["mask"], i)
    return routes, net_keys, ids


def make_km(ak, key, mask, i):
    if ak.get("num") == "intlike":
        key, mask = int_like(key, i), int_like(mask, i + 1)
    return KeyMask(key, mask) if ak.get("km") == "named" else (key, mask)


def convert(routes, net_keys, case, seconds=2):
    """one call of routing_tree_to_tables: (canonical outcome, the dict it returned or None)"""
    from harness import common
    from rig.routing_table import routing_tree_to_tables, MultisourceRouteError
    kw = (case.get("ak") or {}).get("conv") == "kw"
    try:
        tables = limited(seconds, (lambda: routing_tree_to_tables(net_keys=net_keys, routes=routes)) if kw else
                         (lambda: routing_tree_to_tables(routes, net_keys)))
    except common.ImplHang as e:
        _HANGS[0] += 1
        return {"hang": str(e)}, None
    except MultisourceRouteError as e:
        return {"err": ["multisource", int(e.key), int(e.mask), [int(e.x), int(e.y)]]}, None
    except AssertionError:
        return {"err": ["assertion"]}, None
    except ValueError:
        return {"err": ["valueError"]}, None
    except (RecursionError, OverflowError, MemoryError, TypeError, KeyError, AttributeError, IndexError) as e:
        return {"err": ["undocumented", type(e).__name__, str(e)[:120]]}, None
    return canon_tables(tables), tables


def canon_tables(tables):
    return {"ok": [[[int(c[0]), int(c[1])], [canon_entry(e) for e in es]] for c, es in tables.items()]}


def impl_tables(case, seconds=2):
    from rig.routing_table import MultisourceRouteError
    routes, net_keys, _ = build_forest(case)
    if case.get("reconvert") is not None:
        first, tables = convert(routes, net_keys, case, seconds)
        if tables is not None:
            edit_tables(tables, case["reconvert"])
    return convert(routes, net_keys, case, seconds)[0]


def norm_tables(res):
    """order-insensitive form (the property does not fix the order of chips or of entries in a chip)"""
    if "ok" not in res:
        # which of several conflicts is met first depends on the traversal order, which the property leaves
        # open: the reported (key, mask, chip) is judged by the oracle (ConflictAt), not by the correspondence
        return {"err": res["err"][:1]}
    return {"ok": sorted([c, sorted(es)] for c, es in res["ok"])}


def shares(case):
    seen = set()
    for n in case["nets"]:
        for t in tree_nodes(n["tree"]):
            k = (tuple(t["c"]), n["key"], n["mask"])
            if k in seen:
                return True
            seen.add(k)
    return False


def forest_reqs(fc, impl):
    big = any(n["key"] >= 1 << 32 or n["mask"] >= 1 << 32 for n in fc["nets"])
    return [{"suite": "c10", "op": "tables", "nets": fc["nets"]},
            {"suite": "c10", "op": "tables_spec", "nets": fc["nets"], "result": impl if "hang" not in impl else {"err": ["hang"]}},
            {"suite": "c10", "op": "to_c04", "tables": [] if big else impl.get("ok", [])}]


def judge_forest(ctx, case, fc, impl, out3, label="", count=True):
    """judge one conversion: `fc` = the forest as it was at the call (nets + options), `case` = what is reported
    (the forest itself or the whole history it belongs to)"""
    from harness import c04
    model, spec, conv = out3
    ctx.traces += 1
    wf = all(wellformed(n["tree"]) for n in fc["nets"])
    if "hang" in impl:
        # the model always returns (tables_total / tables_exact): not returning is a failure of the conversion
        ctx.violation("did-not-return", label + "routing_tree_to_tables did not return: " + impl["hang"], case)
        if count:
            ctx.case(case, False)
        return False
    # cross-model: Lean `toC04` of the implementation's entries = the encoding C04's harness feeds its model
    big = any(n["key"] >= 1 << 32 or n["mask"] >= 1 << 32 for n in fc["nets"])
    want = [] if big else [[ch, [[c04.bits_of(r), k, m, c04.bits_of(None if x < 0 else x for x in src)] for r, k, m, src in es]]
                           for ch, es in impl.get("ok", [])]
    if conv != want:
        ctx.mismatch("c10.to_c04", "toC04 of the tables differs from the C04 encoding: %r / %r" % (
            str(conv)[:200], str(want)[:200]), case)
    ctx.tag("forest_" + ("ok" if "ok" in impl else impl["err"][0]) + ("" if wf else "_malformed"))
    if "ok" in impl and shares(fc):
        ctx.tag("forest_ok_with_merge")
    nodes = [t for n in fc["nets"] for t in tree_nodes(n["tree"])]
    if any("s" in t for t in nodes):
        ctx.tag("forest_decorated")
        if any(t.get("s") for n in fc["nets"] for t in tree_nodes(n["tree"])[1:]):
            ctx.tag("forest_subclass_below_root")
        if any(t.get("s") for n in fc["nets"] for t in tree_nodes(n["tree"])[:1]):
            ctx.tag("forest_subclass_at_root")
        if any(t.get("f") == "set" for t in nodes):
            ctx.tag("forest_children_in_set")
        if any(not t["k"] and t.get("nk") in ("omit", "none", "kw") for t in nodes):
            ctx.tag("forest_children_argument_omitted_or_None")
    if fc.get("reconvert") is not None:
        ctx.tag("forest_converted_again_after_caller_edits")
    for k in fc.get("sharing") or []:
        ctx.tag("forest_shared_object_" + k)
    if any(n.get("kmo") for n in fc["nets"]):
        ctx.tag("forest_shared_key_mask_object")
    if fc.get("ak"):
        ak = fc["ak"]
        ctx.tag("forest_ak_ids_" + ak["ids"], "forest_ak_call_" + ak["conv"], "forest_ak_numbers_" + ak["num"],
                "forest_ak_routes_" + ak["routes"], "forest_ak_net_keys_" + ak["net_keys"])
    if big:
        ctx.tag("forest_big_key_or_mask")
    if any(t["c"][0] >= 1 << 31 or t["c"][1] >= 1 << 31 for t in nodes):
        ctx.tag("forest_big_chip_coordinates")
    if not fc["nets"]:
        ctx.tag("forest_empty")
    if norm_tables(impl) != norm_tables(model):
        ctx.mismatch("c10.tables", label + "impl=%r model=%r" % (str(impl)[:300], str(model)[:300]), case)
    elif impl != model:
        ctx.tag("forest_order_differs_from_model")
    if wf:
        if not spec["holds"]:
            if "ok" in impl:
                what = ("tables are not exactly what the trees demand (conflict among trees: %s): %s"
                        % (spec["conflict"], str(impl)[:300]))
                key = "tables-not-exact" if not spec["conflict"] else "multisource-not-reported"
            elif impl["err"][0] == "multisource":
                what = "MultisourceRouteError%r but no two nodes there fork differently" % (impl["err"][1:],)
                key = "multisource-spurious"
            else:
                what = "undocumented error %r on well-formed trees" % (impl["err"],)
                key = "unexpected-error"
            ctx.violation(key, label + what, case)
        if spec["conflict"]:
            ctx.tag("forest_conflict")
    nontrivial = wf and shares(fc)
    if count:
        ctx.case(case, nontrivial)
    return nontrivial


def expand_scale_forest(case):
    """the forest of a scale case (built from a few numbers; deep chains cannot be written as nested JSON)"""
    n, shape = case["n"], case["shape"]
    if shape == "chain":
        # one chain of n hops along the x axis, a core at every hop, a second net joining half-way
        t = {"c": [n, 3], "k": [[9, None]]}
        for i in range(n - 1, -1, -1):
            t = {"c": [i, 3], "k": [[6 + i % 18, None], [0, t]] if i % 2 else [[0, t], [None, None]]}
            if i == n // 2:
                half = t
        nets = [{"key": 0xdead0000, "mask": 0xffff0000, "tree": t},
                {"key": 0xbeef0000, "mask": 0xffff0000, "tree": {"c": [n // 2, 2], "k": [[2, half]]}}]
    elif shape == "star":
        # one node with n children (all 24 routes and None, many times over) and six subtrees
        kids = [[None if i % 25 == 24 else i % 25, None] for i in range(n)]
        kids += [[l, {"c": [10 + LINK_VEC[l][0], 10 + LINK_VEC[l][1]], "k": [[6 + l, None]] * 40}] for l in range(6)]
        nets = [{"key": 1, "mask": 0xffffffff, "tree": {"c": [10, 10], "k": kids}}]
    else:
        # n nets with the same key and mask, all crossing chip (5, 5) from six directions and leaving it the same way
        nets = []
        for i in range(n):
            l = i % 6
            dx, dy = LINK_VEC[l]
            nets.append({"key": 0x42, "mask": 0xff, "tree": {"c": [5 - dx, 5 - dy], "k": [
                [l, {"c": [5, 5], "k": [[7, None], [8, None]] if i % 2 else [[8, None], [7, None], [8, None]]}]]}})
    return {"kind": "forest", "nets": nets, "links_enum": case.get("links_enum", False), "ak": case.get("ak")}


def lean_tree(t):
    """a tree for the Lean side: deep chains in the flat form"""
    items, cur = [], t
    while True:
        subs = [(r, s) for r, s in cur["k"] if s is not None]
        if len(subs) > 1 or (subs and cur["k"][-1][1] is None and False):
            return t
        leaves = [[r, None] for r, s in cur["k"] if s is None]
        if not subs:
            items.append({"c": cur["c"], "k": leaves})
            break
        # (the flat form puts the subtree after the leaves: the order of children is not observable in the model's
        # result up to the order of entries, which the comparison ignores)
        items.append({"c": cur["c"], "k": leaves, "r": subs[0][0]})
        cur = subs[0][1]
    return {"chain": items} if len(items) > 200 else t


def eval_scale_forests(ctx, cases):
    import sys
    old = sys.getrecursionlimit()
    sys.setrecursionlimit(200000)
    try:
        for c in cases:
            fc = expand_scale_forest(c)
            impl = impl_tables(fc, seconds=120)
            lean_fc = dict(fc, nets=[dict(n, tree=lean_tree(n["tree"])) for n in fc["nets"]])
            out = ctx.lean(forest_reqs(lean_fc, impl))
            ctx.tag("scale_forest_%s_%d_%s" % (c["shape"], c["n"], "ok" if "ok" in impl else "hang" if "hang" in impl
                                               else impl["err"][0]))
            judge_forest(ctx, c, fc, impl, out, label="scale (%s, %d): " % (c["shape"], c["n"]))
    finally:
        sys.setrecursionlimit(old)


def eval_forests(ctx, cases, seconds=2):
    reqs, impls = [], []
    for c in cases:
        impls.append(impl_tables(c, seconds))
        reqs += forest_reqs(c, impls[-1])
    out = ctx.lean(reqs)
    for i, c in enumerate(cases):
        judge_forest(ctx, c, c, impls[i], out[3 * i:3 * i + 3])


# --------------------------------------------------------------------------------------------
# histories of conversions and traversals in one process, on live objects the caller keeps and edits
# --------------------------------------------------------------------------------------------
#
# {"kind": "fhist", "forests": [forest, ...], "steps": [step, ...]}; the forests' trees, routes dicts and net_keys
# dicts are built ONCE (after rig was imported afresh) and live through the history.  Steps:
#   ["conv", f]            routing_tree_to_tables on forest f as it is now; judged; the returned dict is kept
#   ["edit", f, op]        the caller edits, in place, what it passes: op =
#                            {"op": "add_kid", "net": i, "path": [child index, ...], "kid": [route, None]}
#                            {"op": "del_kid", "net": i, "path": [...], "idx": j}
#                            {"op": "set_km", "net": i, "key": k, "mask": m}     (net_keys[net] = ...)
#                            {"op": "del_net", "net": i}                          (del routes[net]; del net_keys[net])
#   ["trav", f, i, n]      a new traverse() generator on net i's tree, advanced n items and left suspended
#   ["resume", g, n]       generator number g advanced n more items (-1: to the end)
# At the end every kept conversion result is read again: it must be what it was when it was returned; every traversal
# (complete or abandoned) is compared with the Lean model's traversal of the tree.

def forest_edit_json(fc, op):
    n = fc["nets"][op["net"]]
    if op["op"] == "set_km":
        n["key"], n["mask"] = op["key"], op["mask"]
    elif op["op"] == "del_net":
        n["deleted"] = True
    else:
        t = n["tree"]
        for j in op["path"]:
            t = t["k"][j][1]
        if op["op"] == "add_kid":
            t["k"].append(list(op["kid"]))
            if "v" in t:
                t["v"].append("obj")
        else:
            del t["k"][op["idx"]]
            if "v" in t:
                del t["v"][op["idx"]]


def forest_edit_live(live, fc_before, op):
    from rig.routing_table import Routes
    routes, net_keys, ids = live
    net = ids[op["net"]]
    if op["op"] == "set_km":
        net_keys[net] = make_km(fc_before.get("ak") or {}, op["key"], op["mask"], op["net"])
    elif op["op"] == "del_net":
        del routes[net]
        del net_keys[net]
    else:
        t = routes[net]
        for j in op["path"]:
            t = t.children[j][1]
        if op["op"] == "add_kid":
            r = op["kid"][0]
            t.children.append((None if r is None else Routes(r), Vertex()))
        else:
            del t.children[op["idx"]]


def current_forest(fc):
    """the forest as the conversion sees it now (deleted nets gone)"""
    out = {k: v for k, v in fc.items() if k != "nets"}
    out["nets"] = [n for n in fc["nets"] if not n.get("deleted")]
    return out


def unshare(fc):
    """forget the object sharing (histories that edit the trees or change one copy only)"""
    for n in fc["nets"]:
        n.pop("kmo", None)
        for t in tree_nodes(n["tree"]):
            t.pop("o", None)
    fc.pop("sharing", None)
    return fc


def listify(fc):
    for n in fc["nets"]:
        for t in tree_nodes(n["tree"]):
            if "f" in t:
                t["f"] = "list"
                t["p"] = "tuple"
                t["nk"] = "empty"
    return fc


def random_path(rng, tree):
    """path (child indices) to a random node reached through subtrees only"""
    path, t = [], tree
    while True:
        subs = [j for j, (r, s) in enumerate(t["k"]) if s is not None]
        if not subs or rng.random() < 0.4:
            return path, t
        j = rng.choice(subs)
        path.append(j)
        t = t["k"][j][1]


def gen_fhist(rng):
    import copy
    kind = rng.choice(["repeat", "twins", "twins", "inplace", "inplace", "inplace", "lazy", "lazy"])
    f0 = gen_forest(rng)
    while not f0["nets"] or not all(wellformed(n["tree"]) for n in f0["nets"]):
        f0 = gen_forest(rng)
    f0.pop("reconvert", None)
    forests, steps = [f0], []
    if kind == "repeat":
        steps = [["conv", 0]] * rng.choice([2, 3])
    elif kind == "twins":
        f1 = unshare(copy.deepcopy(f0))
        n = rng.choice(f1["nets"])
        how = rng.choice(["route", "key", "class", "drop", "enum", "ak"])
        node = rng.choice(tree_nodes(n["tree"]))
        if how == "route" and node["k"]:
            kid = rng.choice(node["k"])
            if kid[1] is None:
                kid[0] = rng.choice([None, rng.randrange(24)])
            else:
                how = "key"
        if how == "key":
            n["key"] = n["key"] ^ (1 << rng.randrange(32))
        elif how == "class":
            node["s"] = (node.get("s", 0) + 1) % 4
        elif how == "drop" and node["k"]:
            j = rng.randrange(len(node["k"]))
            del node["k"][j]
            if "v" in node:
                del node["v"][j]
        elif how == "enum":
            f1["links_enum"] = not f1.get("links_enum")
        elif how == "ak":
            f1["ak"] = None if f1.get("ak") else {"ids": "str", "routes": "ordered", "net_keys": "default", "km": "named",
                                                  "num": "intlike", "conv": "kw"}
        forests.append(f1)
        steps = rng.choice([[["conv", 0], ["conv", 1]], [["conv", 1], ["conv", 0]],
                            [["conv", 0], ["conv", 1], ["conv", 0]], [["conv", 1], ["conv", 0], ["conv", 1]]])
    elif kind == "inplace":
        listify(unshare(f0))
        work = copy.deepcopy(f0)
        steps.append(["conv", 0])
        for _ in range(rng.choice([1, 2, 3])):
            cur = current_forest(work)
            alive = [i for i, n in enumerate(work["nets"]) if not n.get("deleted")]
            i = rng.choice(alive)
            what = rng.choice(["add_kid", "add_kid", "del_kid", "set_km", "del_net" if len(alive) > 1 else "add_kid"])
            path, node = random_path(rng, work["nets"][i]["tree"])
            if what == "del_kid":
                leaves = [j for j, (r, s) in enumerate(node["k"]) if s is None]
                if leaves:
                    op = {"op": "del_kid", "net": i, "path": path, "idx": rng.choice(leaves)}
                else:
                    what = "add_kid"
            if what == "add_kid":
                op = {"op": "add_kid", "net": i, "path": path, "kid": [rng.choice([None, rng.randrange(24), 6 + rng.randrange(18)]), None]}
            elif what == "set_km":
                other = rng.choice(work["nets"])
                op = {"op": "set_km", "net": i, "key": other["key"] if rng.random() < 0.6 else rng.randrange(1 << 32),
                      "mask": other["mask"]}
            elif what == "del_net":
                op = {"op": "del_net", "net": i}
            forest_edit_json(work, op)
            steps.append(["edit", 0, op])
            steps.append(["conv", 0])
            if rng.random() < 0.3:
                steps.append(["conv", 0])
    else:
        listify(f0)
        if rng.random() < 0.5:
            forests.append(listify(gen_forest_wf(rng)))
        gens = []
        for _ in range(rng.choice([2, 3, 4])):
            f = rng.randrange(len(forests))
            steps.append(["trav", f, rng.randrange(len(forests[f]["nets"])), rng.choice([0, 1, 1, 2, 3])])
            gens.append(len(gens))
            if rng.random() < 0.5:
                steps.append(["conv", rng.randrange(len(forests))])
            if rng.random() < 0.6:
                steps.append(["resume", rng.choice(gens), rng.choice([1, 2, -1])])
        for g in gens:
            if rng.random() < 0.6:           # the others are abandoned half-way
                steps.append(["resume", g, -1])
    return {"kind": "fhist", "forests": forests, "steps": [list(x) for x in steps]}


def gen_forest_wf(rng):
    f = gen_forest(rng)
    while not f["nets"] or not all(wellformed(n["tree"]) for n in f["nets"]):
        f = gen_forest(rng)
    f.pop("reconvert", None)
    return f


def canon_visit(v):
    d, chip, outs = v
    return [None if d is None else int(d), [int(chip[0]), int(chip[1])], sorted(int(r) for r in outs)]


def run_fhist(case):
    """returns (conversions [(forest at the call, outcome)], changed kept results, traversals [(tree, visits, done)])"""
    import copy
    from harness import common
    fresh_rig()
    work = [copy.deepcopy(f) for f in case["forests"]]
    live = [build_forest(f) for f in work]
    convs, kept, gens = [], [], []
    for step in case["steps"]:
        if step[0] == "conv":
            f = step[1]
            fc = current_forest(copy.deepcopy(work[f]))
            impl, tables = convert(live[f][0], live[f][1], fc)
            convs.append((fc, impl))
            if tables is not None:
                kept.append((len(convs) - 1, tables, impl))
        elif step[0] == "edit":
            forest_edit_live(live[step[1]], work[step[1]], step[2])
            forest_edit_json(work[step[1]], step[2])
        elif step[0] == "trav":
            f, i, n = step[1], step[2], step[3]
            tree = live[f][0][live[f][2][i]]
            gens.append({"tree": copy.deepcopy(work[f]["nets"][i]["tree"]), "gen": tree.traverse(), "visits": [],
                         "done": False, "hang": None})
            step = ["resume", len(gens) - 1, n]
        if step[0] == "resume":
            g = gens[step[1]]
            n = step[2]
            try:
                while not g["done"] and n != 0:
                    try:
                        g["visits"].append(canon_visit(limited(2, lambda: next(g["gen"]))))
                    except StopIteration:
                        g["done"] = True
                    n -= 1
            except common.ImplHang as e:
                _HANGS[0] += 1
                g["hang"], g["done"] = str(e), True
            except (AssertionError, ValueError) as e:
                g["visits"].append(["raised", type(e).__name__])
                g["done"] = True
    changed = []
    for idx, tables, impl in kept:
        now = canon_tables(tables)
        if now != impl:
            changed.append((idx, impl, now))
    restore_default_sources()
    return convs, changed, gens


def eval_fhists(ctx, cases):
    runs, reqs = [], []
    for c in cases:
        convs, changed, gens = run_fhist(c)
        spans = []
        for fc, impl in convs:
            spans.append(len(reqs))
            reqs += forest_reqs(fc, impl)
        tspans = []
        for g in gens:
            tspans.append(len(reqs))
            reqs.append({"suite": "c10", "op": "traverse", "tree": g["tree"]})
        runs.append((c, convs, changed, gens, spans, tspans))
    out = ctx.lean(reqs)
    for c, convs, changed, gens, spans, tspans in runs:
        nontrivial = len(convs) > 1
        for k, ((fc, impl), a) in enumerate(zip(convs, spans)):
            judge_forest(ctx, c, fc, impl, out[a:a + 3], label="history, conversion %d of %d (judged against the trees "
                         "and keys as they are at this call): " % (k + 1, len(convs)), count=False)
        for idx, was, now in changed:
            ctx.violation("result-changed-after-return",
                          "the tables returned by conversion %d of this history changed after they were returned, without "
                          "the caller touching them: %r -> %r" % (idx + 1, str(was)[:200], str(now)[:200]), c)
        for g, a in zip(gens, tspans):
            model = out[a]["visits"]
            ctx.tag("traverse_generator_" + ("completed" if g["done"] else "abandoned"))
            if g["hang"]:
                ctx.violation("did-not-return", "RoutingTree.traverse did not yield: " + g["hang"], c)
            elif (g["visits"] != model) if g["done"] else (g["visits"] != model[:len(g["visits"])]):
                # traverse_exact: the model's traversal is exactly the nodes of the tree
                ctx.mismatch("c10.traverse", "traversal %r, model %r" % (str(g["visits"])[:200], str(model)[:200]), c)
            nontrivial = True
        ctx.tag("history", "history_" + ("lazy" if gens else "edits" if any(s[0] == "edit" for s in c["steps"]) else
                                         "twins" if len(c["forests"]) > 1 else "repeat"))
        ctx.case(c, nontrivial)


# --------------------------------------------------------------------------------------------
# machine half
# --------------------------------------------------------------------------------------------

SV_BASE = 0xf5007f00     # cross-checked against the translator output below
N_ROWS = 1024
UNUSED_ROUTE = 0xff000000


def default_row():
    return {"next": 0, "free": 0, "owner": None, "ent": None}


class RouterMachine(simmachine.SimMachine):
    """SimMachine + router: rows, alloc_rtr / free_rtr_by_app (cmd 28), router load (cmd 29) and the
    router copy mapped into memory.  Not trusted: replayed through the Lean specification."""

    def __init__(self, chips, buffer_size, sv):
        super(RouterMachine, self).__init__(W, H, buffer_size)
        self.sv = sv
        self.chips = {}
        self.pairs = []
        for c in chips:
            xy = tuple(c["chip"])
            rows = [default_row() for _ in range(N_ROWS)]
            for i, nx, fr, ow, en in c["rows"]:
                rows[i] = {"next": nx, "free": fr, "owner": ow, "ent": None if en is None else list(en)}
            self.chips[xy] = {"rows": rows, "copy_base": c["copy_base"], "policy": c["policy"],
                              "prng": random.Random(c["pseed"]), "zero": c["zero"]}
            self.poke(xy[0], xy[1], sv["base"] + sv["sdram_sys"], struct.pack("<I", c["sys_buf"]))
            self.poke(xy[0], xy[1], sv["base"] + sv["rtr_copy"], struct.pack("<I", c["copy_base"]))
        self.known = {xy: set(self.mem.get(xy, {})) for xy in self.chips}

    def record(self, row):
        if row["ent"] is not None:
            r, k, m, a, co = row["ent"]
            return struct.pack("<2H3I", row["next"] & 0xffff, (a + 256 * co) & 0xffff, r, k, m)
        return struct.pack("<2H3I", row["next"] & 0xffff, row["free"] & 0xffff, UNUSED_ROUTE, 0xffffffff, 0)

    def peek(self, x, y, addr, n):
        ch = self.chips.get((x, y))
        if ch is None:
            return super(RouterMachine, self).peek(x, y, addr, n)
        cb = ch["copy_base"]
        lo, hi = max(addr, cb), min(addr + n, cb + 16 * N_ROWS)
        if lo >= hi:
            return super(RouterMachine, self).peek(x, y, addr, n)
        r0, r1 = (lo - cb) // 16, (hi - 1 - cb) // 16
        blob = b"".join(self.record(ch["rows"][i]) for i in range(r0, r1 + 1))
        mid = blob[lo - cb - 16 * r0: hi - cb - 16 * r0]
        return (super(RouterMachine, self).peek(x, y, addr, lo - addr) + mid +
                super(RouterMachine, self).peek(x, y, hi, addr + n - hi))

    def handle(self, request):
        reply = super(RouterMachine, self).handle(request)
        req = self.requests[-1]
        payload = reply[14:]
        xy = (req["x"], req["y"])
        check = True
        if req["cmd"] == 2 and xy in self.chips:
            cb = self.chips[xy]["copy_base"]
            known = self.known[xy]
            check = all(a in known or cb <= a < cb + 16 * N_ROWS
                        for a in range(req["arg1"], req["arg1"] + req["arg2"]))
        if req["cmd"] == 3 and xy in self.chips:
            self.known[xy].update(range(req["arg1"], req["arg1"] + len(req["data"])))
        rc = struct.unpack_from("<H", reply, 10)[0]
        self.pairs.append({"req": req_list(req), "rc": rc,
                           "arg1": struct.unpack_from("<I", payload)[0] if req["cmd"] == 28 and len(payload) >= 4 else 0,
                           "data": list(payload) if req["cmd"] == 2 else [], "check": check, "lost": False})
        return reply

    # ALLOC_FREE (28): arg1 = app << 8 | op
    def cmd_28(self, req):
        ch = self.chips.get((req["x"], req["y"]))
        op, app = req["arg1"] & 0xff, (req["arg1"] >> 8) & 0xff
        if ch is None:
            return simmachine.RC_ARG, (), b""
        rows = ch["rows"]
        if op == 3:
            n = req["arg2"]
            starts = [b for b in range(1, N_ROWS - n + 1)
                      if all(rows[i]["owner"] is None for i in range(b, b + n))] if n > 0 else []
            if n == 0:
                starts = [b for b in range(1, N_ROWS)] if ch["zero"] else []
            pol = ch["policy"]
            if not starts or pol == "refuse":
                base = 0
            elif pol == "first":
                base = starts[0]
            elif pol == "last":
                base = starts[-1]
            else:
                base = ch["prng"].choice(starts)
            if base:
                for i in range(base, base + n):
                    rows[i]["owner"] = app
            return simmachine.OK, (base,), b""
        if op == 5:
            cnt = 0
            for r in rows:
                if r["owner"] == app:
                    r["owner"], r["ent"] = None, None
                    cnt += 1
            return simmachine.OK, (0,), b""
        return simmachine.RC_ARG, (), b""

    # ROUTER (29): arg1 = count << 16 | app << 8 | op
    def cmd_29(self, req):
        ch = self.chips.get((req["x"], req["y"]))
        if ch is None or (req["arg1"] & 0xff) != 2:
            return simmachine.RC_ARG, (), b""
        count, app = req["arg1"] >> 16, (req["arg1"] >> 8) & 0xff
        addr, base = req["arg2"], req["arg3"]
        raw = self.peek(req["x"], req["y"], addr, 16 * count)
        for i in range(count):
            nx, _, route, key, mask = struct.unpack_from("<2H3I", raw, 16 * i)
            if base + nx < N_ROWS:
                ch["rows"][base + nx]["ent"] = [route, key, mask, app, 0]
        return simmachine.OK, (), b""

    def rows_json(self, xy):
        out = []
        for i, r in enumerate(self.chips[xy]["rows"]):
            if r != default_row():
                out.append([i, r["next"], r["free"], r["owner"], r["ent"]])
        return out


def req_list(q):
    return [q["x"], q["y"], q["p"], q["cmd"], q["arg1"] or 0, q["arg2"] or 0, q["arg3"] or 0, list(q["data"])]


SIZES = [0, 1, 1, 2, 3, 5, 16, 17, 33, 64]


def gen_rows(rng, kind):
    """initial router state: [[i, next, free, owner, ent], ...]"""
    rows = []

    def row(i, owner, ent):
        rows.append([i, rng.randrange(1 << 16) if rng.random() < 0.5 else 0, rng.randrange(1 << 16) if rng.random() < 0.5 else 0,
                     owner, ent])

    def ent(app):
        return [rng.randrange(1 << 24), rng.randrange(1 << 32), rng.randrange(1 << 32), app, rng.randrange(16)]
    if rng.random() < 0.85:
        row(0, 0, ent(0) if rng.random() < 0.5 else None)
    if kind == "empty":
        return rows
    if kind == "full":
        for i in range(1, N_ROWS):
            row(i, rng.randrange(256), ent(rng.randrange(256)) if rng.random() < 0.3 else None)
        return rows
    # fragmented: alternating owned / free runs
    i = 1
    while i < N_ROWS:
        run = rng.choice([1, 2, 3, 8, 20, 100, 400])
        if rng.random() < 0.5:
            app = rng.randrange(256)
            for j in range(i, min(N_ROWS, i + run)):
                row(j, app, ent(app) if rng.random() < 0.7 else None)
        elif rng.random() < 0.15:
            # a stale entry on a free row
            row(i, None, ent(rng.randrange(256)))
        i += run
    return rows


def gen_entries(rng, n):
    es = []
    for _ in range(n):
        r = rng.random()
        if r < 0.1:
            route = []
        elif r < 0.2:
            route = list(range(24))
        elif r < 0.4:
            route = [rng.randrange(24)]
        else:
            route = sorted(rng.sample(range(24), rng.randrange(1, 25)))
        k = rng.choice([0, 0xffffffff, 0x80000000, rng.randrange(1 << 32), rng.randrange(1 << 32)])
        m = rng.choice([0, 0xffffffff, 0xffff0000, rng.randrange(1 << 32), rng.randrange(1 << 32)])
        es.append([route, k, m])
    if n >= 2 and rng.random() < 0.35:
        # the same entry more than once (adjacent, far apart, three times), entries with the key and mask of another but
        # a different route, in any position: a table is a list - the router gets every one of them, in order
        for _ in range(rng.choice([1, 1, 2, 3])):
            i, j = rng.randrange(n), rng.randrange(n)
            if rng.random() < 0.65:
                es[j] = [list(es[i][0]), es[i][1], es[i][2]]
            else:
                es[j] = [es[j][0], es[i][1], es[i][2]]
            if rng.random() < 0.3 and i + 1 < n:
                es[i + 1] = [list(es[i][0]), es[i][1], es[i][2]]
    return es


def expand_load(case):
    """the full (deterministic) content of a machine case from its seed and size class"""
    rng = random.Random(case["seed"])
    n_chips = case["n_chips"]
    grid = 16 if case["size"] == "many" else W
    coords = rng.sample([(x, y) for x in range(grid) for y in range(grid)], n_chips)
    chips, tables = [], []
    for xy in coords:
        kind = rng.choice(["empty", "frag", "frag", "frag", "frag", "frag", "frag", "full"]) if case["size"] != "huge" else \
            rng.choice(["empty", "empty", "frag"])
        if case["size"] in ("over", "many"):
            # scale: more entries than a router has rows / than 16 bits count; hundreds of chips in one dict
            kind = "empty"
            n = case["n"] if case["size"] == "over" else rng.choice([0, 1, 1, 2])
        elif case["size"] == "huge":
            n = rng.choice([1023, 1023, 1024, 1000, 512])
        elif case["size"] == "big":
            n = rng.choice([64, 100, 255, 256, 257, 300])
        else:
            n = rng.choice(SIZES)
        sys_buf = 0x60000000 + 4 * rng.randrange(0x10000)
        copy_base = 0x70000000 + 16 * rng.randrange(0x1000)
        chips.append({"chip": list(xy), "sys_buf": sys_buf, "copy_base": copy_base, "rows": gen_rows(rng, kind),
                      "policy": rng.choice(["first", "first", "last", "last", "rand", "rand", "rand", "refuse"] if n_chips == 1 or rng.random() < 0.3
                                           else ["first", "last", "rand"]),
                      "pseed": rng.randrange(1 << 30), "zero": rng.random() < 0.5})
        tables.append([list(xy), gen_entries(rng, n)])
    full = {"chips": chips, "tables": tables, "app": rng.choice([0, 1, 16, 66, 255, rng.randrange(256)]),
            "buf": rng.choice([16, 64, 128, 256, 256, 256, 512]),
            "via": "entries" if n_chips == 1 and rng.random() < 0.5 else "tables",
            "clear": rng.random() < 0.3, "wide": case.get("wide", False),
            "readback": [c for i, c in enumerate(coords) if i == 0 or (rng.random() < 0.3 and case["size"] != "many")]}
    # (drawn after everything else so that older payloads expand as before)
    # bystander chips: a router state but no table - load_routing_tables must leave them alone
    full["bystanders"] = []
    if case["size"] not in ("huge", "over", "many") and rng.random() < 0.5:
        rest = [(x, y) for x in range(W) for y in range(H) if (x, y) not in coords]
        for xy in rng.sample(rest, rng.choice([1, 1, 2])):
            full["bystanders"].append({"chip": list(xy), "sys_buf": 0x60000000 + 4 * rng.randrange(0x10000),
                                       "copy_base": 0x70000000 + 16 * rng.randrange(0x1000),
                                       "rows": gen_rows(rng, rng.choice(["empty", "frag"])), "policy": "first",
                                       "pseed": 0, "zero": False})
    # lossy stream: for some chips the first transmission(s) of the alloc_rtr request are lost - either the
    # request itself (never executed) or its reply (executed, answer never seen: the retransmission allocates again)
    full["loss"] = []
    if case.get("lost"):
        for i, xy in enumerate(coords):
            if i == 0 or rng.random() < 0.5:
                full["loss"].append([list(xy), rng.choice([["reply"], ["reply"], ["reply"], ["request"], ["reply", "reply"],
                                                           ["request", "reply"], ["reply", "request"]])])
    return full


def sv_layout():
    from harness import common
    from harness.gen.c10 import sv_fields
    base, f = sv_fields(common.REPO)
    return {"base": base, "sdram_sys": f["sdram_sys"][0], "rtr_copy": f["rtr_copy"][0]}


def traces(net, start):
    seen, out = set(), []
    for e in net.log[start:]:
        if e[0] == "send":
            q = simnet.parse_scp(e[2])
            if q["cmd"] != 0 and q["seq"] not in seen:
                seen.add(q["seq"])
                out.append(req_list(q))
    return out


def canon_dec(d):
    if d is None:
        return None
    rte, app, core = d
    return [sorted(int(r) for r in rte.route), int(rte.key), int(rte.mask), int(app), int(core),
            sorted(-1 if x is None else int(x) for x in rte.sources)]


def caller_edits_readback(t, before, ed):
    """the caller edits, in place, ITS copy of one entry of the read-back `t` (and then the list itself); returns
    (edited index, first other index that changed, was, now, how many changed) if any other entry changed with it"""
    from rig.routing_table import Routes
    used = [i for i, d in enumerate(t) if d is not None]
    alias = None
    if used:
        i = used[ed["row"] % len(used)]
        if ed["discard_none"]:
            t[i][0].sources.discard(None)
        t[i][0].sources.add(Routes(ed["add"]))
        after = [canon_dec(d) for d in t]
        bad = [j for j in used if j != i and after[j] != before[j]]
        if bad:
            alias = (i, bad[0], before[bad[0]], after[bad[0]], len(bad))
    if ed.get("list") == "pop":
        t.pop()
    elif ed.get("list") == "reverse":
        t.reverse()
    elif ed.get("list") == "clear":
        del t[:]
    elif ed.get("list") == "none0":
        t[0] = None
    return alias


class ListSubclass(list):
    pass


_entry_classes = {}


def entry_classes():
    """RoutingTableEntry and an application subclass of it (per rig module object)"""
    from rig.routing_table import entries as em
    if _entry_classes.get("base") is not em.RoutingTableEntry:
        class NotedEntry(em.RoutingTableEntry):
            """an application subclass (a namedtuple subclass without __slots__: instances have a __dict__)"""
            def describe(self):
                return "noted " + str(self)
        _entry_classes.update(base=em.RoutingTableEntry, classes=[em.RoutingTableEntry, NotedEntry])
    return _entry_classes["classes"]


def small_int_like(v, i):
    """x, y and app ids as other true ints: bool, IntEnum member (rig passes plain ints and IntEnum members here,
    never numpy integers)"""
    if v in (0, 1) and i % 2 == 0:
        return bool(v)
    if i % 3 == 1:
        import enum
        return enum.IntEnum("Small", {"member_%d" % i: v})["member_%d" % i]
    return v


class Caller(object):
    """How the caller talks to a MachineController: argument kinds and calling conventions drawn from `ak`
    (None: the plain form - sets of Routes, lists, a dict, positional ints).  Nothing here changes what is asked
    for, only how it is written down."""

    def __init__(self, ak):
        self.rk = random.Random(ak) if ak is not None else None
        self.used = set()

    def pick(self, name, options):
        if self.rk is None:
            return options[0]
        o = self.rk.choice(options)
        self.used.add("ak_%s_%s" % (name, o))
        return o

    def num(self, v):
        return v if self.rk is None else small_int_like(v, self.rk.randrange(6))

    def entry(self, e, extra_key=0):
        from rig.routing_table import Routes
        route, key, mask = e[0], e[1] + extra_key, e[2]
        rs = [Routes(r) for r in route]
        form = self.pick("route", ["set", "frozenset", "list_with_duplicate", "tuple", "iterator"])
        if form == "frozenset":
            rs = frozenset(rs)
        elif form == "list_with_duplicate":
            rs = rs + rs[:1]
        elif form == "tuple":
            rs = tuple(rs)
        elif form == "iterator":
            rs = iter(rs)
        else:
            rs = set(rs)
        cls = entry_classes()[0 if self.pick("class", ["RoutingTableEntry", "RoutingTableEntry", "subclass"]) != "subclass" else 1]
        if self.rk is not None and key < (1 << 32) and self.rk.random() < 0.3:
            key, mask = int_like(key, self.rk.randrange(6)), int_like(mask, self.rk.randrange(6))
            self.used.add("ak_key_intlike")
        src = self.pick("sources", ["default", "default", "unknown", "link", "link_and_unknown", "list"])
        if src == "default":
            return cls(rs, key, mask) if self.pick("entry_call", ["pos", "kw"]) == "pos" else cls(route=rs, key=key, mask=mask)
        sources = {"unknown": {None}, "link": {Routes(len(route) % 6)}, "link_and_unknown": {None, Routes(key % 6)},
                   "list": [Routes(mask % 6), None]}[src]
        return cls(rs, key, mask, sources) if self.pick("entry_call", ["pos", "kw"]) == "pos" else \
            cls(sources=sources, mask=mask, key=key, route=rs)

    def table(self, entries, mutable=False):
        form = self.pick("table", ["list", "list", "list_subclass"] + ([] if mutable else ["tuple"]))
        return tuple(entries) if form == "tuple" else ListSubclass(entries) if form == "list_subclass" else list(entries)

    def tables_dict(self):
        return make_dict(self.pick("tables", ["dict", "dict", "ordered", "default", "subclass"]))

    def chip_key(self, xy):
        return ChipXY(*xy) if self.pick("chip_key", ["tuple", "tuple", "named"]) == "named" else tuple(xy)

    def load_entries(self, mc, es, xy, app):
        x, y, app = self.num(xy[0]), self.num(xy[1]), self.num(app)
        conv = self.pick("load_call", ["pos", "pos", "kw", "ctx", "mixed"])
        if conv == "kw":
            return mc.load_routing_table_entries(app_id=app, y=y, x=x, entries=es)
        if conv == "ctx":
            with mc(x=x, y=y, app_id=app):
                return mc.load_routing_table_entries(es)
        if conv == "mixed":
            with mc(app_id=app, x=(xy[0] + 1) % 4, y=(xy[1] + 2) % 4):      # x, y of the context are overridden
                return mc.load_routing_table_entries(es, x, y=y)
        return mc.load_routing_table_entries(es, x, y, app)

    def load_tables(self, mc, tables, app, elsewhere):
        app = self.num(app)
        conv = self.pick("tables_call", ["pos", "pos", "kw", "ctx"])
        if conv == "kw":
            return mc.load_routing_tables(app_id=app, routing_tables=tables)
        if conv == "ctx":
            with mc(app_id=app, x=elsewhere[0], y=elsewhere[1]):            # the chips come from the dict, not from here
                return mc.load_routing_tables(tables)
        return mc.load_routing_tables(tables, app)

    def get(self, mc, xy):
        x, y = self.num(xy[0]), self.num(xy[1])
        conv = self.pick("get_call", ["pos", "pos", "kw", "ctx"])
        if conv == "kw":
            return mc.get_routing_table_entries(y=y, x=x)
        if conv == "ctx":
            with mc(x=x, y=y):
                return mc.get_routing_table_entries()
        return mc.get_routing_table_entries(x, y)

    def clear(self, mc, xy, app):
        x, y, app = self.num(xy[0]), self.num(xy[1]), self.num(app)
        conv = self.pick("clear_call", ["pos", "kw", "ctx"])
        if conv == "kw":
            return mc.clear_routing_table_entries(app_id=app, x=x, y=y)
        if conv == "ctx":
            with mc(x=x, y=y, app_id=app):
                return mc.clear_routing_table_entries()
        return mc.clear_routing_table_entries(x, y, app)


def call_outcome(seconds, f):
    """run one controller call: 'ok' / the documented errors / what else happened"""
    from harness import common
    from rig.machine_control import scp_connection as sc
    from rig.machine_control.machine_controller import SpiNNakerRouterError
    try:
        limited(seconds, f)
        return "ok"
    except common.ImplHang as e:
        _HANGS[0] += 1
        return ["hang", str(e)]
    except SpiNNakerRouterError as e:
        return ["RouterError", int(e.count), int(e.chip[0]), int(e.chip[1])]
    except struct.error:
        return ["struct.error"]
    except (sc.TimeoutError, sc.FatalReturnCodeError) as e:
        return ["scp", repr(e)]
    except (RecursionError, OverflowError, MemoryError, TypeError, KeyError, AttributeError, IndexError, ValueError) as e:
        import traceback
        tb = traceback.extract_tb(e.__traceback__)
        return ["undocumented", type(e).__name__, str(e)[:100], "%s:%s" % (tb[-1].name, tb[-1].lineno) if tb else ""]


def read_back(seconds, f):
    """one get_routing_table_entries call: ({"ok": canonical} | {"err": ...}, the list handed back or None)"""
    box = []
    out = call_outcome(seconds, lambda: box.append(f()))
    if out == "ok":
        return {"ok": [canon_dec(d) for d in box[0]]}, box[0]
    return {"err": out}, None


def run_load_impl(case, full, sv):
    from rig.machine_control import scp_connection as sc
    from rig.machine_control.machine_controller import SpiNNakerRouterError
    from rig.routing_table import RoutingTableEntry, Routes
    machine = RouterMachine(full["chips"] + full.get("bystanders", []), full["buf"], sv)
    loss = {tuple(xy): list(kinds) for xy, kinds in full.get("loss", [])}

    def script(k, data):
        q = simnet.parse_scp(data)
        if q["cmd"] == 28 and q["arg1"] is not None and (q["arg1"] & 0xff) == 3:
            todo = loss.get(machine.chip(q["x"], q["y"]))
            if todo:
                if todo.pop(0) == "reply":
                    machine.handle(data)            # executed by the chip, the reply never arrives
                    machine.pairs[-1]["lost"] = True
                return []
        return [(1, "ok")]
    net = simnet.Net(machine.handle, script)
    res = {"machine": machine}
    with simnet.installed(net):
        mc = simmachine.make_controller(net)
        mc._window_size = case.get("window", 1)
        _ = mc.scp_data_length
        res["rows0"] = {xy: machine.rows_json(xy) for xy in machine.chips}
        start = len(net.log)
        n_pairs = len(machine.pairs)
        cl = Caller(case.get("ak"))
        secs = case.get("cpu", 30)
        tables = cl.tables_dict()
        for xy, es in full["tables"]:
            tables[cl.chip_key(xy)] = cl.table([cl.entry(e, (1 << 32) if full["wide"] and i == len(es) - 1 else 0)
                                                for i, e in enumerate(es)])
        if full["via"] == "entries":
            (xy, es), = tables.items()
            res["outcome"] = call_outcome(secs, lambda: cl.load_entries(mc, es, xy, full["app"]))
        else:
            res["outcome"] = call_outcome(secs, lambda: cl.load_tables(mc, tables, full["app"], (3, 3)))
        res["trace_load"] = traces(net, start)
        res["rows1"] = {xy: machine.rows_json(xy) for xy in machine.chips}
        # read back every chip
        res["readback"] = {}
        res["trace_get"] = {}
        res["alias"] = []
        for k, xy in enumerate(full["readback"] if res["outcome"][0] != "hang" else []):
            start = len(net.log)
            res["readback"][xy], t = read_back(secs, lambda: cl.get(mc, xy))
            if t is not None:
                # the caller notes an arrival link on its copy of one entry (before any further read-back)
                alias = caller_edits_readback(t, res["readback"][xy]["ok"],
                                              {"row": case["seed"] % 997 + k, "add": case["seed"] % 24,
                                               "discard_none": case["seed"] % 3 != 0, "list": None})
                if alias:
                    res["alias"].append((xy,) + alias)
            res["trace_get"][xy] = traces(net, start)
        if res["outcome"][0] == "hang":
            full["readback"], full["clear"] = [], False
        if full["clear"]:
            xy = tuple(full["chips"][0]["chip"])
            start = len(net.log)
            res["clear_outcome"] = call_outcome(secs, lambda: cl.clear(mc, xy, full["app"]))
            res["trace_clear"] = traces(net, start)
            res["rows2"] = machine.rows_json(xy)
        res["ak_used"] = sorted(cl.used)
    res["pairs"] = machine.pairs[n_pairs:]
    restore_default_sources()
    return res


def chip_states(full, rows_by_chip, sv, extra=None):
    """chip states for the Lean side; `extra` = {chip: [[addr, byte], ...]} memory known beyond the two sv words
    (sessions: what the staging buffer holds when the step starts)"""
    out = []
    for c in full["chips"] + full.get("bystanders", []):
        xy = tuple(c["chip"])
        mem = [[sv["base"] + sv["sdram_sys"] + i, b] for i, b in enumerate(struct.pack("<I", c["sys_buf"]))] + \
              [[sv["base"] + sv["rtr_copy"] + i, b] for i, b in enumerate(struct.pack("<I", c["copy_base"]))]
        mem += (extra or {}).get(xy, [])
        out.append({"chip": list(xy), "mem": mem, "rows": rows_by_chip[xy], "copy_base": c["copy_base"]})
    return out


def claim_rows(rows, b, n, app):
    """rows (sparse JSON form) after a block b..b+n-1 was allocated to app (b = 0: refused, nothing changes)"""
    if b == 0:
        return rows
    by = {r[0]: list(r) for r in rows}
    for i in range(b, b + n):
        r = by.setdefault(i, [i, 0, 0, None, None])
        r[3] = app
    return [by[i] for i in sorted(by)]


def prepare_load(case, sv):
    """run the implementation on one machine case; returns (state, lean requests)"""
    full = expand_load(case)
    res = run_load_impl(case, full, sv)
    return prepare_from(case, full, res, sv)


def prepare_from(case, full, res, sv, label="", model_get=True):
    """Lean requests (simulator replay, controller model, oracles) for one observed load (+ read-backs)"""
    chips0 = chip_states(full, res["rows0"], sv, res.get("mem0"))
    chips1 = chip_states(full, res["rows1"], sv)
    # observed allocation answers per chip, in order (those the controller received / those whose reply was lost)
    bases = [[p["req"][:2], p["arg1"]] for p in res["pairs"]
             if p["req"][3] == 28 and (p["req"][4] & 0xff) == 3 and not p["lost"]]
    lost = [[p["req"][:2], p["arg1"]] for p in res["pairs"]
            if p["req"][3] == 28 and (p["req"][4] & 0xff) == 3 and p["lost"]]
    model_tables = [[xy, [[r, k + ((1 << 32) if full["wide"] and i == len(es) - 1 else 0), m] for i, (r, k, m) in enumerate(es)]]
                    for xy, es in full["tables"]]
    reqs = [
        {"suite": "c10", "op": "replay", "chips": chips0,
         "pairs": [{"req": p["req"], "arg1": p["arg1"], "data": p["data"], "check": p["check"]} for p in res["pairs"]]},
        {"suite": "c10", "op": "load_model", "chips": chips0, "tables": model_tables, "scp_len": full["buf"],
         "app": full["app"], "bases": bases, "lost": lost},
    ]
    chip_list = [tuple(c["chip"]) for c in full["chips"]]
    bystanders = [tuple(c["chip"]) for c in full.get("bystanders", [])]
    rb_list = [tuple(c) for c in full["readback"]]
    for xy in (rb_list if model_get else []):
        reqs.append({"suite": "c10", "op": "get_model", "chips": chips1, "scp_len": full["buf"], "x": xy[0], "y": xy[1]})
    if full["clear"]:
        reqs.append({"suite": "c10", "op": "clear_model", "chips": chips1, "x": chip_list[0][0], "y": chip_list[0][1],
                     "app": full["app"]})
    raised = isinstance(res["outcome"], list) and res["outcome"][0] == "RouterError"
    reached = {}
    for i, p in enumerate(res["pairs"]):
        xy = tuple(p["req"][:2])
        if p["req"][3] in (28, 29, 3):
            d = reached.setdefault(xy, {"base": None, "wrote": False, "lost": [], "lost_n": [], "last_lost": None})
            if p["req"][3] == 28 and (p["req"][4] & 0xff) == 3:
                if p["lost"]:
                    d["lost"].append(p["arg1"])
                    d["lost_n"].append(p["req"][5])          # the number of rows that request asked for
                    d["last_lost"] = i
                elif d["base"] is None:
                    d["base"] = p["arg1"]
            if p["req"][3] in (3, 29):
                d["wrote"] = True
    # the router a chip had when the allocation request that was *answered* was executed: the initial rows, plus the
    # blocks claimed by executions whose reply was lost (cross-checked against the Lean specification below)
    n_of = {tuple(xy): len(es) for xy, es in full["tables"]}
    rows_before = dict(res["rows0"])
    mid_idx = {}
    for xy, d in reached.items():
        if d["lost"]:
            rows = res["rows0"][xy]
            for b, n_asked in zip(d["lost"], d["lost_n"]):
                # (the block is as long as the request said, whatever the table handed to the call)
                rows = claim_rows(rows, b, n_asked, full["app"])
            rows_before[xy] = rows
            mid_idx[xy] = len(reqs)
            reqs.append({"suite": "c10", "op": "replay", "chips": [c for c in chips0 if tuple(c["chip"]) == xy],
                         "pairs": [{"req": p["req"], "arg1": p["arg1"], "data": p["data"], "check": p["check"]}
                                   for p in res["pairs"][:d["last_lost"] + 1] if tuple(p["req"][:2]) == xy]})
    oracle_idx = {}
    in_domain = not full["wide"]
    for (xy, es) in full["tables"]:
        xy = tuple(xy)
        d = reached.get(xy)
        if d is not None and d["base"] is not None and in_domain:
            oracle_idx[xy] = len(reqs)
            reqs.append({"suite": "c10", "op": "load_spec", "rows0": rows_before[xy], "rows_f": res["rows1"][xy],
                         "entries": es, "app": full["app"], "base": d["base"],
                         "raised": raised and d["base"] == 0, "wrote_or_loaded": d["wrote"]})
    # the whole call on the whole machine (Lean predicate TablesLoadSpec, theorem load_tables_spec): tables in the
    # order in which the implementation addressed the chips (the property does not fix the dict order), chips it
    # never addressed last; every chip without a table must be unchanged
    machine_idx = None
    if in_domain and (res["outcome"] == "ok" or raised):
        order = [xy for xy in reached if xy in n_of] + [tuple(xy) for xy, _ in full["tables"] if tuple(xy) not in reached]
        by_chip = {tuple(xy): es for xy, es in full["tables"]}
        machine_idx = len(reqs)
        reqs.append({"suite": "c10", "op": "tables_load_spec",
                     "rows0": [[list(xy), rows_before[xy]] for xy in order + bystanders],
                     "rows_f": [[list(xy), res["rows1"][xy]] for xy in order + bystanders],
                     "tables": [[list(xy), by_chip[xy]] for xy in order], "app": full["app"],
                     "bases": [[list(xy), d["base"]] for xy, d in reached.items() if d["base"] is not None],
                     "raised": res["outcome"] if raised else None, "others": [list(xy) for xy in bystanders]})
    rb_idx = {}
    for xy in rb_list:
        if "ok" in res["readback"][xy]:
            rb_idx[xy] = len(reqs)
            reqs.append({"suite": "c10", "op": "readback_spec", "rows": res["rows1"][xy], "table": res["readback"][xy]["ok"]})
    res.pop("machine", None)
    st = dict(label=label, model_get=model_get, case=case, full=full, res=res, chip_list=chip_list, rb_list=rb_list, raised=raised, reached=reached,
              oracle_idx=oracle_idx, rb_idx=rb_idx, in_domain=in_domain, bystanders=bystanders, mid_idx=mid_idx,
              rows_before=rows_before, machine_idx=machine_idx, n_of=n_of)
    return st, reqs


def judge_load(ctx, st, out, count=True):
    """judge one observed load; returns whether it was non-trivial (and counts the case unless count=False)"""
    case, full, res = st["case"], st["full"], st["res"]
    label = st.get("label", "")
    chip_list, rb_list, raised, reached = st["chip_list"], st["rb_list"], st["raised"], st["reached"]
    ctx.traces += 1
    # ---- simulator against the Lean router specification ----------------------------------------
    # What the simulator answers and ends up holding depends on the commands the implementation chose to send (and on
    # memory it left unwritten), so a disagreement here is never an infrastructure error: it is reported as a broken
    # correspondence, the run goes on and the oracles below still judge the case.
    rp = out[0]
    if rp.get("disagree"):
        ctx.mismatch("c10.simulator", label + "simulated router disagrees with the Lean specification: %s" % (rp["disagree"],), case)
    spec_final = {tuple(c): rows for c, rows in rp["final"]}
    for xy, i in st["mid_idx"].items():
        mid = out[i]
        if mid.get("disagree"):
            ctx.mismatch("c10.simulator", label + "simulated router disagrees with the Lean specification: %s" % (mid["disagree"],), case)
        elif dict((tuple(c), rows) for c, rows in mid["final"]).get(xy, []) != st["rows_before"][xy]:
            ctx.mismatch("c10.simulator", label + "router state of chip %r after the unanswered allocation differs from the "
                         "Lean specification" % (xy,), case)
    if not rp.get("disagree"):
        for xy in chip_list + st["bystanders"]:
            want = res["rows2"] if (full["clear"] and xy == chip_list[0]) else res["rows1"][xy]
            if spec_final.get(xy, []) != want:
                ctx.mismatch("c10.simulator", label + "simulated router state of chip %r differs from the Lean specification "
                             "after the same commands" % (xy,), case)
                break
    for t in res.get("ak_used", []):
        ctx.tag(t)
    for _, es in full["tables"]:
        ids = [(tuple(r), k, m) for r, k, m in es]
        if len(set(ids)) < len(ids):
            ctx.tag("table_with_repeated_entry_via_" + full["via"])
        if len({(k, m) for _, k, m in ids}) < len(set(ids)):
            ctx.tag("table_with_same_key_mask_other_route")
    flt = res.get("fault")
    out_kind = res["outcome"] if isinstance(res["outcome"], str) else res["outcome"][0]
    if flt and flt["hit"]:
        ctx.tag("network_fault_%s_%s" % (flt["kind"], "survived" if out_kind in ("ok", "RouterError") else "call_failed"))
        if out_kind == "scp":
            # what a call cut short by the network leaves behind is not this property's business (C06/C07): the
            # simulator was checked against the specification above, and the later steps of the session are judged
            # from the routers as they now are
            if count:
                ctx.case(case, False)
            return False
    elif flt:
        ctx.tag("network_fault_not_reached")
    # ---- controller model correspondence --------------------------------------------------------
    lm = out[1]
    if lm["trace"] != res["trace_load"]:
        i = next((i for i, (a, b) in enumerate(zip(lm["trace"], res["trace_load"])) if a != b),
                 min(len(lm["trace"]), len(res["trace_load"])))
        ctx.mismatch("c10.load_trace", "command %d differs: model=%r impl=%r (counts %d/%d)" % (
            i, str(lm["trace"][i:i + 1])[:200], str(res["trace_load"][i:i + 1])[:200], len(lm["trace"]),
            len(res["trace_load"])), case)
    elif lm["outcome"] != res["outcome"]:
        ctx.mismatch("c10.load_outcome", "model=%r impl=%r" % (lm["outcome"], res["outcome"]), case)
    elif {tuple(c): rows for c, rows in lm["final"]} != {xy: res["rows1"][xy] for xy in chip_list + st["bystanders"]}:
        ctx.mismatch("c10.load_final", "router contents differ between model run and simulated machine", case)
    for k, xy in enumerate(rb_list if st.get("model_get", True) else []):
        gm = out[2 + k]
        if gm["trace"] != res["trace_get"][xy]:
            ctx.mismatch("c10.get_trace", "read-back commands differ (counts %d/%d)" % (
                len(gm["trace"]), len(res["trace_get"][xy])), case)
        elif gm["outcome"] != res["readback"][xy]:
            ctx.mismatch("c10.get_result", "read-back result differs from the model", case)
    if full["clear"]:
        cm = out[2 + len(rb_list)]
        if cm["trace"] != res["trace_clear"]:
            ctx.mismatch("c10.clear_trace", "model=%r impl=%r" % (cm["trace"], res["trace_clear"]), case)
        # clearing: no row of the application remains, nothing else changes (checked on the simulated router)
        before = {r[0]: r for r in res["rows1"][chip_list[0]]}
        after = {r[0]: r for r in res["rows2"]}
        for i in range(N_ROWS):
            b, a = before.get(i), after.get(i)
            if b is not None and b[3] == full["app"]:
                if a is not None and (a[3] is not None or a[4] is not None):
                    ctx.violation("clear-incomplete", "row %d of the application survives clear_routing_table_entries" % i, case)
                    break
            elif a != b:
                ctx.violation("clear-stray", "row %d of another owner changed by clear_routing_table_entries" % i, case)
                break
        ctx.tag("clear")
    # ---- property oracle ------------------------------------------------------------------------
    ctx.tag("load_via_" + full["via"], "outcome_" + (res["outcome"] if isinstance(res["outcome"], str) else res["outcome"][0]))
    nontrivial = False
    if not st["in_domain"]:
        ctx.tag("out_of_domain_key")
        if count:
            ctx.case(case, False)
        return False
    reported = [False]

    def violation(key, what):
        reported[0] = True
        ctx.violation(key, label + what, case)
    if out_kind == "hang":
        # the model's run always ends (load_exact / load_tables_spec give its outcome)
        violation("did-not-return", "the load did not return: %s" % (res["outcome"][1],))
    elif isinstance(res["outcome"], list) and res["outcome"][0] != "RouterError":
        violation("unexpected-error", "loading raised %r" % (res["outcome"],))
    any_failed = False
    for (xy, es) in full["tables"]:
        xy = tuple(xy)
        d = reached.get(xy)
        if d is None or d["base"] is None:
            if d is not None and d["wrote"]:
                violation("no-allocation", "chip %r was written/loaded without allocating router rows" % (xy,))
            elif res["outcome"] == "ok":
                violation("table-not-loaded", "call returned normally but chip %r was never addressed" % (xy,))
            else:
                ctx.tag("chip_not_reached_after_failure")
                if res["rows1"][xy] != res["rows0"][xy]:
                    violation("stray-router-change", "router of chip %r changed although never addressed" % (xy,))
            continue
        ok = out[st["oracle_idx"][xy]]
        ctx.tag("alloc_failed" if d["base"] == 0 else "alloc_ok", "n_%s" % (
            "0" if not es else "1" if len(es) == 1 else "2-63" if len(es) < 64 else "64-1022" if len(es) < 1023 else str(len(es))))
        if d["base"] == 0:
            any_failed = True
            if res["rows0"][xy]:
                nontrivial = True
        elif len(es) >= 2:
            nontrivial = True
        if ok is not True:
            if d["base"] == 0:
                what = ("allocation of %d rows on chip %r failed (answer 0) but: router error raised=%s, write/load sent=%s, router %s"
                        % (len(es), xy, raised, d["wrote"], "changed" if res["rows1"][xy] != res["rows0"][xy] else "unchanged"))
                key = "alloc-failure-mishandled"
            else:
                what = ("after loading %d entries at base %d on chip %r the router does not hold exactly the given entries "
                        "(rows base..base+n-1 in order, app %d, other rows unchanged)" % (len(es), d["base"], xy, full["app"]))
                key = "router-not-exact"
            violation(key, what)
        elif d["base"] != 0 and xy in rb_list and "ok" in res["readback"][xy]:
            got = res["readback"][xy]["ok"][d["base"]:d["base"] + len(es)]
            want = [[sorted(r), k, m, full["app"], 0, [-1]] for r, k, m in es]
            if got != want:
                i = next((i for i, (a, b) in enumerate(zip(got, want)) if a != b), 0)
                violation("readback-differs", "entry %d read back as %r, loaded %r" % (i, got[i:i + 1], want[i:i + 1]))
    if raised and not any_failed:
        violation("spurious-router-error", "SpiNNakerRouterError although every allocation succeeded")
    for xy, i, j, was, now, n_bad in res.get("alias", []):
        violation("readback-entries-share-state",
                  "after the caller edited the sources of entry %d of the table read back from chip %r, entry %d of the "
                  "same read-back changed from %r to %r (%d entries changed): the entries read back are no longer the "
                  "router's" % (i, xy, j, was, now, n_bad))
    for xy in rb_list:
        rb = res["readback"][xy]
        if "ok" not in rb:
            violation("did-not-return" if rb["err"][0] == "hang" else "readback-error",
                      "get_routing_table_entries raised %r" % (rb["err"],))
        elif out[st["rb_idx"][xy]] is not True:
            violation("readback-not-exact", "get_routing_table_entries of chip %r does not return the router's rows "
                      "(1024 items; key, mask, route set, app, core; None for unused)" % (xy,))
    # ---- the whole machine ----------------------------------------------------------------------
    for xy in st["bystanders"]:
        ctx.tag("bystander_chip")
        if res["rows1"][xy] != res["rows0"][xy]:
            violation("stray-router-change", "router of chip %r, which has no table, was changed" % (xy,))
    if st["machine_idx"] is not None:
        ms = out[st["machine_idx"]]
        ctx.tag("machine_spec_" + ("ok" if res["outcome"] == "ok" else "partial"))
        if not ms["others_unchanged"] and not reported[0]:
            violation("stray-router-change", "a chip without a table was changed by load_routing_tables")
        if not ms["holds"] and not reported[0]:
            # every per-chip clause of the property held, only the behaviour across chips differs from the model
            # (theorems load_tables_exact / load_tables_failure): reported as a broken correspondence
            ctx.mismatch("c10.machine_load",
                         "load_routing_tables: in the order the chips were addressed, not (every chip before the first "
                         "refused allocation holds exactly its table, the refusing chip and all later ones untouched, "
                         "error naming that chip / normal return iff none refused)", case)
    # ---- retransmitted allocations (resource observation, not part of the property) -------------------
    for xy, d in reached.items():
        for b, n in zip(d["lost"], d["lost_n"]):
            stats = ctx.extra.setdefault("retransmitted_alloc", {"replies_lost": 0, "blocks_leaked": 0, "rows_leaked": 0,
                                                                   "then_refused": 0})
            stats["replies_lost"] += 1
            ctx.tag("alloc_reply_lost")
            if b != 0 and n > 0:
                after = {r[0]: r for r in res["rows1"][xy]}
                before = {r[0]: r for r in res["rows0"][xy]}
                leaked = all(after.get(i, [i, 0, 0, None, None])[3] == full["app"] and
                             after.get(i, [i, 0, 0, None, None])[4] == before.get(i, [i, 0, 0, None, None])[4]
                             for i in range(b, b + n))
                if leaked and d["base"] != b:
                    stats["blocks_leaked"] += 1
                    stats["rows_leaked"] += n
                    ctx.tag("alloc_block_leaked")
                    nontrivial = True
                    if d["base"] == 0:
                        stats["then_refused"] += 1
                        ctx.tag("alloc_block_leaked_then_refused")
                else:
                    ctx.mismatch("c10.retransmit", "block %d..%d of the unanswered allocation on chip %r is not left "
                                 "allocated and unused as the specification says (theorem alloc_retransmit_leak)"
                                 % (b, b + n - 1, xy), case)
    for xy, kinds in full.get("loss", []):
        if "request" in kinds:
            ctx.tag("alloc_request_lost")
    if count:
        ctx.case(case, nontrivial)
    return nontrivial


def eval_loads(ctx, cases, batch=40):
    sv = sv_layout()
    for i in range(0, len(cases), batch):
        sts, reqs, spans = [], [], []
        for case in cases[i:i + batch]:
            st, rq = prepare_load(case, sv)
            sts.append(st)
            spans.append((len(reqs), len(reqs) + len(rq)))
            reqs += rq
        out = ctx.lean(reqs)
        for st, (a, b) in zip(sts, spans):
            judge_load(ctx, st, out[a:b])


# --------------------------------------------------------------------------------------------
# sessions: several loads through ONE MachineController onto one simulated machine
# --------------------------------------------------------------------------------------------
#
# A session case is self-contained (replay carries all of it):
#   {"kind": "session", "buf": scp_data_length, "window": w,
#    "chips": [{"chip": [x, y], "sys_buf", "copy_base", "rows_kind", "rows_seed", "policy", "pseed", "zero"}, ...],
#    "steps": [{"mut": [mutation, ...], "op": "load", "list": id, "chip": [x, y], "app": a, "readback": [[x, y], ...]} |
#              {"mut": [...], "op": "tables", "tables": [[[x, y], id], ...], "app": a, "readback": [...]}]}
# mutation (applied IN PLACE to the caller's list object `list`, in order, before the step's call):
#   {"m": "new", "list": id, "entries": [...]}  a fresh list object under that name
#   {"m": "replace", "list", "i", "e"} | {"m": "append", "list", "e"} | {"m": "insert", "list", "i", "e"} |
#   {"m": "delete", "list", "i"} | {"m": "reverse", "list"} | {"m": "swap", "list", "i", "j"} |
#   {"m": "clear", "list"} | {"m": "extend", "list", "entries"}
# Every load is judged against the list's content at the time of that call.

def apply_mutation(lst, mu, mk):
    """the same in-place edit on a list of implementation entries (mk = constructor) or of plain data (mk = identity)"""
    m = mu["m"]
    if m == "replace":
        lst[mu["i"]] = mk(mu["e"])
    elif m == "append":
        lst.append(mk(mu["e"]))
    elif m == "insert":
        lst.insert(mu["i"], mk(mu["e"]))
    elif m == "delete":
        del lst[mu["i"]]
    elif m == "reverse":
        lst.reverse()
    elif m == "swap":
        lst[mu["i"]], lst[mu["j"]] = lst[mu["j"]], lst[mu["i"]]
    elif m == "clear":
        del lst[:]
    elif m == "extend":
        lst.extend([mk(e) for e in mu["entries"]])
    elif m == "edit_sources":
        # the caller notes something in the sources of its own entry (built with default arguments); sources are
        # not loaded, so the plain-data mirror does not change
        e = lst[mu["i"]]
        if hasattr(e, "sources"):
            from rig.routing_table import Routes
            if mu["discard_none"]:
                e.sources.discard(None)
            e.sources.add(Routes(mu["add"]))
    else:
        raise ValueError(m)


def gen_session(rng):
    n_chips = rng.choice([2, 2, 3, 3, 4])
    if rng.random() < 0.7:
        coords = rng.sample([(x, y) for x in range(W) for y in range(H)], n_chips)
    else:
        # anywhere in the 256 x 256 coordinate space ((255, 255) is the alias of the root chip)
        far = [(0, 0), (255, 0), (0, 255), (254, 255), (255, 254), (128, 127), (17, 200), (1, 0), (0, 1)] + \
              [(rng.randrange(256), rng.randrange(255)) for _ in range(4)]
        coords = rng.sample(sorted(set(far)), n_chips)
    bufs = rng.sample(range(0x10000), n_chips)
    copies = rng.sample(range(0x1000), n_chips)
    chips = []
    for i, xy in enumerate(coords):
        chips.append({"chip": list(xy), "sys_buf": 0x60000000 + 4 * bufs[i], "copy_base": 0x70000000 + 16 * copies[i],
                      "rows_kind": rng.choice(["empty", "empty", "frag"]), "rows_seed": rng.randrange(1 << 30),
                      "policy": rng.choice(["first", "first", "last", "rand", "rand", "refuse"] if rng.random() < 0.15
                                           else ["first", "last", "rand"]),
                      "pseed": rng.randrange(1 << 30), "zero": rng.random() < 0.5})
    content = {}          # list id -> current plain content (generator-side mirror)
    dicts = {}            # dict id -> {chip: list id} (generator-side mirror of the caller's dict objects)
    steps = []
    last = None           # id of the list object loaded by the previous step
    n_lists = 0
    app = rng.choice([1, 16, 30, 66, 255])
    for k in range(rng.choice([2, 3, 3, 4, 5])):
        mut = []
        r = rng.random()
        if last is None or r < 0.2:
            mode = "fresh"
        elif r < 0.8:
            mode = "mutated"
        else:
            mode = "same"
        if mode == "fresh":
            lid = "l%d" % n_lists
            n_lists += 1
            content[lid] = gen_entries(rng, rng.choice([0, 1, 2, 3, 3, 4, 5, 8, 12, 20]))
            mut.append({"m": "new", "list": lid, "entries": [list(e) for e in content[lid]]})
        else:
            lid = last if rng.random() < 0.8 else rng.choice(sorted(content))
            if mode == "mutated":
                for _ in range(rng.choice([1, 1, 2, 3])):
                    cur = content[lid]
                    kinds = ["append", "append", "insert", "extend"] + \
                            (["replace", "replace", "replace", "delete", "delete", "reverse", "swap", "clear",
                              "edit_sources", "dup", "dup"] if cur else [])
                    m = rng.choice(kinds)
                    mu = {"m": m, "list": lid}
                    if m == "dup":
                        # one more copy of an entry that is already in the table, somewhere
                        mu = {"m": "insert", "list": lid, "i": rng.randrange(len(cur) + 1),
                              "e": [list(x) if isinstance(x, list) else x for x in rng.choice(cur)]}
                        m = "inserted_copy"
                    if m in ("replace", "delete", "edit_sources"):
                        mu["i"] = rng.randrange(len(cur))
                    if m == "edit_sources":
                        mu["add"], mu["discard_none"] = rng.randrange(24), rng.random() < 0.5
                    if m == "insert":
                        mu["i"] = rng.randrange(len(cur) + 1)
                    if m == "swap":
                        mu["i"], mu["j"] = rng.randrange(len(cur)), rng.randrange(len(cur))
                    if m in ("replace", "append", "insert"):
                        mu["e"] = gen_entries(rng, 1)[0]
                        if m == "replace" and rng.random() < 0.4:
                            # a small edit: same key and mask, another route / same route, another key
                            old = cur[mu["i"]]
                            mu["e"] = [mu["e"][0], old[1], old[2]] if rng.random() < 0.5 else [old[0], mu["e"][1], old[2]]
                    if m == "extend":
                        mu["entries"] = gen_entries(rng, rng.choice([1, 2, 5]))
                    apply_mutation(cur, mu, lambda e: list(e))
                    mut.append(mu)
        if rng.random() < 0.3:
            app = rng.choice([0, 1, 16, 30, 66, 255, rng.randrange(256)])
        targets = rng.sample(coords, min(n_chips, rng.choice([1, 1, 2, 3])) if rng.random() < 0.35 else 1)
        rb = [list(xy) for xy in targets if rng.random() < 0.35] + \
             [list(xy) for xy in coords if xy not in targets and rng.random() < 0.1]
        if len(targets) == 1 and rng.random() < 0.7:
            step = {"mut": mut, "op": "load", "list": lid, "chip": list(targets[0]), "app": app, "readback": rb}
        elif dicts and rng.random() < 0.5:
            # the dict object of an earlier load_routing_tables call again, edited in place by the caller
            did = rng.choice(sorted(dicts))
            d = dicts[did]
            for _ in range(rng.choice([0, 1, 1, 2])):
                xy = rng.choice(coords)
                if tuple(xy) in d and rng.random() < 0.4:
                    mut.append({"m": "ddel", "dict": did, "chip": list(xy)})
                    del d[tuple(xy)]
                else:
                    other = lid if rng.random() < 0.6 else rng.choice(sorted(content))
                    mut.append({"m": "dset", "dict": did, "chip": list(xy), "list": other})
                    d[tuple(xy)] = other
            step = {"mut": mut, "op": "tables", "dict": did, "app": app}
            step["readback"] = [list(xy) for xy in d if rng.random() < 0.35] + \
                               [list(xy) for xy in coords if xy not in d and rng.random() < 0.1]
        else:
            # a dict of tables: chips share the list object, or some get another existing list
            tabs = []
            for xy in (targets if rng.random() > 0.04 else []):          # (rarely: an empty dict)
                other = rng.choice(sorted(content))
                tabs.append([list(xy), lid if rng.random() < 0.7 else other])
            did = "d%d" % len(dicts)
            dicts[did] = collections.OrderedDict((tuple(xy), l) for xy, l in tabs)
            mut.append({"m": "dnew", "dict": did, "tables": tabs})
            step = {"mut": mut, "op": "tables", "dict": did, "app": app, "readback": rb if tabs else []}
        rb = step["readback"]
        if rng.random() < 0.5:
            step["ak"] = rng.randrange(1 << 30)          # argument kinds and calling conventions of this step
        if rng.random() < 0.3:
            # the network fails once during the load: the n-th datagram of this step is lost (request or reply), answered
            # with a retryable or a fatal return code, or it and all its retransmissions are lost
            step["fault"] = {"at": rng.choice([0, 0, 1, 1, 2, 2, 3, 3, 4, 5]), "kind": rng.choice(["lost_request", "lost_reply", "lost_reply",
                                                                          "rc_retry", "rc_fatal", "dead"]),
                             "code": rng.choice([0x81, 0x83, 0x84, 0x87, 0x8e])}
        # which of the two controllers of the session loads / reads back; what the caller then does, in place, with
        # the read-back it was handed: the sources set of one returned entry, the returned list itself
        step["ctl"] = rng.choice([0, 0, 0, 1])
        step["rb_ctl"] = rng.choice([0, 0, 1])
        step["rb_edit"] = [{"chip": list(xy), "row": rng.randrange(1000), "add": rng.randrange(24),
                            "discard_none": rng.random() < 0.6,
                            "list": rng.choice([None, None, "pop", "reverse", "clear", "none0"])}
                           for xy in rb if rng.random() < 0.6]
        steps.append(step)
        last = lid
    case = {"kind": "session", "buf": rng.choice([64, 128, 256, 256]), "window": rng.choice([1, 1, 2, 8]),
            "n_tries": rng.choice([2, 5, 5]), "timeout": rng.choice([0.5, 1.0, 4.0]), "chips": chips, "steps": steps}
    if rng.random() < 0.5:
        case["ak"] = rng.randrange(1 << 30)          # how the caller builds its entries and list objects
    return case


def run_session_impl(case, sv):
    """two controllers, one machine, all steps; returns ([(full, res, info)] per step in the shape prepare_from expects,
    kept read-backs that changed after they were returned)"""
    fresh_rig()
    chips = [dict(c, rows=gen_rows(random.Random(c["rows_seed"]), c["rows_kind"])) for c in case["chips"]]
    desc = {tuple(c["chip"]): c for c in chips}
    machine = RouterMachine(chips, case["buf"], sv)
    fs = {"fault": None, "n": 0, "dead": None, "hit": False}

    def script(k, data):
        f = fs["fault"]
        q = simnet.parse_scp(data)
        if f is None or q["cmd"] == 0:
            return [(1, "ok")]
        if fs["dead"] is not None:
            return [] if q["seq"] == fs["dead"] else [(1, "ok")]
        j = fs["n"]
        fs["n"] += 1
        if j != f["at"]:
            return [(1, "ok")]
        fs["hit"] = True
        if f["kind"] == "lost_reply":
            machine.handle(data)                  # executed by the chip, the reply never arrives
            machine.pairs[-1]["lost"] = True
        elif f["kind"] in ("rc_retry", "rc_fatal"):
            # the chip refuses the datagram (not executed): a retryable code (checksum / busy) or a fatal one
            rc = (0x82 if f["code"] % 2 else 0x8d) if f["kind"] == "rc_retry" else f["code"]
            reply = simnet.make_reply(data, rc)
            did = net.next_id
            net.next_id += 1
            net.dgram[did] = dict(rc=rc, seq=q["seq"], origin_send=k, bytes=reply)
            net.queue.append([net.now + 1, net.order, did, reply])
            net.order += 1
        elif f["kind"] == "dead":
            fs["dead"] = q["seq"]
        return []
    net = simnet.Net(machine.handle, script)
    maker = Caller(case.get("ak"))
    objs, content = {}, {}        # the caller's list objects / the same content as plain data
    dobjs, dcontent = {}, {}      # the caller's dict objects / {chip: list id}
    loaded = {}                   # list id -> content when that object was last handed to a load
    out, kept = [], []
    longest = 1
    with simnet.installed(net):
        mcs = [simmachine.make_controller(net, n_tries=case.get("n_tries", 5), timeout=case.get("timeout", 4.0)),
               simmachine.make_controller(net, n_tries=case.get("n_tries", 5), timeout=case.get("timeout", 4.0))]
        for mc in mcs:
            mc._window_size = case.get("window", 1)
            _ = mc.scp_data_length
        for step in case["steps"]:
            mc = mcs[step.get("ctl", 0)]
            cl = Caller(step.get("ak"))
            for mu in step["mut"]:
                if mu["m"] == "new":
                    objs[mu["list"]] = maker.table([maker.entry(e) for e in mu["entries"]], mutable=True)
                    content[mu["list"]] = [list(e) for e in mu["entries"]]
                    loaded.pop(mu["list"], None)
                elif mu["m"] == "dnew":
                    dobjs[mu["dict"]] = cl.tables_dict()
                    dcontent[mu["dict"]] = collections.OrderedDict()
                    for xy, lid in mu["tables"]:
                        dobjs[mu["dict"]][cl.chip_key(xy)] = objs[lid]
                        dcontent[mu["dict"]][tuple(xy)] = lid
                elif mu["m"] == "dset":
                    dobjs[mu["dict"]][tuple(mu["chip"])] = objs[mu["list"]]
                    dcontent[mu["dict"]][tuple(mu["chip"])] = mu["list"]
                elif mu["m"] == "ddel":
                    del dobjs[mu["dict"]][tuple(mu["chip"])]
                    del dcontent[mu["dict"]][tuple(mu["chip"])]
                else:
                    apply_mutation(objs[mu["list"]], mu, maker.entry)
                    apply_mutation(content[mu["list"]], mu, lambda e: list(e))
            if step["op"] == "load":
                tabs = [[step["chip"], step["list"]]]
            elif "dict" in step:
                tabs = [[list(xy), lid] for xy, lid in dcontent[step["dict"]].items()]
            else:
                tabs = step["tables"]
            ids = sorted({lid for _, lid in tabs})
            info = {"reused_changed": any(lid in loaded and loaded[lid] != content[lid] for lid in ids),
                    "reused_same": any(lid in loaded and loaded[lid] == content[lid] for lid in ids),
                    "shared": len(tabs) > len(ids), "dict_reused": "dict" in step and not any(
                        mu["m"] == "dnew" for mu in step["mut"]), "empty_dict": step["op"] == "tables" and not tabs}
            longest = max([longest] + [len(v) for v in content.values()])
            targets = [tuple(xy) for xy, _ in tabs]
            full = {"chips": [desc[xy] for xy in targets],
                    "bystanders": [c for c in chips if tuple(c["chip"]) not in targets],
                    "tables": [[list(xy), [list(e) for e in content[lid]]] for xy, lid in tabs],
                    "app": step["app"], "buf": case["buf"], "via": "entries" if step["op"] == "load" else "tables",
                    "clear": False, "wide": False, "readback": [tuple(xy) for xy in step["readback"]]}
            res = {"rows0": {xy: machine.rows_json(xy) for xy in machine.chips}}
            # what the staging buffers hold now (a load that does not rewrite all of it would install this)
            res["mem0"] = {xy: [[desc[xy]["sys_buf"] + i, b] for i, b in
                                enumerate(machine.peek(xy[0], xy[1], desc[xy]["sys_buf"], 16 * (longest + 2)))]
                           for xy in targets}
            start = len(net.log)
            n_pairs = len(machine.pairs)
            fs.update(fault=step.get("fault"), n=0, dead=None, hit=False)
            if step["op"] == "load":
                res["outcome"] = call_outcome(30, lambda: cl.load_entries(mc, objs[step["list"]], targets[0], step["app"]))
            elif "dict" in step:
                res["outcome"] = call_outcome(30, lambda: cl.load_tables(mc, dobjs[step["dict"]], step["app"],
                                                                         tuple(case["chips"][0]["chip"])))
            else:
                tables = cl.tables_dict()
                for xy, lid in tabs:
                    tables[cl.chip_key(xy)] = objs[lid]
                res["outcome"] = call_outcome(30, lambda: cl.load_tables(mc, tables, step["app"],
                                                                         tuple(case["chips"][0]["chip"])))
            res["fault"] = dict(step["fault"], hit=fs["hit"]) if step.get("fault") else None
            fs.update(fault=None, dead=None)
            for lid in ids:
                loaded[lid] = [list(e) for e in content[lid]]
            res["trace_load"] = traces(net, start)
            res["rows1"] = {xy: machine.rows_json(xy) for xy in machine.chips}
            res["readback"], res["trace_get"], res["alias"] = {}, {}, []
            edits = {tuple(e["chip"]): e for e in step.get("rb_edit", [])}
            hung = res["outcome"][0] == "hang"
            if hung:
                full["readback"] = []
            for xy in full["readback"]:
                start = len(net.log)
                res["readback"][xy], t = read_back(30, lambda: cl.get(mcs[step.get("rb_ctl", 0)], xy))
                if t is not None:
                    if xy in edits:
                        # the caller edits ITS copy of one entry; all other entries it holds must stay what they were
                        alias = caller_edits_readback(t, res["readback"][xy]["ok"], edits[xy])
                        if alias:
                            res["alias"].append((xy,) + alias)
                    else:
                        kept.append((len(out), xy, t, res["readback"][xy]["ok"]))     # kept untouched to the end
                elif res["readback"][xy]["err"][0] == "hang":
                    hung = True
                res["trace_get"][xy] = traces(net, start)
            res["ak_used"] = sorted(cl.used | maker.used)
            res["pairs"] = machine.pairs[n_pairs:]
            out.append((full, res, info))
            if hung:
                break               # the controller's state after a call that did not return is anybody's guess
    changed = []
    for k, xy, t, was in kept:
        now = [canon_dec(d) for d in t]
        if now != was:
            j = next(i for i, (a, b) in enumerate(zip(was, now)) if a != b) if len(now) == len(was) else -1
            changed.append((k, xy, j, was[j] if j >= 0 else len(was), now[j] if j >= 0 else len(now)))
    restore_default_sources()
    return out, changed


def eval_sessions(ctx, cases, batch=12):
    sv = sv_layout()
    for i in range(0, len(cases), batch):
        items, reqs, lost_entries = [], [], []
        for case in cases[i:i + batch]:
            steps = []
            ran, changed = run_session_impl(case, sv)
            for k, (full, res, info) in enumerate(ran):
                what = "load_routing_table_entries" if full["via"] == "entries" else "load_routing_tables"
                # (the controller model of the read-back is compared in the single-load stream; here the read-back is
                # judged by the Lean oracle ReadbackSpec and the simulator replay only)
                st, rq = prepare_from(case, full, res, sv, model_get=False, label="session step %d of %d (%s, judged against the list as "
                                      "it is at this call): " % (k + 1, len(case["steps"]), what))
                steps.append((st, len(reqs), len(reqs) + len(rq), info))
                reqs += rq
                # a load that FAILED (network fault, refused allocation) may leave its own block in any state, but the
                # entries that earlier loads had installed - which the application still relies on - must still be in
                # the router, in their rows, under their owner
                if res["outcome"] != "ok" and not (isinstance(res["outcome"], list) and res["outcome"][0] == "hang"):
                    for xy, rows in res["rows0"].items():
                        after = {r[0]: r for r in res["rows1"].get(xy, [])}
                        gone = [r for r in rows if r[4] is not None and
                                (r[0] not in after or after[r[0]][4] != r[4] or after[r[0]][3] != r[3])]
                        if gone:
                            lost_entries.append((case, k, xy, gone[:3], len(gone), res["outcome"]))
            items.append((case, steps, changed))
        out = ctx.lean(reqs)
        for case, k, xy, gone, n_gone, outcome in lost_entries:
            ctx.violation("failed-load-removed-installed-entries",
                          "step %d of the session failed (%r) and took %d entries that earlier loads had installed out of the "
                          "router of chip %r (rows [index, next, free, owner, entry]: %r ...)" % (k + 1, outcome, n_gone, xy, gone), case)
        for case, steps, changed in items:
            nontrivial = False
            for k, xy, j, was, now in changed:
                ctx.violation("result-changed-after-return",
                              "the table read back from chip %r in step %d, which the caller kept untouched, changed after "
                              "it was returned: item %d was %r, is now %r" % (xy, k + 1, j, was, now), case)
            for k, (st, a, b, info) in enumerate(steps):
                judge_load(ctx, st, out[a:b], count=False)
                ctx.tag("session_step")
                if st["full"]["readback"] and any(e for e in case["steps"][k].get("rb_edit", [])):
                    ctx.tag("session_readback_edited_by_caller")
                if case["steps"][k].get("ctl") or case["steps"][k].get("rb_ctl"):
                    ctx.tag("session_second_controller")
                if info["reused_changed"]:
                    nontrivial = True
                    ctx.tag("session_list_reused_after_edit")
                if info["reused_same"]:
                    ctx.tag("session_list_reused_unchanged")
                if info["shared"]:
                    ctx.tag("session_chips_share_list_object")
                if info.get("dict_reused"):
                    ctx.tag("session_dict_object_reused_after_edit")
                if info.get("empty_dict"):
                    ctx.tag("session_empty_dict")
            ctx.tag("session")
            ctx.case(case, nontrivial)


def gen_codec(rng, n):
    cases = []
    for _ in range(n):
        kind = rng.random()
        if kind < 0.5:
            bs = [rng.randrange(256) for _ in range(16)]
            if rng.random() < 0.3:
                bs[7] = 0xff
            if rng.random() < 0.1:
                bs = bs[:rng.choice([0, 1, 15])] if rng.random() < 0.5 else bs + [1]
            cases.append({"kind": "unpack", "bytes": bs, "bk": rng.choice(["bytes", "bytes", "bytearray", "memoryview"])})
        else:
            e = gen_entries(rng, 1)[0]
            i = rng.choice([0, 1, 255, 256, 1023, rng.randrange(1024)])
            c = {"kind": "pack", "i": i, "entry": e}
            if rng.random() < 0.1:
                # before the round trip the caller edits, in place, the sources of an entry it was handed by
                # unpack_routing_table_entry ("returned") or of one it built itself with default arguments ("own")
                bs = [rng.randrange(256) for _ in range(16)]
                bs[7] = rng.randrange(255)
                c["pre"] = {"how": rng.choice(["returned", "returned", "own"]), "bytes": bs, "add": rng.randrange(24),
                            "discard_none": rng.random() < 0.6}
            cases.append(c)
    return cases


def eval_codec(ctx, cases):
    """16-byte record: the pack string and unpack_routing_table_entry on arbitrary bytes against the model,
    plus the round trip on the implementation"""
    from harness import common
    from rig.machine_control import machine_controller as mcm
    from rig.machine_control import consts
    reqs = []
    for c in cases:
        if c["kind"] == "unpack":
            reqs.append({"suite": "c10", "op": "unpack", "bytes": c["bytes"]})
        else:
            reqs.append({"suite": "c10", "op": "pack", "i": c["i"], "entry": c["entry"]})
    for c, r in zip(cases, ctx.lean(reqs)):
        if c["kind"] == "unpack":
            bk = c.get("bk", "bytes")
            packed = bytearray(c["bytes"]) if bk == "bytearray" else memoryview(bytes(c["bytes"])) if bk == "memoryview" \
                else bytes(c["bytes"])
            ctx.tag("unpack_from_" + bk)
            try:
                impl = {"ok": canon_dec(limited(2, lambda: mcm.unpack_routing_table_entry(packed)))}
            except struct.error:
                impl = {"err": "struct.error"}
            except common.ImplHang as e:
                _HANGS[0] += 1
                ctx.violation("did-not-return", "unpack_routing_table_entry did not return: %s" % (e,), c)
                continue
            ctx.tag("unpack_" + ("err" if "err" in impl else "unused" if impl["ok"] is None else "used"))
            if impl != r:
                ctx.mismatch("c10.unpack", "impl=%r model=%r" % (impl, r), c)
            ctx.case(c, "ok" in impl and impl["ok"] is not None)
        else:
            route = 0
            for b in c["entry"][0]:
                route |= 1 << b
            data = bytearray(16)
            struct.pack_into(consts.RTE_PACK_STRING, data, 0, c["i"], 0, route, c["entry"][1], c["entry"][2])
            if {"ok": list(data)} != r:
                ctx.mismatch("c10.pack", "pack string %r gives %r, model %r" % (consts.RTE_PACK_STRING, list(data), r), c)
            pre = c.get("pre")
            if pre:
                from rig.routing_table import RoutingTableEntry, Routes
                if pre["how"] == "returned":
                    got = mcm.unpack_routing_table_entry(bytes(pre["bytes"]))
                    mine = got[0] if got is not None else None
                else:
                    mine = RoutingTableEntry({Routes(pre["add"])}, 1, 2)
                if mine is not None:
                    if pre["discard_none"]:
                        mine.sources.discard(None)
                    mine.sources.add(Routes(pre["add"]))
                ctx.tag("pack_roundtrip_after_caller_edit_" + pre["how"])
            back = canon_dec(mcm.unpack_routing_table_entry(bytes(data)))
            # the entry given has unknown sources (the documented default {None}); so must the one read back
            want = [sorted(c["entry"][0]), c["entry"][1], c["entry"][2], 0, 0, [-1]]
            explicit = RoutingTableEntryExplicit(c["entry"])
            ctx.tag("pack_roundtrip")
            if back != want:
                ctx.violation("record-roundtrip", "unpack(pack(entry)) = %r, entry = %r%s" % (
                    back, want, " (after the caller edited the sources of another entry: %r)" % (pre,) if pre else ""), c)
            elif mcm.unpack_routing_table_entry(bytes(data))[0] != explicit:
                ctx.violation("record-roundtrip", "unpack(pack(entry)) != RoutingTableEntry(route, key, mask, {None})", c)
            restore_default_sources()
            ctx.case(c, len(c["entry"][0]) > 1)
        ctx.traces += 1


def gen_load_cases(ctx, n, lost=False):
    rng = ctx.rng
    cases = []
    for i in range(n):
        r = rng.random()
        size = "huge" if r < (0.03 if ctx.quick else 0.06) and not lost else "big" if r < 0.12 else "small"
        c = {"kind": "load", "seed": rng.randrange(1 << 40), "size": size,
             "n_chips": 1 if size == "huge" else rng.choice([1, 1, 2, 3]),
             "window": rng.choice([1, 1, 2, 8]), "wide": rng.random() < 0.02 and not lost}
        if lost:
            c["lost"] = True
        if rng.random() < 0.5:
            c["ak"] = rng.randrange(1 << 30)        # argument kinds and calling conventions (class Caller)
        cases.append(c)
    return cases


def run(ctx):
    ctx.extra["rule"] = RULE
    ctx.assumptions += [
        "trees: a subtree child is reached by a link direction 0..5 (documented; other shapes raise and are only compared)",
        "keys and masks are 32-bit, app ids 0..255, at most 1024 entries (documented domain of the load path)",
        "router behaviour of SC&MP (alloc_rtr, router load, router copy layout) = the Lean specification in Model/C10.lean",
        "network: reliable except for the lossy stream, which loses only first transmissions of alloc_rtr requests or "
        "their replies (general loss and reordering are C06/C07)"]
    mult = 4 if ctx.extended else 1
    n_forest = ctx.scale(1000, 30000) * mult
    n_load = ctx.scale(120, 1350) * mult
    n_codec = ctx.scale(2000, 40000) * mult
    forests = [gen_forest(ctx.rng) for _ in range(n_forest)]
    for i in range(0, len(forests), 2000):
        eval_forests(ctx, forests[i:i + 2000])
    fh = [gen_fhist(ctx.rng) for _ in range(ctx.scale(30, 500) * mult)]
    for i in range(0, len(fh), 500):
        eval_fhists(ctx, fh[i:i + 500])
    eval_codec(ctx, gen_codec(ctx.rng, n_codec))
    eval_loads(ctx, gen_load_cases(ctx, n_load))
    eval_loads(ctx, gen_load_cases(ctx, ctx.scale(30, 300) * mult, lost=True))
    eval_sessions(ctx, [gen_session(ctx.rng) for _ in range(ctx.scale(24, 300) * mult)])
    # scale: a handful of cases far beyond the usual size (CPU limits raised accordingly)
    sc = [{"kind": "forest_scale", "shape": "chain", "n": ctx.scale(1200, 3000)},
          {"kind": "forest_scale", "shape": "star", "n": ctx.scale(600, 5000), "ak": {
              "ids": "str", "routes": "ordered", "net_keys": "default", "km": "named", "num": "intlike", "conv": "kw"}},
          {"kind": "forest_scale", "shape": "nets", "n": ctx.scale(300, 2000)}]
    eval_scale_forests(ctx, sc)
    ls = [{"kind": "load", "seed": ctx.rng.randrange(1 << 40), "size": "over", "n": 1025, "n_chips": 1, "window": 1,
           "wide": False, "cpu": 300},
          {"kind": "load", "seed": ctx.rng.randrange(1 << 40), "size": "many", "n_chips": ctx.scale(150, 256), "window": 8,
           "wide": False, "cpu": 300, "ak": ctx.rng.randrange(1 << 30)}]
    if not ctx.quick:
        ls.append({"kind": "load", "seed": ctx.rng.randrange(1 << 40), "size": "over", "n": 65537, "n_chips": 1,
                   "window": 1, "wide": False, "cpu": 300})
        ls.append({"kind": "load", "seed": ctx.rng.randrange(1 << 40), "size": "over", "n": 65536, "n_chips": 1,
                   "window": 2, "wide": False, "cpu": 300, "ak": 7})
    for c in ls:
        ctx.tag("scale_load_%s_%s" % (c["size"], c.get("n", c["n_chips"])))
    eval_loads(ctx, ls, batch=1)


def replay(ctx, payload):
    ctx.extra["rule"] = RULE
    c = payload["case"]
    if c.get("kind") == "forest":
        eval_forests(ctx, [c])
    elif c.get("kind") == "fhist":
        eval_fhists(ctx, [c])
    elif c.get("kind") == "forest_scale":
        eval_scale_forests(ctx, [c])
    elif c.get("kind") == "load":
        eval_loads(ctx, [c])
    elif c.get("kind") == "session":
        eval_sessions(ctx, [c])
    else:
        eval_codec(ctx, [c])
THEOREMS += ['routes_filter', 'gen_unpack_routing_table_entry']   # translator tie, third round (Props/C10Gen.lean)
# translator tie, sixth round (Props/C10Gen.lean over Gen/PyFunTables.lean, harness/gen/pydo.py): the body of
# routing_tree_to_tables is regenerated from the source on every run and proved equal to the model `treeTables`
THEOREMS += ['natProp_opposite', 'gen_step_core', 'gen_step', 'gen_stepAll', 'gen_processNet', 'gen_processNets',
             'gen_loop4', 'gen_loop3', 'gen_loop3_all', 'gen_tables_of', 'gen_tree_tables',
             'errPy_injective', 'tablesPy_injective', 'resPy_injective', 'gen_tables_spec']
CLAIM["text"] += (
    " TRANSLATOR TIE of the first clause (sixth translator round): the whole body of routing_tree_to_tables - the loop "
    "over the nets, key, mask = net_keys[net], the loop over the items yielded by tree.traverse(), in_direction / "
    "direction.opposite, the defaultdict of OrderedDicts of InOutPair(ins, outs) named tuples of sets, the membership "
    "test, the comparison of the stored out set with the node's, MultisourceRouteError(key, mask, (x, y)), the merge "
    "(.ins.add), the creation of a new route set, and the second pair of loops that builds the RoutingTableEntry "
    "lists - is translated from the source on every run (harness/gen/pydo.py -> Gen/PyFunTables.lean, Lean do-notation "
    "in Except, every loop body its own definition, every read of a defaultdict with the insertion it performs) and "
    "gen_tree_tables proves: for every list of (net id, net) items, every net_keys dict holding the nets' keys and "
    "well-formed trees, generated routing_tree_to_tables(routes, net_keys) = treeTables(nets) - the same tables in "
    "the same order (chips in order of first visit, entries in order of creation, route / sources as built) or the same "
    "exception with the same arguments; so tables_exact, multisource_iff and tables_spec are statements about the code "
    "as it is written today. gen_step is the per-node update (incl. the multi-source test and the merge), gen_stepAll / "
    "gen_processNet / gen_processNets the two loops, gen_tables_of the final conversion; gen_tables_spec states the first "
    "clause (TablesSpec) directly of the generated function, and the comparison loses nothing (resPy_injective).")
CLAIM["note"] += (
    " Translator tie of routing_tree_to_tables: what stays under the differential correspondence only is (1) "
    "RoutingTree.traverse itself (a generator over an object graph; hand model `traverse`, theorem traverse_exact) - the "
    "generated function takes, per net, the list of (direction, (x, y), out_directions) items the traversal yields; an "
    "AssertionError raised half-way through a traversal of a malformed tree is therefore outside gen_tree_tables "
    "(hypothesis: well-formed trees, as in tables_exact); (2) the representation step Python object -> Lean value: "
    "x, y, key, mask are opaque hashables (Nat), Routes members their values, a set the list of its elements "
    "(compared by mutual inclusion, added to without repetition), dicts association lists in insertion order; object "
    "identity is not modelled (no container is bound to two names in the function, the translator refuses it), so "
    "mutations that share one InOutPair / set object between chips or skip a tree seen before by identity change the "
    "generated text only if they change the statements (they do: an extra dict / test appears) and are otherwise found "
    "by the forest streams with shared objects. The proofs are semantic (dict lemmas in Lemmas/C10Dict.lean, then a "
    "case split on the lookup); a rewrite the translator cannot read drops only this definition (broken obligation of "
    "C10, extended search).")
