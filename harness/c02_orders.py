"""C02 (companion) - the vertex / chip ORDER functions of the wrapper placers.

Correspondence of rig/place_and_route/place/{breadth_first,rcm,hilbert}.py order functions
(`breadth_first_vertex_order`, `_get_vertices_neighbours`, `_dfs`, `_get_connected_subgraphs`,
`_cuthill_mckee`, `rcm_vertex_order`, `rcm_chip_order`, `hilbert`, `hilbert_chip_order`) with the Lean model
RigModel/Model/C02Orders.lean.  The functions are called from outside; the only instrumentation is the name
`set` in the two modules' namespaces, bound to a recording subclass: every Python-level iteration of a set and
every `set.pop()` is recorded and handed to the model as its oracle (the model checks that every recorded
order is an order of the set it computed itself).  The Lean predicates `isPermOf` (the order lists every
vertex exactly once) and `coversOnce` (every working chip exactly once) are evaluated on every order the
implementation produces, both the direct results and the orders the wrappers hand to the sequential placer.

Hooked into harness/c02.py:  run() calls run_orders(ctx), THEOREMS += THEOREMS_ORDERS, replay() calls
replay_orders(ctx, payload) when payload["case"] has the key "orders"."""
import collections

THEOREMS_ORDERS = [
    "bfsOrder_perm", "bfsOrder_terminates",
    "rcmVertexOrder_covers", "rcmVertexOrder_perm", "rcmChipOrder_perm",
    "rcmVertexOrder_terminates", "rcmVertexOrder_no_python_error", "rcmChipOrder_terminates",
    "rcmChipOrder_no_python_error", "dfs_terminates", "connectedSubgraphs_terminates", "cuthillMckee_terminates",
    "connectedSubgraphs_connected", "cuthillMckee_diverges_disconnected",
    "rcmPlace_terminates", "bfsPlace_terminates", "hilbertPlace_terminates",
    "hilbertLevel_least", "hilbertLevel_unique", "clog2_eq_levels", "hilbert_level_covers_iff", "hilbert_covers_all",
    "hilbert_curve_fills_square", "hilbert_perm_square", "levels_spec", "hilbertChipOrder_covers",
    "isPermOf_iff", "coversOnce_iff",
    "seqPlace_complete_of_perm", "bfsPlace_complete_unit", "hilbertPlace_complete_unit", "rcmPlace_complete_unit",
]

# text for CLAIM["text"] / CLAIM["note"] of harness/c02.py once this module is hooked in
CLAIM_ORDERS = (
    "Order functions of the wrapper placers (Props/C02Orders.lean), proved for ALL netlists (disconnected graphs, "
    "isolated vertices, self loops, repeated sinks, zero-weight nets, nets over unknown vertices), ALL machines (dead "
    "chips, dead links) and ALL outcomes of the set iterations / set.pop() calls inside the functions: "
    "breadth_first_vertex_order lists every vertex of vertices_resources exactly once and its loop terminates; "
    "rcm_vertex_order, whenever it returns, never repeats a vertex, misses none, and lists exactly the vertices when "
    "the nets connect known vertices (symmetric neighbour table, DFS closure, pairwise disjoint subgraphs, "
    "Cuthill-McKee order = rearrangement of the subgraph); rcm_chip_order is a rearrangement of iter(machine); the "
    "Hilbert L-system of level n, started in any frame, visits every point of its 2^n x 2^n square exactly once "
    "(induction on the level), so hilbert(k) enumerates [0,2^k)^2 without repetition and hilbert_chip_order, "
    "restricted to the machine, is a rearrangement of iter(machine); the decidable checks run on the "
    "implementation's orders equal these statements; hence (corollaries of seqPlace_complete_unit) the "
    "breadth-first, Hilbert (both modes) and RCM placers succeed under the unit-demand hypotheses. Tied to the code "
    "by exact correspondence of every order function (and of _get_vertices_neighbours, _dfs, "
    "_get_connected_subgraphs, _cuthill_mckee, the nets built by rcm_chip_order, hilbert(level)) with recorded set "
    "iteration orders, and by the Lean predicates isPermOf / coversOnce evaluated on the orders the wrappers hand to "
    "the sequential placer on an exactly-filling unit-demand problem. TERMINATION OF THE ORDER FUNCTIONS (new, all "
    "inputs, all oracle streams): rcm_vertex_order / rcm_chip_order never exhaust the step bounds of their three while "
    "loops - _dfs ends within 1 + (sum of the sizes of the inner neighbour dictionaries) iterations (measure: stack "
    "length + sizes of the dictionaries of unvisited vertices), _get_connected_subgraphs within one iteration per "
    "distinct vertex, _cuthill_mckee within len(subgraph) iterations BECAUSE every subgraph it is handed is the "
    "depth-first closure of a vertex in a symmetric table, hence connected (connectedSubgraphs_connected), so every "
    "layer before the last is non-empty (cuthillMckee_terminates; cuthillMckee_diverges_disconnected is the "
    "kernel-checked witness that on a disconnected vertex set the loop runs out of ANY fuel - the docstring's warning); "
    "the same invariant shows that the KeyError / ValueError _cuthill_mckee can raise on its own are unreachable "
    "inside rcm_vertex_order (rcmVertexOrder_no_python_error). rcmPlace_terminates / bfsPlace_terminates / "
    "hilbertPlace_terminates compose these with seqPlace_terminates: no loop of the three wrapper placers exceeds its "
    "bound. HILBERT LEVEL (new): levels n is THE least k with n <= 2^k for every n >= 1 (hilbertLevel_least, "
    "hilbertLevel_unique), the two models of the level are one function (clog2_eq_levels), and hilbert(L) covers a "
    "w x h machine IF AND ONLY IF max(w, h) <= 2^L (hilbert_level_covers_iff, every L, w, h), so the exact level "
    "covers every machine and no smaller level does (hilbert_covers_all): a float evaluation that comes out too "
    "large is harmless, one that comes out too small loses chips. The float expression int(ceil(log(n, 2.0))) is "
    "compared with the integer level for every n <= 65536 AND for 2^k - 1, 2^k, 2^k + 1 up to k = 62 on every run; the "
    "first n at which CPython's math.log deviates is recorded in the evidence (hilbert_level_float).")

NOTE_ORDERS = (
    "Order functions, NOT proved, only validated by the exact correspondence on every run: that "
    "int(ceil(log(n, 2.0))) is the integer ceil-log2 `levels n` - a property of CPython's math.log, not of rig: "
    "enumerated for every n <= 65536 on every run (a deviation there is a broken correspondence) and probed at "
    "2^k - 1, 2^k, 2^k + 1 for k <= 62, where the first deviation is RECORDED as a fact (evidence key "
    "hilbert_level_float with first_too_large / first_too_small; observed on this platform: one level too large "
    "first at n = 2**29 - harmless by hilbert_level_covers_iff, the curve still covers - and too small first at "
    "n = 2**49 + 1 - by hilbert_covers_all such a machine would lose chips, but no machine has a dimension of "
    "5.6e14). Net "
    "weights are exact multiples of 1/4 in the generators and are handed to the model as integers; set iteration "
    "orders and set.pop() results are recorded through a `set` subclass bound in the two modules' namespaces. "
    "Termination of rcm_vertex_order / rcm_chip_order is now a theorem (the `Fuel` outcome of the model is proved "
    "unreachable; a `Fuel` reply would differ from every result of the implementation, i.e. be a mismatch).")

RULE_ORDERS = ("order cases: netlists of 0-14 (thorough: up to 40) vertices with sparse random identifiers, 0-2n nets "
               "with 0-4 sinks (repeated sinks, self loops, zero and fractional weights, a stream with unknown "
               "vertices), machines 1x1..6x6 (thorough: up to 12x12, also 17x3 etc.) with dead chips and dead links; "
               "every order function is run with recorded set iteration orders and compared exactly with the model; "
               "the wrappers are run on an exactly-filling unit-demand problem and the Lean predicates are evaluated "
               "on the orders they hand to the sequential placer; hilbert(level) for every level 0..6 (thorough 0..8) "
               "and the level computation for every dimension 1..65536 and for 2^k - 1, 2^k, 2^k + 1 (k <= 62)")


# ---------------------------------------------------------------------------
# recording of set iteration orders
# ---------------------------------------------------------------------------

class Recorder(object):
    def __init__(self):
        self.pops = []
        self.iters = []

    def make_set(rec):          # noqa - `rec` is the recorder
        class RecSet(set):
            def __iter__(self):
                l = list(set.__iter__(self))
                rec.iters.append(l)
                return iter(l)

            def pop(self):
                v = set.pop(self)
                rec.pops.append(v)
                return v
        return RecSet


class recording(object):
    """with recording(mod, ...) as rec: the name `set` of the modules is a recording subclass"""

    def __init__(self, *mods):
        self.mods = mods
        self.rec = Recorder()

    def __enter__(self):
        cls = self.rec.make_set()
        for m in self.mods:
            m.__dict__["set"] = cls
        return self.rec

    def __exit__(self, *a):
        for m in self.mods:
            m.__dict__.pop("set", None)
        return False


_HANGS = [0]


def attempt(fn):
    """run an order function / a wrapper placer under a CPU limit (a call takes milliseconds): 10 s, at most 2 s
    once 4 calls of this run did not return, 0.5 s after 12 - a change that makes `_cuthill_mckee` loop for ever
    hangs hundreds of calls, and the run must still end with its verdict"""
    from harness import common
    lim = 10 if _HANGS[0] < 4 else (2 if _HANGS[0] < 12 else 0.5)
    try:
        with common.cpu_limit(lim):
            return {"ok": fn()}
    except common.ImplHang as e:
        _HANGS[0] += 1
        return {"err": "DidNotReturn", "msg": str(e)}
    except Exception as e:      # noqa - every exception type is part of the observation
        return {"err": type(e).__name__}


# ---------------------------------------------------------------------------
# generation
# ---------------------------------------------------------------------------

WEIGHTS = [0, 1, 1, 1, 2, 3, 0.5, 0.25, 1.5, 1.0, 0.0]


def gen_case(rng, big=False):
    n = rng.choice([0, 1, 2, 3, 4, 5, 6, 8, 10, 14] + ([20, 30, 40] if big else []))
    span = rng.choice([n + 1, 2 * n + 3, 64, 1000, 100000])
    ids = rng.sample(range(span), n) if span >= n else list(range(n))
    unknown = rng.random() < 0.12
    pool = list(ids) + ([max(ids + [0]) + 1 + rng.randrange(5) for _ in range(2)] if unknown else [])
    nets = []
    if pool:
        style = rng.choice(["sparse", "sparse", "dense", "chain", "none"])
        k = {"sparse": rng.choice([1, 2, max(1, n // 2)]), "dense": 2 * n, "chain": n, "none": 0}[style]
        for i in range(k):
            if style == "chain" and n >= 2 and rng.random() < 0.8:
                src, sinks = ids[i % n], [ids[(i + 1) % n]]
            else:
                src = rng.choice(pool)
                sinks = [rng.choice(pool) for _ in range(rng.choice([0, 1, 1, 2, 3, 4]))]
                if sinks and rng.random() < 0.2:
                    sinks.append(sinks[0])                       # repeated sink
                if rng.random() < 0.1:
                    sinks.append(src)                            # self loop
            nets.append([src, sinks, rng.choice(WEIGHTS)])
    # machine
    w = rng.choice([1, 1, 2, 2, 3, 3, 4, 5, 6] + ([8, 9, 12, 17] if big else []))
    h = rng.choice([1, 2, 2, 3, 3, 4, 5, 6] + ([7, 12] if big else []))
    allchips = [(x, y) for x in range(w) for y in range(h)]
    pd = rng.choice([0, 0, 0, 0.1, 0.3, 0.6])
    dead = [c for c in allchips if rng.random() < pd]
    if len(dead) == len(allchips) and rng.random() < 0.8:
        dead = dead[1:]
    pl = rng.choice([0, 0, 0.05, 0.2, 0.5, 1.0])
    dead_links = [[x, y, l] for (x, y) in allchips for l in range(6) if rng.random() < pl]
    case = {"vs": ids, "nets": nets, "unknown": unknown, "w": w, "h": h, "dead": [list(c) for c in dead],
            "dead_links": dead_links, "hilbert_bf": rng.random() < 0.6}
    # vertices needing nothing ({} / an explicit 0 / only a resource the machine lacks) among the unit-demand ones
    zk = rng.choice([0, 0, 1, 2, n // 3])
    case["zero"] = [[v, rng.choice(["empty", "zero", "foreign"])] for v in rng.sample(ids, min(zk, n))]
    from harness import c02_names
    return c02_names.draw(rng, case)


def w4(x):
    y = x * 4
    if float(y) != int(y):
        raise ValueError("weight %r is not a multiple of 1/4" % (x,))
    return int(y)


def build(case):
    """-> ..., nm: the Namer (vertex id -> the hashable object naming it, see c02_names)"""
    from rig.netlist import Net
    from rig.place_and_route import Machine
    from rig.links import Links
    from harness import c02_names
    RES = c02_names.resources(case)
    Cores = RES[0]
    nm = c02_names.Namer(case)
    vs = case["vs"]
    nets = [Net(nm.obj(s), [nm.obj(x) for x in k], wt) for s, k, wt in case["nets"]]
    dead = {tuple(c) for c in case["dead"]}
    working = [(x, y) for x in range(case["w"]) for y in range(case["h"]) if (x, y) not in dead]
    # the exactly-filling unit-demand problem: every vertex needs one core, the working chips offer
    # exactly len(vs) cores in total
    zero = {v: kind for v, kind in case.get("zero", [])}
    n, W = len(vs) - len(zero), max(1, len(working))
    base, extra = n // W, n % W
    exc = {c: {Cores: base + 1} for c in working[:extra]}
    machine = Machine(case["w"], case["h"], chip_resources={Cores: base}, chip_resource_exceptions=exc,
                      dead_chips=dead, dead_links={(x, y, Links(l)) for x, y, l in case["dead_links"]})
    demand = {None: {Cores: 1}, "empty": {}, "zero": {Cores: 0}, "foreign": {RES[1]: 0}}
    vr = collections.OrderedDict((nm.obj(v), dict(demand[zero.get(v)])) for v in vs)
    return vr, nets, machine, working, base, extra, nm


def lean_nets(case):
    return [[s, list(k), w4(wt)] for s, k, wt in case["nets"]]


def chips(l):
    return [[int(c[0]), int(c[1])] for c in l]


# ---------------------------------------------------------------------------
# one case
# ---------------------------------------------------------------------------

def run_case(case):
    """-> (requests, checks) ; checks = list of (kind, name, impl_value, request_index, placer)"""
    from rig.place_and_route.place import breadth_first, rcm, hilbert
    from harness import c02_names
    vr, nets, machine, working, base, extra, nm = build(case)
    vs = case["vs"]

    def D(l):
        """vertex objects -> ids (anything that is not one of our vertices is shown by its type)"""
        out = []
        for v in l:
            i = c02_names.index_of(v)
            out.append("<%s>" % type(v).__name__ if i is None else i)
        return out

    def Dout(o):
        return {"ok": D(o["ok"])} if "ok" in o else o
    reqs, checks = [], []
    gen = {"suite": "c02orders", "vs": vs, "nets": lean_nets(case), "pops": [], "iters": []}
    mach = {"suite": "c02orders", "w": case["w"], "h": case["h"], "dead": case["dead"],
            "dead_links": case["dead_links"]}

    def ask(req):
        reqs.append(req)
        return len(reqs) - 1

    def compare(name, impl, req):
        checks.append(("cmp", name, impl, ask(req), None))

    def oracle_perm(name, order, over, placer):
        if all(isinstance(v, int) and v >= 0 for v in order):
            checks.append(("perm", name, order, ask(dict(gen, op="is_perm", order=order, vs=over, nets=[])), placer))
        else:
            checks.append(("perm", name, order, None, placer))

    def oracle_covers(name, order, placer):
        try:
            pts = chips(order)
        except Exception:       # noqa
            pts = None
        checks.append(("covers", name, order if pts is None else pts,
                       None if pts is None else ask(dict(mach, op="covers", order=pts)), placer))

    closed = all(v in set(vs) for s, k, _ in case["nets"] for v in [s] + list(k))

    # breadth_first_vertex_order
    with recording(breadth_first) as rec:
        out = attempt(lambda: list(breadth_first.breadth_first_vertex_order(vr, nets)))
    out = Dout(out)
    compare("breadth_first_vertex_order", out, dict(gen, op="bfs", pops=D(rec.pops), iters=[D(i) for i in rec.iters]))
    if "ok" in out:
        oracle_perm("breadth_first_vertex_order", out["ok"], vs, "breadth_first")

    # _get_vertices_neighbours
    vn = rcm._get_vertices_neighbours(nets)
    compare("_get_vertices_neighbours",
            [[D([k])[0], [[D([k2])[0], w4(x)] for k2, x in inner.items()]] for k, inner in vn.items()],
            dict(gen, op="nbrs"))
    # _dfs from one vertex
    if vs or vn:
        cands = vs + D(list(vn))
        start = cands[case["w"] * 7 % len(cands)]
        out = attempt(lambda: list(rcm._dfs(nm.obj(start), rcm._get_vertices_neighbours(nets))))
        compare("_dfs", Dout(out), dict(gen, op="dfs", start=start))
    # _get_connected_subgraphs
    with recording(rcm) as rec:
        out = attempt(lambda: rcm._get_connected_subgraphs(vr, rcm._get_vertices_neighbours(nets)))
    sgs = out.get("ok", [])
    if "ok" in out:
        out = {"ok": [sorted(D(set.__iter__(s))) for s in sgs]}
    compare("_get_connected_subgraphs", out, dict(gen, op="subgraphs", pops=D(rec.pops)))
    # _cuthill_mckee on every subgraph
    for sg in sgs[:4]:
        members = sorted(D(set.__iter__(sg)))
        with recording(rcm) as rec:
            sg2 = rcm.__dict__["set"](list(set.__iter__(sg)))     # same insertion order, this recorder
            out = attempt(lambda: list(rcm._cuthill_mckee(sg2, rcm._get_vertices_neighbours(nets))))
        compare("_cuthill_mckee", Dout(out), dict(gen, op="cm", vs=members, iters=[D(i) for i in rec.iters]))
    # rcm_vertex_order
    with recording(rcm) as rec:
        out = attempt(lambda: list(rcm.rcm_vertex_order(vr, nets)))
    out = Dout(out)
    compare("rcm_vertex_order", out, dict(gen, op="rcm_v", pops=D(rec.pops), iters=[D(i) for i in rec.iters]))
    if "ok" in out and closed:
        oracle_perm("rcm_vertex_order", out["ok"], vs, "rcm")

    # rcm_chip_order: the nets it builds, and the order
    seen = []
    real = rcm.rcm_vertex_order
    rcm.rcm_vertex_order = lambda v_, n_: (seen.append((list(v_), list(n_))), real(v_, n_))[1]
    try:
        with recording(rcm) as rec:
            out = attempt(lambda: list(rcm.rcm_chip_order(machine)))
    finally:
        rcm.rcm_vertex_order = real
    if len(seen) == 1 and all(n_.weight == 1.0 for n_ in seen[0][1]):
        compare("rcm_chip_order.nets", [[list(n_.source), chips(n_.sinks)] for n_ in seen[0][1]],
                dict(mach, op="chip_nets"))
    else:
        compare("rcm_chip_order.nets", "rcm_vertex_order called %d times / weights" % len(seen),
                dict(mach, op="chip_nets"))
    if "ok" in out:
        out = {"ok": chips(out["ok"])}
    compare("rcm_chip_order", out, dict(mach, op="rcm_c", pops=chips(rec.pops), iters=[chips(i) for i in rec.iters]))
    if "ok" in out:
        oracle_covers("rcm_chip_order", out["ok"], "rcm")

    # hilbert_chip_order
    out = attempt(lambda: chips(hilbert.hilbert_chip_order(machine)))
    compare("hilbert_chip_order", out.get("ok", out), dict(mach, op="hilbert_c"))
    if "ok" in out:
        oracle_covers("hilbert_chip_order", out["ok"], "hilbert")

    # the wrappers on the exactly-filling unit-demand problem: the orders they hand on, and their outcome
    outcomes = {}
    c02 = {"suite": "c02", "w": case["w"], "h": case["h"], "res": [base], "dead": case["dead"],
           "exc": [[list(c), [base + 1]] for c in working[:extra]],
           "vr": [[v, [0 if v in {z for z, _ in case.get("zero", [])} else 1]] for v in vs], "cs": []}
    for name, mod, kw in (("breadth_first", breadth_first, {}),
                          ("hilbert", hilbert, {"breadth_first": case["hilbert_bf"]}),
                          ("rcm", rcm, {})):
        cap = []
        real_sp = mod.sequential_place

        def rec_sp(vr_, nets_, machine_, cs_, vertex_order=None, chip_order=None):
            vo = None if vertex_order is None else list(vertex_order)
            co = None if chip_order is None else list(chip_order)
            cap.append((vo, co))
            return real_sp(vr_, nets_, machine_, cs_, vo, co)
        mod.sequential_place = rec_sp
        try:
            res = attempt(lambda: mod.place(vr, nets, machine, [], **kw))
        finally:
            mod.sequential_place = real_sp
        outcomes[name] = res
        if "ok" in res:
            ok_shape = all(c02_names.index_of(v) is not None and isinstance(c, tuple) and len(c) == 2 and
                           all(isinstance(i, int) and i >= 0 for i in c) for v, c in res["ok"].items())
            p = sorted([c02_names.index_of(v), list(c)] for v, c in res["ok"].items()) if ok_shape else None
            res["valid_req"] = None if p is None else ask(dict(c02, op="valid", p=p))
        if len(cap) == 1:
            vo, co = cap[0]
            if vo is not None and (closed or name != "rcm"):
                oracle_perm(name + ".place vertex_order", D(vo), vs, name)
            if co is not None:
                oracle_covers(name + ".place chip_order", co, name)
        else:
            checks.append(("calls", name, len(cap), None, name))
    return reqs, checks, outcomes, closed


def eval_cases(ctx, cases):
    work, reqs = [], []
    for case in cases:
        r, checks, outcomes, closed = run_case(case)
        work.append((case, len(reqs), checks, outcomes, closed))
        reqs += r
    replies = ctx.lean(reqs)
    for case, off, checks, outcomes, closed in work:
        desc = {"orders": case}
        n_work = case["w"] * case["h"] - len(case["dead"])
        # outcome of each wrapper on the unit problem (the property: a feasible placement, and success
        # because the hypotheses of the completeness clause hold when there is a working chip)
        bad = {}
        for name, res in outcomes.items():
            ctx.traces += 1
            if "ok" in res:
                ctx.tag("orders:%s:placed" % name)
                if res["valid_req"] is None:
                    bad[name] = ("infeasible-placement-" + name, "%s returned a malformed placement" % name)
                elif not replies[off + res["valid_req"]].get("valid"):
                    bad[name] = ("infeasible-placement-" + name, "%s returned an infeasible placement (%s): %r" % (
                        name, replies[off + res["valid_req"]].get("why"), sorted(res["ok"].items())[:30]))
            else:
                ctx.tag("orders:%s:%s" % (name, res["err"]))
                if res["err"] == "DidNotReturn":
                    bad[name] = ("did-not-return", "%s did not return: %s (the models of the order functions and of the "
                                 "sequential placer terminate on every input: rcmPlace_terminates, bfsPlace_terminates, "
                                 "hilbertPlace_terminates)" % (name, res.get("msg")))
                elif res["err"] not in ("InsufficientResourceError", "InvalidConstraintError"):
                    if closed:
                        bad[name] = ("%s-raises-%s" % (name, res["err"]),
                                     "%s raised %s on a unit-demand problem without constraints" % (name, res["err"]))
                elif n_work >= 1 and case["vs"]:
                    bad[name] = ("incomplete-" + name,
                                 "%s raised %s although every vertex needs one core, there are no constraints and the "
                                 "working chips offer exactly as many cores as there are vertices" % (name, res["err"]))
        for name, (key, what) in bad.items():
            ctx.violation(key, what, dict(desc, placer=name))
        for kind, name, impl, idx, placer in checks:
            ctx.traces += 1
            rep = None if idx is None else replies[off + idx]
            if kind == "cmp":
                if isinstance(impl, dict) and "err" in impl:
                    ctx.tag("orders:%s:%s" % (name, impl["err"]))
                model = rep
                if isinstance(rep, dict) and "ok" in rep and isinstance(impl, dict):
                    model = {"ok": rep["ok"]}
                    if name == "_get_connected_subgraphs":       # the code returns sets
                        model = {"ok": [sorted(sg) for sg in rep["ok"]]}
                if isinstance(rep, dict) and "err" in rep and isinstance(impl, dict):
                    model = {"err": rep["err"]}
                if impl != model:
                    ctx.mismatch("c02orders." + name, "impl=%r model=%r" % (impl, model), desc)
            elif kind == "calls":
                ctx.mismatch("c02orders." + name, "the wrapper called sequential_place %r times" % (impl,), desc)
            else:
                good = rep is not None and bool(rep.get("perm" if kind == "perm" else "covers"))
                ctx.tag("orders:%s:%s" % (kind, "holds" if good else "fails"))
                if not good and placer not in bad:
                    # the order breaks the precondition of sequential.place, but this problem does not show a
                    # failure of the property itself: the correspondence (and the proved corollary) is broken
                    ctx.mismatch("c02orders." + name,
                                 "the Lean predicate %s fails on the implementation's order %r" % (
                                     "isPermOf" if kind == "perm" else "coversOnce", impl), desc)
        for t, on in (("unknown-vertices", case["unknown"]), ("no-nets", not case["nets"]),
                      ("zero-weight-net", any(n_[2] == 0 for n_ in case["nets"])),
                      ("fractional-weight", any(n_[2] != int(n_[2]) for n_ in case["nets"])),
                      ("self-loop", any(n_[0] in n_[1] for n_ in case["nets"])),
                      ("repeated-sink", any(len(set(n_[1])) < len(n_[1]) for n_ in case["nets"])),
                      ("dead-links", bool(case["dead_links"])), ("dead-chips", bool(case["dead"])),
                      ("no-working-chip", n_work == 0), ("no-vertices", not case["vs"]),
                      ("non-square-machine", case["w"] != case["h"])):
            if on:
                ctx.tag("orders:case:" + t)
        ctx.case(desc, len(case["vs"]) >= 2 and bool(case["nets"]) and n_work >= 2)


def fixed_checks(ctx):
    """hilbert(level) for small levels; the level computation for every dimension 1..65536"""
    from rig.place_and_route.place import hilbert
    top = ctx.scale(6, 8)
    reqs = [{"suite": "c02orders", "op": "hilbert", "level": k} for k in range(top + 1)]
    dims = list(range(0, 65537))
    reqs.append({"suite": "c02orders", "op": "levels", "ns": dims})
    rep = ctx.lean(reqs)
    for k in range(top + 1):
        impl = chips(hilbert.hilbert(k))
        ctx.traces += 1
        if impl != rep[k]:
            ctx.mismatch("c02orders.hilbert", "level %d: impl=%r model=%r" % (k, impl[:40], rep[k][:40]),
                         {"orders-fixed": "hilbert", "level": k})
    M = collections.namedtuple("M", "width height")
    wrong = []
    for n, lv in zip(dims, rep[-1]):
        g = hilbert.hilbert_chip_order(M(n, 1) if n % 2 else M(1, n))
        got = g.gi_frame.f_locals.get("level")
        g.close()
        if got != lv:
            wrong.append((n, got, lv))
    ctx.traces += 1
    ctx.extra["hilbert_levels_enumerated"] = len(dims)
    if wrong:
        ctx.mismatch("c02orders.hilbert_levels", "level of hilbert_chip_order differs from ceil(log2): %r" % (wrong[:5],),
                     {"orders-fixed": "levels", "n": wrong[0][0]})
    float_level_probe(ctx)


def float_level_probe(ctx):
    """The float expression of hilbert_chip_order against the integer level (hilbertLevel_least) at
    2^k - 1, 2^k, 2^k + 1 for k <= 62.  A deviation beyond 65536 is a property of CPython's math.log on this
    platform, recorded as a fact; one at or below 65536 (a plausible machine size) is a broken correspondence."""
    from rig.place_and_route.place import hilbert
    M = collections.namedtuple("M", "width height")
    big = sorted(set(n for k in range(0, 63) for n in (2 ** k - 1, 2 ** k, 2 ** k + 1) if n >= 1))
    lv = ctx.lean([{"suite": "c02orders", "op": "levels", "ns": big}])[0]
    dev = []
    for n, want in zip(big, lv):
        if want != (n - 1).bit_length():      # the integer specification, re-derived independently of the JSON path
            ctx.mismatch("c02orders.levels_spec", "model level %r of %d is not the least k with n <= 2^k" % (want, n),
                         {"orders-fixed": "levels", "n": n})
            return
        g = hilbert.hilbert_chip_order(M(n, 1) if n % 2 else M(1, n))
        got = g.gi_frame.f_locals.get("level")
        g.close()
        if got != want:
            dev.append((n, got, want))
    ctx.traces += 1
    small = [d for d in dev if d[0] <= 65536]
    fact = {"probed": len(big), "largest_probed": big[-1], "deviations": len(dev),
            "too_small": sum(1 for d in dev if d[1] is not None and d[1] < d[2]),
            "too_large": sum(1 for d in dev if d[1] is not None and d[1] > d[2])}
    if dev:
        n, got, want = dev[0]
        fact["first_deviation"] = {"n": n, "n_as_power": _as_power(n), "float_level": got, "exact_level": want}
        for key, sel in (("first_too_large", lambda d: d[1] is not None and d[1] > d[2]),
                         ("first_too_small", lambda d: d[1] is None or d[1] < d[2])):
            hit = [d for d in dev if sel(d)]
            fact[key] = ({"n": hit[0][0], "n_as_power": _as_power(hit[0][0]), "float_level": hit[0][1],
                          "exact_level": hit[0][2]} if hit else None)
        ctx.tag("orders:float-level-deviates-beyond-65536" if not small else "orders:float-level-deviates-small")
    else:
        fact["first_deviation"] = None
        ctx.tag("orders:float-level-exact-up-to-2^62")
    ctx.extra["hilbert_level_float"] = fact
    if small:
        ctx.mismatch("c02orders.hilbert_levels", "float level differs from ceil(log2) at a plausible size: %r" % (small[:5],),
                     {"orders-fixed": "levels", "n": small[0][0]})


def _as_power(n):
    for k in range(0, 64):
        for d in (-1, 0, 1):
            if 2 ** k + d == n:
                return "2**%d%s" % (k, "" if d == 0 else "%+d" % d)
    return str(n)


def run_orders(ctx):
    ctx.extra["rule_orders"] = RULE_ORDERS
    ctx.assumptions += [
        "order functions: nets mention only vertices of vertices_resources for the RCM 'exactly once' clause "
        "(the breadth-first order needs no such assumption); net weights are multiples of 1/4",
        "order functions: machine dimensions <= 65536 for the Hilbert level computation (float log)"]
    fixed_checks(ctx)
    n = ctx.scale(400, 8000)
    if ctx.extended:
        n *= 4
    cases = []
    for i in range(n):
        cases.append(gen_case(ctx.rng, big=(not ctx.quick) and ctx.rng.random() < 0.15))
    from harness import c02
    for i in range(0, len(cases), 25):
        eval_cases(ctx, cases[i:i + 25])
        if c02.hang_verdict_reached(ctx, _HANGS[0]):
            break


def replay_orders(ctx, payload):
    case = payload["case"]
    if "orders" in case:
        eval_cases(ctx, [case["orders"]])
    else:
        fixed_checks(ctx)
