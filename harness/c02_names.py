"""C02 (companion) - NAMES: vertices and resources are arbitrary hashable objects.

The generators, the Lean model and the oracle work on indices (vertex v = 0..n-1, resource r = 0..2).  The Python
objects handed to the placers are named by this module: a problem carries `names` (a kind, or "mixed": every vertex
draws its own kind from `names_seed`) and `res_names`; `Namer(prob).obj(i)` is the object of vertex i and
`index_of(obj)` maps whatever the implementation hands back (placement keys, vertex orders, RNG draws, constraint
members) to the index again - objects of this module's own classes by identity (they carry their index), every
other kind by equality (the value encodes kind and index, so the mapping is a function of the value).

kinds: plain non-negative ints (the index itself: problems without `names`, old replays), negative ints, strings,
strings containing '%' and '{}' directives, bytes, tuples of length 0/1/2/3, namedtuples with 1 and 3 fields,
frozensets, and plain objects compared by identity whose __repr__ / __str__ / __format__ return text with '%' and
'{}' directives, the empty string or a multi-line string."""
import collections
import random as _random

Slice = collections.namedtuple("Slice", "population start stop")
One = collections.namedtuple("One", "index")

RULE_NAMES = ("names: in every stream (main, kernel, orders, sessions, machine sequences) the vertices handed to the placers - "
              "keys of vertices_resources, net sources/sinks, members of location / same-chip / endpoint constraints, "
              "custom vertex orders - are arbitrary hashable objects: 25% plain ints, otherwise one kind per problem or "
              "a per-vertex mix of negative ints, strings, strings with '%' and '{}' directives, bytes, tuples of length "
              "0/1/2/3, namedtuples (1 and 3 fields), frozensets, identity-compared objects whose __repr__/__str__/"
              "__format__ return directive-laden, empty or multi-line text; in half of the problems the resources are "
              "not rig's Cores/SDRAM/SRAM but strings with directives, tuples (incl. the empty one) or such objects; "
              "22% of the main-stream problems are made unplaceable (capacities divided by 2/3/100, one over-sized vertex, "
              "a same-chip group no chip can hold) besides the tight ones, so that the failure paths of every placer run "
              "with such names; vertices needing nothing are written {} / with an explicit 0 / with only a resource the "
              "machine lacks (value 0), also among the exactly-filling unit-demand problems of every stream")

CLAIM_NAMES = ("Vertices and resources are opaque hashable objects to the theorems (indices in the model); on the "
               "implementation side every stream names them by arbitrary hashable objects (ints, strings and bytes with "
               "'%'/'{}' directives, tuples of length 0-3, namedtuples, frozensets, objects with odd __repr__/__str__) "
               "and maps every result back to indices (own objects by identity, values by equality), with a good share "
               "of unplaceable problems: the only accepted outcomes are a Feasible placement or the two documented "
               "exceptions.")

KINDS = ["plain", "negint", "str", "str%", "bytes", "t0", "t1", "t2", "t3", "nt", "nt1", "fs", "obj", "obj%", "obj-empty"]
SCHEMES = KINDS + ["mixed"]
RES_SCHEMES = ["rig", "str%", "tuple", "obj", "mixed"]


class Odd(object):
    """a hashable object compared by identity; knows its index"""
    __slots__ = ("c02_index", "style")

    def __init__(self, index, style):
        self.c02_index = index
        self.style = style

    def _text(self, which):
        if self.style == "obj%":
            return "%s(%d) 100%% {} {0} {x!r} %%(name)s %%d" % (which, self.c02_index)
        if self.style == "obj-empty":
            return "" if which == "str" else "line one\nline {two}\t%d"
        return "<%s %d>" % (which, self.c02_index)

    def __repr__(self):
        return self._text("repr")

    def __str__(self):
        return self._text("str")

    def __format__(self, spec):
        return self._text("str")


_VALUES = {}        # value -> index, for the kinds decoded by equality


def _value(kind, i):
    if kind == "negint":
        v = -(i + 1) * 7
    elif kind == "str":
        v = "v%d" % i
    elif kind == "str%":
        v = "v%d %%s %%(x)d 100%% {} {0} {x} {{" % i
    elif kind == "bytes":
        v = b"v%d \x00%%s{}" % i
    elif kind == "t1":
        v = (i,)
    elif kind == "t2":
        v = ("pop", i)
    elif kind == "t3":
        v = ("pop", i, i + 10)
    elif kind == "nt":
        v = Slice("pop", i, i + 10)
    elif kind == "nt1":
        v = One(i)
    elif kind == "fs":
        v = frozenset([i, -(i + 1)])
    else:
        raise ValueError(kind)
    _VALUES[v] = i
    return v


# NB: equal values of different kinds must decode to the same index: ("pop", i, i+10) == Slice("pop", i, i+10) and
# (i,) == One(i) do; no other two kinds produce equal values.


class Namer(object):
    """the objects of one build of one problem (fresh identity objects per build)"""

    def __init__(self, prob):
        self.scheme = prob.get("names") or "plain"
        self.seed = prob.get("names_seed", 0)
        self.cache = {}

    def kind(self, i):
        if self.scheme == "mixed":
            k = _random.Random(self.seed * 1000003 + i).choice(KINDS)
        else:
            k = self.scheme
        if k == "t0" and i != 0:
            k = "t2"            # the empty tuple can name one vertex only: vertex 0
        return k

    def obj(self, i):
        if i not in self.cache:
            k = self.kind(i)
            if k == "plain":
                self.cache[i] = i
            elif k == "t0":
                _VALUES[()] = 0
                self.cache[i] = ()
            elif k.startswith("obj"):
                self.cache[i] = Odd(i, k)
            else:
                self.cache[i] = _value(k, i)
        return self.cache[i]


def index_of(v):
    """index of a vertex object; None when it is not one of ours"""
    if isinstance(v, Odd):
        return v.c02_index
    if isinstance(v, bool):
        return None
    if isinstance(v, int):
        if v >= 0:
            return v
        return (-v) // 7 - 1 if (-v) % 7 == 0 else None
    try:
        return _VALUES.get(v)
    except TypeError:
        return None


# ---------------------------------------------------------------------------
# resources
# ---------------------------------------------------------------------------

_RES = {}


def resources(prob=None):
    """the three resource objects of a problem (the same objects on every call)"""
    scheme = (prob or {}).get("res_names") or "rig"
    if scheme not in _RES:
        from rig.place_and_route import Cores, SDRAM, SRAM
        rig = [Cores, SDRAM, SRAM]
        if scheme == "rig":
            r = rig
        elif scheme == "str%":
            r = ["cores %s {}", "sdram %(x)d {0}", "sram 100% {{"]
        elif scheme == "tuple":
            r = [(), ("mem",), ("mem", 2)]
        elif scheme == "obj":
            r = [Odd(0, "obj%"), Odd(1, "obj-empty"), Odd(2, "obj")]
        else:
            r = [Cores, ("mem", 1), Odd(2, "obj%")]
        _RES[scheme] = r
    return _RES[scheme]


def res_key(k):
    """a sortable, JSON-able stand-in for a resource object (snapshots)"""
    for scheme, r in _RES.items():
        for i, o in enumerate(r):
            if o is k:
                return "%s:%d" % (scheme, i)
    return "?" + type(k).__name__


def draw(rng, prob):
    """give a generated problem its names (consumes a fixed number of draws)"""
    a, b, c, d = rng.random(), rng.choice(SCHEMES), rng.randrange(2 ** 30), rng.choice(RES_SCHEMES)
    e = rng.random()
    prob["names"] = "plain" if a < 0.25 else b
    prob["names_seed"] = c
    prob["res_names"] = "rig" if e < 0.5 else d
    return prob
