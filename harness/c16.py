"""C16 - fixed-point conversion (rig/type_casts.py): exact correspondence of every
converter with the Lean model RigModel/Model/C16.lean on (mantissa, exponent)
integer pairs (no float crosses the line protocol), and the Lean specification
predicates (SpecFp / SpecFix / SpecMono / Exact53) evaluated on the
implementation's own outputs as the property oracle."""
import math
import struct
from fractions import Fraction

CLAIM = dict(
    text=("Machine-checked proof (Lean 4) in a dyadic-rational model of IEEE doubles, for ALL finite doubles and ALL "
          "formats (signed/unsigned, any width >= 1, any number of fractional bits < 1024): float_to_fp returns exactly "
          "the scaled value truncated toward zero, or the nearest end of the range (fp_total, fp_sat; the rule "
          "determines the result: spec_unique), is monotone (fp_mono), never leaves the range (fp_range), is within one "
          "LSB inside the range (fp_lsb); float_to_fp(fp_to_float(k)) = k for every in-range k that a double holds "
          "exactly (fp_inverse), and these k are characterised exactly: k = m * 2^j with |m| <= 2^53, i.e. at most 53 "
          "significant bits whatever the magnitude (exact53_iff, exact53_of_trailing_zeros, exact53_of_small; impossible "
          "for any other k: inverse_counterexample 2^53+1, known finding). The model of int -> double conversion "
          "(round53) is PROVED to be IEEE round-to-nearest, ties-to-even, to 53 significant bits: within half an ulp "
          "with the even significand at a tie, significand in [2^52, 2^53] when rounding happens "
          "(round53_nearest_even), no multiple of the ulp and no 53-bit dyadic of ANY exponent is closer and an equally "
          "close different one forces the even significand (round53_nearest_on_grid, round53_nearest_all), monotone "
          "(round53_mono), idempotent (round53_idem), odd (round53_neg), the identity up to 2^53 (round53_id_small). "
          "The NumPy array converter equals the scalar one element for element for 8/16/32 bits (array_eq_scalar) and "
          "for 64 bits below the rounded clip bound (array64_eq_scalar_below_bound), while at or above it the code "
          "before fixes/c16-saturate-64bit.diff casts out of range (array64_defect_all); the repaired code is proved "
          "equal for all four widths (array_eq_scalar_repaired). float32 / float16 INPUT ARRAYS: the code without "
          "fixes/c16-float32-arrays.diff computes in the dtype of the input, and as soon as 2.0**n_frac is not a finite "
          "value of that dtype (n_frac >= 16 for float16, >= 128 for float32) EVERY positive element saturates to the "
          "maximum and every zero becomes NaN (array_narrow_scale_overflow, array_narrow_defect: float16 0.5 in S15.16 "
          "gives 2^31-1 instead of 32768) - reported as violation array-float32-wrap with a concrete input until the "
          "fix is applied; with the fix the element is converted by the float64 code on its exact value and equals the "
          "scalar converter (array_eq_scalar_narrow_fixed). The deprecated float_to_fix, for EVERY width its "
          "constructor accepts (n_int <= 1023; OverflowError from n_int = 1024 on is modelled: "
          "deprecated_wide_rejected), never trips its assertion, equals float_to_fp modulo 2^n_bits whenever its float "
          "bound is exact (n_int <= 53; for every width after the repair) and fix_to_float equals fp_to_float on the "
          "two's-complement reading. Tied to rig/type_casts.py on every run by exact correspondence of all six "
          "converters on tens of thousands of generated values x formats (boundaries +-ulps, far beyond, subnormal, "
          "negative; widths 1-1100; scalars and float64 / float32 / float16 arrays of several shapes) with the Lean "
          "rule evaluated on every output. The model is a pure function of the supplied values; that the code is too - "
          "independence from call history and from aliasing of the input - is covered by streams: after EVERY array "
          "conversion the caller's input (values, dtype, shape, strides, writeable flag, underlying buffer of a view) is "
          "compared with a deep snapshot taken before (violation array-input-modified), and ONE input object "
          "(C-contiguous, 2-D, Fortran-order, strided / reversed views, 0-d, read-only, float32 / float16, list) is "
          "converted by 2-4 NumpyFloatToFixConverters in a row (n_frac 0 and not, all widths, signed / unsigned, narrow "
          "range first) and each result array by 1-2 NumpyFixToFloatConverters in a row, every result compared with "
          "the Lean rule / the scalar converter on the ORIGINAL values (array-ne-scalar-sequence); read-only inputs "
          "must convert without error (array-readonly-rejected). Converter OBJECTS are reused as well: 1-3 converters "
          "(NumpyFloatToFixConverter, NumpyFixToFloatConverter and the kept closures float_to_fp / float_to_fix / "
          "fp_to_float / fix_to_float; magnitude-bit twins unsigned N-1 / signed N such as U8/S9, U15/S16, U31/S32 in "
          "both orders, across the scalar, deprecated and array API) are created once in a freshly reloaded module and "
          "called 3-7 times on same-shaped and differently-shaped inputs; every result is compared with the model and "
          "the Lean rule when returned, ALL returned arrays are kept and re-checked byte-wise after every later call, "
          "after the harness writes to another returned array and after it writes to the input (a changed result is "
          "the violation array-result-overwritten, shown with the Lean rule's verdict on the new contents and with "
          "what the array shares memory with: input, other results, converter attributes). The same reuse stream "
          "varies what the API legally accepts (validated, verdict by model + Lean rule): constructor arguments as "
          "int / bool / IntEnum / numpy.bool_, positional and keyword; scalar values as float, exactly representable "
          "int (incl. 2^31, 2^32, 2^53, 2^63, 2^64, 2^100), bool, numpy.float64, numpy.int64 / int8 / uint64, Fraction, "
          "positional and keyword; NumPy float16 / float32 / float64 scalars as values of float_to_fp / float_to_fix "
          "over all formats (scales and products far beyond the narrow type's range) and NumPy unsigned / signed "
          "integer scalars as words of fix_to_float / values of fp_to_float (finding F23, fixed in the pinned tree: "
          "a regression is reported with a concrete input) - the rule, the model and every theorem are about the real "
          "number (exact dyadic value) the argument denotes, not about the type that carries it, so the expected result "
          "is the model's on that exact value; array inputs as tuple, nested list, range, int32 / bool arrays, memoryview, ndarray "
          "subclass, empty (0,) and (0,3), numpy scalar, 7-D, float32 / float16; numpy error state 'raise' and "
          "RuntimeWarning-as-error around calls whose scaled values are finite; the caller edits in place an object it "
          "passed and passes it again (to the same or a second converter), repeats the very same call, calls with "
          "faulty arguments (inf, nan, str, None) and goes on using the converter; twins (two converters equal in all "
          "but sign, width or n_frac) in both orders. Scale stream: arrays of 257 / 65,537 / 131,073 / 10^6 elements "
          "(five layouts) made of a 48-value block checked against the model, the large result compared with the "
          "block's (array-ne-scalar-large); formats of 257 - 100,000 bits and integers up to 2^5000 for the scalar "
          "closures. Shape stream: array SHAPE is a generator dimension of its own - for NumpyFloatToFixConverter and "
          "NumpyFixToFloatConverter, every width 8/16/32/64 and both signednesses, every one of: zero-size arrays of "
          "ranks 1-3 ((0,), (0,3), (2,0,4), (3,0), an empty slice, empty float32 / int32 arrays), empty list / tuple / "
          "nested list, 0-d array, NumPy scalar, (1,), (1,1), vector, 2-D, 3-D, 7-D, strided / reversed / transposed / "
          "column views, Fortran order, broadcast (zero-stride) view, read-only arrays, list / tuple / nested lists, "
          "float32 / float16 2-D; the result must have the input's shape, the documented dtype and the model's value "
          "element for element, and ANY exception on a format the model accepts is the violation "
          "exception-on-valid-input (also for inputs without elements, where no element could carry it). "
          "Every implementation call runs under a CPU-time limit: where the (total) model yields a value a "
          "call that does not return is the violation did-not-return."),
    design="3/C16",
    note=("Doubles are modelled as (m, e) pairs. PROVED inside the model (no longer trusted): the model's int -> "
          "double conversion is round-to-nearest-even to 53 bits, monotone, idempotent, exact up to 2^53 and for every "
          "integer with at most 53 significant bits; float(2^n - 1) for every n. TRUSTED (validated by the "
          "correspondence on every run, not proved): CPython's int -> float conversion and NumPy's int64/uint64 -> "
          "float64 cast ARE IEEE round-to-nearest-even; multiplying a binary float by a power of two is exact absent "
          "overflow / underflow (rounded to the subnormal grid below); int() truncates; np.clip compares exactly; an "
          "out-of-range or NaN float -> int cast is unspecified; for float32 / float16 arrays on the unfixed code: "
          "NumPy >= 2 promotion (Python scalars take the array's dtype). VALIDATED only (correspondence, no theorem): "
          "the element-wise behaviour of the unfixed code on float32 / float16 arrays outside the two proved defect "
          "classes (npFloatToFixNarrow: 0 mismatches); results the model calls 'unspecified' are not compared. "
          "A narrow-dtype element is reported as a violation only when its scaled value is a finite number of its own "
          "dtype (the narrowest reading of 'scaled value is still a finite float'). np.longdouble arrays, NaN and "
          "infinite inputs are outside the claim. The model covers the code before and after "
          "fixes/c16-saturate-64bit.diff and before and after fixes/c16-float32-arrays.diff; the harness detects which "
          "the tree contains (evidence: code_variant). "
          "HARDENING CHECKLIST - not applicable / left out: rig/type_casts.py has no optional or default parameters, "
          "returns no generators / iterators, keeps no connection / callback / allocation that can fail (faults = "
          "exceptions from bad arguments and OverflowError, after which the same closures / converters are used on), "
          "and takes no identifiers, byte strings or rig objects; set / frozenset / dict views / generators are not "
          "array-likes (numpy.asarray makes a 0-d object array of them) and NumpyFixToFloatConverter documents NumPy "
          "arrays only (lists are not divided by a float). numpy ints as n_bits / n_frac are outside the property text "
          "and TAG-ONLY (reuse_numpy_int_params_differ): e.g. float_to_fp(False, numpy.int32(32), 4) wraps in "
          "`1 << n_bits` (formats are documented as ints). numpy 'under' errors and "
          "python -O (asserts stripped) are not varied: underflow is a legitimate numpy event for in-domain inputs and "
          "-O needs another process."),
    technique="Lean 4 theorems over a hand-written model + differential correspondence + Lean spec as oracle")

THEOREMS = ["dtypes_cover", "fp_total", "fp_sat", "spec_unique", "spec_range", "fp_range", "fp_lsb", "fp_mono",
            "exact53_of_small", "fp_inverse", "inverse_counterexample",
            "array_eq_scalar", "array64_eq_scalar_below_bound", "array64_defect_all", "array64_defect",
            "array_eq_scalar_repaired",
            "deprecated_no_assert", "deprecated_twos_complement", "deprecated_twos_complement_repaired",
            "deprecated64_defect", "deprecated_wide_rejected", "fix_to_float_eq", "specFp_iff_rat",
            # Props/C16Round.lean: the IEEE facts about int -> double conversion proved inside the model
            "exact53_of_trailing_zeros", "exact53_iff", "round53_neg", "round53_idem", "round53_id_small",
            "round53_mono", "round53_nearest_even", "round53_nearest_on_grid", "round53_nearest_all",
            # Props/C16Narrow.lean: float32 / float16 input arrays
            "array_narrow_defect", "narrow_bounds_single_rounding", "array_narrow_scale_overflow",
            "array_eq_scalar_narrow_fixed"]

RULE = ("one case = one format (signed, n_bits, n_frac) with 6-24 doubles built around the format: exactly at, one and "
        "two ulps around min-1, min, max, max+1 (scaled), in-range values with fractional parts, far beyond, "
        "subnormal, zero, negative, log-uniform random; formats: widths 8/16/32/64 mostly plus every width 1-70, wide "
        "widths 71-1100 (around 1023/1024 where the deprecated constructor starts to raise), "
        "n_frac in, below (negative) and above the width plus extreme exponents; arrays in shapes (n,), (n,1), (1,n), "
        "(a,b), 0-d, python scalar, strided view; narrow cases: float32 / float16 arrays (values rounded to the dtype, its "
        "largest / least values, scaled values around the dtype's overflow threshold) with n_frac around the points "
        "where 2.0**n_frac overflows / underflows the dtype; inverse cases: integers at the ends, +-1, 53/54/63/64-bit "
        "patterns; sequence cases: one input object (14 container kinds incl. read-only, views, float32/16, list) "
        "through 2-4 array converters in a row (first one n_frac = 0 in 70%, often sorted narrow range first; values "
        "around every step's range and far outside the narrowest) and 0-2 NumpyFixToFloatConverters on each result; "
        "every array-taking call is bracketed by a deep snapshot of its input; reuse cases: 1-3 converter objects (array "
        "converters, kept scalar / deprecated closures, twin formats U(N-1)/S(N) in both orders) created once after "
        "reloading rig.type_casts, 3-7 calls (65% same shape and container as the first), all results kept and "
        "re-checked after every later call, after writing to 0-2 returned arrays and to 0-2 inputs; per converter: "
        "argument kinds (int / 0-1 / IntEnum / numpy.bool_ / numpy ints [tag-only]) and keyword construction (25%); per "
        "call: value kind or container kind (30-35%), keyword call (20%), numpy error state raise / warnings-as-errors "
        "(40%, applied when every scaled value is finite), then with 18% the same object again (70% edited in place) "
        "and with 10% a faulty call; 10% twin converters; scale cases: one per size 257 / 65,537 / 131,073 / 10^6 plus "
        "2 (36 thorough) random ones, 6 (60) wide-format / huge-integer scalar cases; 500 (8,000) NumPy-scalar cases: "
        "float16 / float32 / float64 values (rounded to the type, its extremes) for float_to_fp / float_to_fix over the "
        "general format generator plus n_frac around 16 / 128 / 1000, unsigned / signed NumPy words and integers for "
        "fix_to_float / fp_to_float over widths 1-80; shape cases: the full product {signed, unsigned} x {8,16,32,64} x "
        "33 shape kinds (to-fix) resp. 21 (to-float), 1 (8 thorough) random n_frac and value set each = 432 (3,456). "
        "A case is non-trivial when it contains both a saturating value and an in-range value whose scaled value has a "
        "fractional part (conversion and narrow cases), an in-range integer of more than 24 bits (inverse cases), or a value "
        "that saturates in an earlier step and not in a later one (sequence cases), or one converter called twice on the same "
        "shape / several converters (reuse cases); distinct = "
        "distinct canonical JSON")

NP_BITS = (8, 16, 32, 64)


# ---------------------------------------------------------------- dyadic helpers
def to_dy(x):
    """float -> [m, e] with m odd (or [0, 0]); exact."""
    x = float(x)
    if x == 0:
        return [0, 0]
    m, d = x.as_integer_ratio()
    e = -(d.bit_length() - 1)
    while m % 2 == 0:
        m //= 2
        e += 1
    return [m, e]


def from_dy(p):
    return math.ldexp(float(p[0]), p[1]) if abs(p[0]) < 2 ** 53 else float(Fraction(p[0]) * Fraction(2) ** p[1])


def canon_float(x):
    x = float(x)
    if math.isnan(x):
        return "nan"
    if math.isinf(x):
        return "inf" if x > 0 else "-inf"
    return to_dy(x)


def canon_model_float(r):
    """model reply {"ok": [m, e] | "inf"} -> canonical"""
    if "ok" in r and isinstance(r["ok"], list):
        m, e = r["ok"]
        if m == 0:
            return {"ok": [0, 0]}
        while m % 2 == 0:
            m //= 2
            e += 1
        return {"ok": [m, e]}
    return r


def frac_of(p):
    return Fraction(p[0]) * Fraction(2) ** p[1]


def exc_name(e):
    if isinstance(e, OverflowError):
        return "OverflowError"
    if isinstance(e, ValueError):
        return "ValueError"
    if isinstance(e, AssertionError):
        return "AssertionError"
    if isinstance(e, ZeroDivisionError):
        return "ZeroDivisionError"
    return "Other:" + type(e).__name__


_HANGS = [0]
CPU_LIMIT = [5.0]          # seconds of CPU time per implementation call (a normal call takes micro- to milliseconds;
#                            the 10^6-element scale cases some tens of milliseconds); 1 s after 6 hangs in one run,
#                            0.1 s after 12, and after 30 the remaining calls are not made at all


def call(f, *a, **kw):
    """one call of the implementation: value, exception class, or DidNotReturn.  Every function of the Lean
    model is total (structural recursion only), so a call that is still running after the limit is reported
    (`did-not-return`) wherever the model yields a value, and is a mismatch where the model yields an error."""
    from harness import common
    if _HANGS[0] >= 30:
        # keep the run short: the verdict (did-not-return, with the first concrete inputs) is already determined
        return {"err": "DidNotReturn", "where": "not called: 30 calls did not return earlier in this run"}
    try:
        with common.cpu_limit(CPU_LIMIT[0] if _HANGS[0] < 6 else 1.0 if _HANGS[0] < 12 else 0.1):
            return {"ok": f(*a, **kw)}
    except common.ImplHang as e:
        _HANGS[0] += 1
        return {"err": "DidNotReturn", "where": str(e)}
    except Exception as e:  # mapped to a small enum
        return {"err": exc_name(e)}


def exc_key(a, default="exception-in-domain"):
    return "did-not-return" if a.get("err") == "DidNotReturn" else default


# ---------------------------------------------------------------- generators
def fmt_range(fmt):
    if fmt["signed"]:
        mx = 2 ** (fmt["bits"] - 1) - 1
        return -mx - 1, mx
    return 0, 2 ** fmt["bits"] - 1


def gen_fmt(rng, extreme_ok=True):
    signed = rng.random() < 0.55
    r = rng.random()
    if r < 0.7:
        bits = rng.choice(NP_BITS)
    elif r < 0.8:
        bits = rng.choice([53, 54, 55, 63, 65])
    elif r < 0.95:
        bits = rng.randrange(1, 71)
    elif r < 0.985:
        # wide formats: the scalar and the deprecated converters accept any width (deprecated: n_int <= 1023)
        bits = rng.choice([72, 80, 96, 100, 127, 128, 129, 200, 256, 512, 1000, rng.randrange(71, 1023)])
    else:
        # around the width where validate_fp_params stops converting (1 << n_int) - 1 to a float
        bits = rng.choice([1022, 1023, 1024, 1025, 1026, 1100])
    r = rng.random()
    if r < 0.55:
        frac = rng.randrange(0, bits + 1)
    elif r < 0.65:
        frac = rng.choice([0, bits - 1, bits, max(bits - (1 if signed else 0), 0)])
    elif r < 0.78:
        frac = -rng.randrange(1, 12)
    elif r < 0.9:
        frac = bits + rng.randrange(1, 12)
    elif r < 0.97 or not extreme_ok:
        frac = rng.randrange(-80, 140)
    else:
        frac = rng.choice([-1100, -1075, -1074, -1022, -600, 600, 1000, 1022, 1023, 1024, 1030])
    return {"signed": signed, "bits": bits, "frac": frac}


def nudge(x, k):
    for _ in range(abs(k)):
        x = math.nextafter(x, math.inf if k > 0 else -math.inf)
    return x


def scaled_float(t, frac):
    """the double nearest to t * 2^-frac (t an int or Fraction), or None when not finite"""
    try:
        q = Fraction(t) / (Fraction(2) ** frac)
        x = float(q)
    except (OverflowError, ZeroDivisionError):
        return None
    return x if math.isfinite(x) else None


def gen_values(rng, fmt, n):
    lo, hi = fmt_range(fmt)
    frac = fmt["frac"]
    out = []
    while len(out) < n:
        r = rng.random()
        x = None
        if r < 0.34:
            t = rng.choice([lo - 1, lo, lo + 1, hi - 1, hi, hi + 1, hi + 2, lo - 2])
            x = scaled_float(t, frac)
            if x is not None:
                x = nudge(x, rng.choice([0, 0, 1, -1, 2, -2]))
        elif r < 0.42:
            # exactly the clip bound as a double, and the doubles next to it
            x = scaled_float(rng.choice([lo, hi, hi + 1]), frac)
            if x is not None:
                x = nudge(x, rng.choice([-1, 0, 1]))
        elif r < 0.62:
            # in range with a fractional part
            t = rng.randrange(lo, hi + 1) if hi - lo < 2 ** 62 else rng.randrange(lo, hi + 1)
            if rng.random() < 0.3:
                t = rng.choice([0, 1, -1, 2, -2, 3]) if fmt["signed"] else rng.choice([0, 1, 2, 3])
            q = Fraction(t) + Fraction(rng.randrange(-(2 ** 12) + 1, 2 ** 12), 2 ** 12)
            x = scaled_float(q, frac)
        elif r < 0.70:
            # far beyond
            t = rng.choice([1, -1]) * (hi + 1) * rng.choice([2, 3, 2 ** 10, 2 ** 40, 10 ** 30])
            x = scaled_float(t, frac)
        elif r < 0.76:
            x = rng.choice([0.0, -0.0, 5e-324, -5e-324, 2.2250738585072014e-308, -2.2250738585072014e-308,
                            1e-320, -3e-310, 1.7976931348623157e308, -1.7976931348623157e308, 1e300, -1e300])
        elif r < 0.88:
            x = math.ldexp(rng.random() * 2 - 1, rng.randrange(-1080, 1024))
        else:
            # log-uniform around the format's magnitude
            k = (hi + 1).bit_length() - frac
            try:
                x = math.ldexp(rng.random() * 2 - 1, k + rng.randrange(-6, 4))
            except OverflowError:
                x = None
        if x is None or not math.isfinite(x):
            continue
        out.append(x)
    return out


def gen_conv_case(rng, fmt=None):
    fmt = fmt or gen_fmt(rng)
    n = rng.choice([6, 8, 12, 12, 16, 24])
    vs = [to_dy(x) for x in gen_values(rng, fmt, n)]
    return {"kind": "conv", "fmt": fmt, "vs": vs, "shape": rng.randrange(8)}


def boundary_case(fmt):
    """deterministic neighbourhood of both ends of the range (thorough tier)"""
    lo, hi = fmt_range(fmt)
    xs = []
    for t in (lo - 1, lo, lo + 1, 0, hi - 1, hi, hi + 1):
        x = scaled_float(t, fmt["frac"])
        if x is None:
            continue
        for k in (-2, -1, 0, 1, 2):
            y = nudge(x, k)
            if math.isfinite(y):
                xs.append(y)
    return {"kind": "conv", "fmt": fmt, "vs": [to_dy(x) for x in xs], "shape": 0}


def gen_ints(rng, fmt, n):
    lo, hi = fmt_range(fmt)
    out = []
    for _ in range(n):
        r = rng.random()
        if r < 0.3:
            k = rng.choice([lo, lo + 1, hi, hi - 1, 0, 1, -1 if fmt["signed"] else 2, hi // 2, lo // 2])
        elif r < 0.55:
            k = rng.randrange(lo, hi + 1)
        elif r < 0.8:
            b = rng.choice([8, 24, 52, 53, 54, 55, 62, 63, 64])
            k = rng.choice([2 ** b, 2 ** b - 1, 2 ** b + 1, 2 ** b + 2, 3 * 2 ** (b - 1), 2 ** b + 2 ** max(b - 53, 0),
                            2 ** b + 3 * 2 ** max(b - 54, 0), rng.randrange(2 ** b)])
            if fmt["signed"] and rng.random() < 0.5:
                k = -k
        elif r < 0.9:
            # many significant bits then trailing zeros: exactly representable beyond 2^53
            k = rng.randrange(2 ** 52, 2 ** 53) << rng.randrange(0, 12)
            if fmt["signed"] and rng.random() < 0.5:
                k = -k
        else:
            k = rng.choice([hi + 1, lo - 1, hi + rng.randrange(1, 1000), 2 ** 70, -(2 ** 70)])
        out.append(k)
    return out


def gen_inv_case(rng):
    fmt = gen_fmt(rng, extreme_ok=rng.random() < 0.3)
    return {"kind": "inv", "fmt": fmt, "ks": gen_ints(rng, fmt, rng.choice([6, 10, 16])), "shape": rng.choice([0, 1, 2, 3, 4, 7])}


# ---------------------------------------------------------------- float32 / float16 input arrays
NARROW = {"f16": dict(np="float16", pack="e", p=11, emax=16, emin=-24),
          "f32": dict(np="float32", pack="f", p=24, emax=128, emin=-149)}


def to_narrow(x, prec):
    """the value of the narrow format nearest to the double x (as a double), None on overflow"""
    try:
        y = struct.unpack(NARROW[prec]["pack"], struct.pack(NARROW[prec]["pack"], x))[0]
    except (OverflowError, struct.error):
        return None
    return y if math.isfinite(y) else None


def gen_narrow_case(rng):
    prec = rng.choice(["f32", "f32", "f16", "f16"])
    P = NARROW[prec]
    emax, emin = P["emax"], P["emin"]
    signed = rng.random() < 0.55
    bits = rng.choice(NP_BITS)
    lo, hi = fmt_range({"signed": signed, "bits": bits})
    r = rng.random()
    if r < 0.40:
        frac = rng.randrange(0, bits + 1)
    elif r < 0.70:
        # around the points where 2.0**n_frac stops being a finite / non-zero value of the narrow format
        frac = rng.choice([emax - 2, emax - 1, emax, emax + 1, emax + 7, emin - 2, emin - 1, emin, emin + 1,
                           emax - bits, emax - bits + 1, 1 - emax, -emax])
    elif r < 0.9:
        frac = rng.randrange(-40, 70)
    else:
        frac = rng.randrange(-220, 220)
    fmt = {"signed": signed, "bits": bits, "frac": frac}
    top = math.ldexp(2.0 - 2.0 ** (1 - P["p"]), emax - 1)         # largest finite value
    tiny = math.ldexp(1.0, emin)                                  # least subnormal
    xs = []
    n = rng.choice([6, 8, 12, 16])
    pool = [to_narrow(x, prec) for x in gen_values(rng, fmt, 2 * n)]
    pool = [x for x in pool if x is not None]
    while len(xs) < n:
        r = rng.random()
        if r < 0.5 and pool:
            x = pool.pop()
        elif r < 0.7:
            x = rng.choice([0.0, -0.0, tiny, -tiny, 3 * tiny, top, -top, math.ldexp(1.0, emin + P["p"] - 1),
                            1.0, -1.0, 0.5, -0.25, 100.0, -300.0])
        elif r < 0.85:
            # the scaled value just around the overflow threshold of the narrow format
            x = to_narrow(math.ldexp(rng.choice([1, -1]) * rng.uniform(0.4, 2.2), emax - frac), prec) \
                if -1100 < emax - frac < 1020 else None
        else:
            x = to_narrow(math.ldexp(rng.random() * 2 - 1, rng.randrange(emin - 2, emax)), prec)
        if x is None:
            continue
        xs.append(x)
    return {"kind": "narrow", "prec": prec, "fmt": fmt, "vs": [to_dy(x) for x in xs], "shape": rng.randrange(8)}


def finite_in_dtype(p, frac, prec):
    """is the scaled value p * 2^frac a finite number of the narrow format (magnitude below 2^emax)?"""
    m, e = p
    if m == 0:
        return True
    return abs(m).bit_length() + e + frac <= NARROW[prec]["emax"]


def impl_narrow(case):
    import numpy as np
    from rig import type_casts as tc
    fmt = case["fmt"]
    s, b, f = fmt["signed"], fmt["bits"], fmt["frac"]
    dt = getattr(np, NARROW[case["prec"]]["np"])
    xs = [from_dy(p) for p in case["vs"]]
    out = {}
    with np.errstate(all="ignore"):
        arr = shape_array(np, xs, case["shape"], dt)
        assert [to_dy(float(x)) for x in arr.reshape(-1).tolist()] == [list(p) for p in case["vs"]], \
            "value is not a %s" % dt.__name__
        mk = call(tc.float_to_fp, s, b, f)
        out["fp"] = []
        for x in xs:
            r = call(mk["ok"], x) if "ok" in mk else mk
            out["fp"].append({"ok": int(r["ok"])} if "ok" in r else r)
        mk = call(tc.NumpyFloatToFixConverter, s, b, f)
        if "err" in mk:
            out["np"] = [mk] * len(xs)
        else:
            r = call_keep(out, "NumpyFloatToFixConverter", mk["ok"], arr)
            if "err" in r:
                out["np"] = [r] * len(xs)
            else:
                res = r["ok"]
                out["np_meta"] = bool(res.shape == arr.shape and res.dtype == np.dtype(NP_DTYPE[(s, b)]))
                out["np_dtype"] = str(res.dtype)
                out["np"] = [{"ok": int(v)} for v in res.reshape(-1).tolist()]
    return out


# ---------------------------------------------------------------- implementation side
def snap(obj):
    """deep snapshot of a caller-side input (ndarray or list) taken before a conversion"""
    if isinstance(obj, (list, tuple, range, memoryview)) or not hasattr(obj, "tobytes") or not hasattr(obj, "strides"):
        if isinstance(obj, memoryview):
            return {"list": ["memoryview", obj.tobytes(), obj.format, obj.shape, obj.readonly]}
        return {"list": [type(obj).__name__, repr(obj)]}
    base = obj.base if hasattr(obj.base, "tobytes") else None
    return {"bytes": obj.tobytes(), "dtype": str(obj.dtype), "shape": tuple(obj.shape), "strides": tuple(obj.strides),
            "writeable": bool(obj.flags.writeable), "values": obj.copy(),
            "base": None if base is None else base.tobytes()}


def snap_diff(obj, before):
    """None when the input object is exactly as it was, else a description of what changed"""
    now = snap(obj)
    if "list" in before:
        return None if now == before else "the %s %r became %r" % (before["list"][0], before["list"][1:], now["list"][1:])
    for k in ("dtype", "shape", "strides", "writeable"):
        if now[k] != before[k]:
            return "%s changed from %r to %r" % (k, before[k], now[k])
    if now["bytes"] != before["bytes"]:
        return "values %r became %r" % (before["values"].reshape(-1).tolist(), now["values"].reshape(-1).tolist())
    if now["base"] != before["base"]:
        return "elements of the underlying buffer outside the view changed"
    return None


def call_keep(out, what, f, obj):
    """call f(obj) and record in out['input_modified'] when the caller's object was changed by the call"""
    before = snap(obj)
    r = call(f, obj)
    d = snap_diff(obj, before)
    if d is not None and "input_modified" not in out:
        out["input_modified"] = "%s: %s" % (what, d)
    return r


def shape_array(np, xs, shape, dtype):
    """the same elements presented in one of several shapes; returns (object, flatten)"""
    n = len(xs)
    a = np.array(xs, dtype=dtype)
    if shape == 7:
        a.flags.writeable = False           # a read-only array must convert like any other
        return a
    if shape == 1:
        return a.reshape(n, 1)
    if shape == 2:
        return a.reshape(1, n)
    if shape == 3 and n % 2 == 0:
        return a.reshape(2, n // 2)
    if shape == 4 and n % 3 == 0:
        return a.reshape(n // 3, 3)
    if shape == 5:
        b = np.zeros(2 * n, dtype=dtype)
        b[::2] = a
        return b[::2]           # strided view
    if shape == 6 and n % 4 == 0:
        return a.reshape(2, 2, n // 4)
    return a


def impl_conv(case):
    import numpy as np
    from rig import type_casts as tc
    fmt = case["fmt"]
    s, b, f = fmt["signed"], fmt["bits"], fmt["frac"]
    xs = [from_dy(p) for p in case["vs"]]
    assert [to_dy(x) for x in xs] == [list(p) for p in case["vs"]], "value is not a double"
    out = {}
    with np.errstate(all="ignore"):
        # scalar
        mk = call(tc.float_to_fp, s, b, f)
        if "err" in mk:
            out["fp"] = [mk] * len(xs)
        else:
            out["fp"] = []
            for x in xs:
                r = call(mk["ok"], x)
                if "ok" in r:
                    r = {"ok": int(r["ok"])}
                out["fp"].append(r)
        # deprecated
        mk = call(tc.float_to_fix, s, b, f)
        if "err" in mk:
            out["fix"] = [mk] * len(xs)
        else:
            out["fix"] = []
            for x in xs:
                r = call(mk["ok"], x)
                if "ok" in r:
                    r = {"ok": int(r["ok"])}
                out["fix"].append(r)
        # array
        mk = call(tc.NumpyFloatToFixConverter, s, b, f)
        if "err" in mk:
            out["np"] = [mk] * len(xs)
        else:
            conv = mk["ok"]
            arr = shape_array(np, xs, case["shape"], np.float64)
            r = call_keep(out, "NumpyFloatToFixConverter", conv, arr)
            if "err" in r:
                out["np"] = [r] * len(xs)
            else:
                res = r["ok"]
                want = conv.dtypes[(s, b)] if hasattr(conv, "dtypes") else None
                ok_meta = (res.shape == arr.shape) and (want is None or res.dtype == np.dtype(want))
                out["np_meta"] = bool(ok_meta)
                out["np_dtype"] = str(res.dtype)
                out["np"] = [{"ok": int(v)} for v in res.reshape(-1).tolist()]
            # scalar / 0-d presentations of the first element
            r0 = call(conv, xs[0])
            out["np_scalar"] = {"ok": int(np.asarray(r0["ok"]).reshape(-1)[0])} if "ok" in r0 else r0
            r0 = call_keep(out, "NumpyFloatToFixConverter (0-d array)", conv, np.array(xs[0]))
            out["np_0d"] = {"ok": int(np.asarray(r0["ok"]).reshape(-1)[0])} if "ok" in r0 else r0
    return out


NP_DTYPE = {(False, 8): "uint8", (True, 8): "int8", (False, 16): "uint16", (True, 16): "int16",
            (False, 32): "uint32", (True, 32): "int32", (False, 64): "uint64", (True, 64): "int64"}


def impl_inv(case):
    import numpy as np
    from rig import type_casts as tc
    fmt = case["fmt"]
    s, b, f = fmt["signed"], fmt["bits"], fmt["frac"]
    lo, hi = fmt_range(fmt)
    ks = case["ks"]
    out = {"to_float": [], "back": [], "fix_to_float": [], "np_to_float": None, "np_back": None}
    with np.errstate(all="ignore"):
        mk = call(tc.fp_to_float, f)
        mkb = call(tc.float_to_fp, s, b, f)
        mkd = call(tc.fix_to_float, s, b, f)
        for k in ks:
            r = call(mk["ok"], k) if "ok" in mk else mk
            x = r.get("ok")
            out["to_float"].append({"ok": canon_float(x)} if "ok" in r else r)
            if "ok" in r and "ok" in mkb and math.isfinite(x):
                rb = call(mkb["ok"], x)
                out["back"].append({"ok": int(rb["ok"])} if "ok" in rb else rb)
            else:
                out["back"].append(None)
            if lo <= k <= hi:
                rd = call(mkd["ok"], k % (2 ** b)) if "ok" in mkd else mkd
                out["fix_to_float"].append({"ok": canon_float(rd["ok"])} if "ok" in rd else rd)
            else:
                out["fix_to_float"].append(None)
        sel = [i for i, k in enumerate(ks) if lo <= k <= hi]
        out["np_sel"] = sel
        if b in NP_BITS and sel:
            kk = [ks[i] for i in sel]
            arr = shape_array(np, kk, case["shape"], getattr(np, NP_DTYPE[(s, b)]))
            r = call_keep(out, "NumpyFixToFloatConverter", tc.NumpyFixToFloatConverter(f), arr)
            if "err" in r:
                out["np_to_float"] = [r] * len(kk)
            else:
                res = r["ok"]
                out["np_meta"] = bool(res.shape == arr.shape and res.dtype == np.float64)
                out["np_to_float"] = [{"ok": canon_float(v)} for v in res.reshape(-1).tolist()]
                if all(math.isfinite(v) for v in res.reshape(-1).tolist()):
                    mk2 = call(tc.NumpyFloatToFixConverter, s, b, f)
                    if "ok" in mk2:
                        r2 = call_keep(out, "NumpyFloatToFixConverter", mk2["ok"], res)
                        out["np_back"] = ([{"ok": int(v)} for v in r2["ok"].reshape(-1).tolist()]
                                          if "ok" in r2 else [r2] * len(kk))
    return out


# ---------------------------------------------------------------- evaluation
def detect_variant(ctx):
    """Which of the two modelled code shapes does the tree contain: the pinned one or the one
    after fixes/c16-saturate-64bit.diff?  Decided by behaviour at one distinguishing input per
    function; everything else is then compared exactly with that variant of the model (and the
    Lean rule is applied to every output whichever variant was detected)."""
    import numpy as np
    from rig import type_casts as tc
    var = {}
    with np.errstate(all="ignore"):
        r = call(lambda: int(tc.float_to_fix(True, 64, 0)(2.0 ** 63)))
        var["fix"] = "repaired" if r.get("ok") == 2 ** 63 - 1 else "pinned"
        r = call(lambda: int(tc.NumpyFloatToFixConverter(True, 64, 0)(np.array([2.0 ** 63]))[0]))
        var["np"] = "repaired" if r.get("ok") == 2 ** 63 - 1 else "pinned"
        # fixes/c16-float32-arrays.diff: the array converter computes in float64 whatever the input dtype
        r = call(lambda: int(tc.NumpyFloatToFixConverter(True, 32, 16)(np.array([0.5], dtype=np.float16))[0]))
        var["narrow"] = "float64" if r.get("ok") == 32768 else "input-dtype"
    ctx.extra["code_variant"] = var
    return var


def fmt_req(fmt, op, **kw):
    d = {"suite": "c16", "op": op, "signed": fmt["signed"], "bits": fmt["bits"], "frac": fmt["frac"]}
    d.update(kw)
    return d


def eval_conv(ctx, cases):
    reqs, idx = [], []
    for c in cases:
        c["impl"] = impl_conv(c)
        fmt, vs = c["fmt"], c["vs"]
        var = ctx.extra.get("code_variant") or detect_variant(ctx)
        for name, op in (("fp", "float_to_fp"), ("fix", "float_to_fix"), ("np", "np_float_to_fix")):
            reqs.append(fmt_req(fmt, op, vs=vs, repaired=var.get(name) == "repaired"))
            idx.append((c, "m_" + name))
        # oracles on the implementation's outputs (only where it returned a value)
        for name, op in (("fp", "spec_fp"), ("np", "spec_fp"), ("fix", "spec_fix")):
            sel = [i for i, r in enumerate(c["impl"][name]) if "ok" in r]
            c["sel_" + name] = sel
            reqs.append(fmt_req(fmt, op, vs=[vs[i] for i in sel], rs=[c["impl"][name][i]["ok"] for i in sel]))
            idx.append((c, "o_" + name))
        for name in ("fp", "np"):
            sel = c["sel_" + name]
            order = sorted(sel, key=lambda i: frac_of(vs[i]))
            c["ord_" + name] = order
            reqs.append({"suite": "c16", "op": "spec_mono", "vs": [vs[i] for i in order],
                         "rs": [c["impl"][name][i]["ok"] for i in order]})
            idx.append((c, "mono_" + name))
    for (c, what), r in zip(idx, ctx.lean(reqs)):
        c[what] = r
    for c in cases:
        judge_conv(ctx, c)


def sub_case(c, ids):
    d = {"kind": c["kind"], "fmt": c["fmt"], "shape": 0}
    if c["kind"] == "narrow":
        d["prec"] = c["prec"]
    if c["kind"] in ("conv", "narrow"):
        d["vs"] = [c["vs"][i] for i in ids]
    else:
        d["ks"] = [c["ks"][i] for i in ids]
    return d


def describe(fmt):
    return "%s%d.%d" % ("S" if fmt["signed"] else "U", fmt["bits"], fmt["frac"])


def judge_conv(ctx, c):
    fmt, vs, impl = c["fmt"], c["vs"], c["impl"]
    desc = {k: c[k] for k in ("kind", "fmt", "vs", "shape")}
    lo, hi = fmt_range(fmt)
    ctx.traces += 1
    rule_broken = False
    names = {"fp": "float_to_fp", "fix": "float_to_fix", "np": "NumpyFloatToFixConverter"}
    keys = {"fp": "scalar-rule", "fix": "deprecated-rule", "np": "array-rule"}
    for name in ("fp", "fix", "np"):
        model = c["m_" + name]
        # correspondence
        for i, (a, m) in enumerate(zip(impl[name], model)):
            if m.get("ok") == "unspecified":
                ctx.tag("np_cast_unspecified")
                continue
            if m.get("err") == "domain":
                continue
            if a != m:
                if "err" in a and "ok" in m:
                    # the property promises a value here (finite scaled value, accepted format)
                    ctx.violation(exc_key(a),
                                  "%s %s raised %s for %r; the rule gives %r" % (
                                      names[name], describe(fmt), a["err"], from_dy(vs[i]), m["ok"]),
                                  sub_case(c, [i]))
                    rule_broken = True
                ctx.mismatch("c16." + name, "%s value=%r impl=%r model=%r" % (
                    describe(fmt), vs[i], a, m), sub_case(c, [i]))
                break
        # oracle: the Lean rule on the implementation's outputs
        for j, ok in enumerate(c["o_" + name]):
            if not ok:
                i = c["sel_" + name][j]
                ctx.violation(keys[name],
                              "%s %s (%r) = %r violates the conversion rule (scaled, truncated toward zero, "
                              "saturated to [%d, %d]); float_to_fp gives %r" % (
                                  names[name], describe(fmt), from_dy(vs[i]), impl[name][i]["ok"], lo, hi,
                                  impl["fp"][i].get("ok", impl["fp"][i])),
                              sub_case(c, [i]))
                rule_broken = True
                break
    if not rule_broken:
        for name in ("fp", "np"):
            for j, ok in enumerate(c["mono_" + name]):
                if not ok:
                    ids = c["ord_" + name][j:j + 2]
                    ctx.violation("monotone", "%s %s is not monotone on %r" % (
                        names[name], describe(fmt), [from_dy(vs[i]) for i in ids]), sub_case(c, ids))
                    break
    if impl.get("input_modified"):
        ctx.violation("array-input-modified", "%s %s changed the caller's input array: %s" % (
            "array converter", describe(fmt), impl["input_modified"]), desc)
    # shape / dtype / scalar presentations of the array converter
    if impl.get("np_meta") is False:
        ctx.violation("array-shape-dtype", "NumpyFloatToFixConverter %s returned dtype %s / a different shape" % (
            describe(fmt), impl.get("np_dtype")), desc)
    for k in ("np_scalar", "np_0d"):
        if k in impl and impl[k] != impl["np"][0] and "ok" in impl["np"][0]:
            ctx.violation("array-ne-scalar-input", "NumpyFloatToFixConverter %s: %s presentation gives %r, array element %r" % (
                describe(fmt), k, impl[k], impl["np"][0]), sub_case(c, [0]))
    # distribution
    sat = frc = False
    for i, p in enumerate(vs):
        r = impl["fp"][i]
        if "err" in r:
            ctx.tag("fp_" + r["err"])
            continue
        try:
            q = frac_of(p) * Fraction(2) ** fmt["frac"]
        except (OverflowError, ZeroDivisionError):
            continue
        if q >= hi + 1:
            ctx.tag("sat_high")
            sat = True
        elif q <= lo - 1:
            ctx.tag("sat_low")
            sat = True
        elif q.denominator != 1:
            ctx.tag("in_range_fractional" if lo <= q <= hi else "edge_fractional")
            frc = True
        else:
            ctx.tag("in_range_integer")
    ctx.tag("fmt_bits_%s" % (fmt["bits"] if fmt["bits"] in NP_BITS else "other"))
    ctx.tag("fix_" + ("ok" if "ok" in impl["fix"][0] else impl["fix"][0]["err"]))
    ctx.tag("np_" + ("ok" if "ok" in impl["np"][0] else impl["np"][0]["err"]))
    ctx.tag("shape_%d" % c["shape"])
    ctx.case(desc, sat and frc)


def eval_inv(ctx, cases):
    reqs, idx = [], []
    for c in cases:
        c["impl"] = impl_inv(c)
        fmt, ks = c["fmt"], c["ks"]
        lo, hi = fmt_range(fmt)
        reqs.append({"suite": "c16", "op": "fp_to_float", "frac": fmt["frac"], "ks": ks})
        idx.append((c, "m_to_float"))
        reqs.append({"suite": "c16", "op": "np_fix_to_float", "frac": fmt["frac"], "ks": ks})
        idx.append((c, "m_np"))
        reqs.append(fmt_req(fmt, "fix_to_float", ws=[k % 2 ** fmt["bits"] for k in ks]))
        idx.append((c, "m_fix"))
        reqs.append({"suite": "c16", "op": "exact53", "ks": ks})
        idx.append((c, "exact"))
        reqs.append(fmt_req(fmt, "in_range", ks=ks))
        idx.append((c, "inr"))
    for (c, what), r in zip(idx, ctx.lean(reqs)):
        c[what] = r
    for c in cases:
        judge_inv(ctx, c)


def judge_inv(ctx, c):
    fmt, ks, impl = c["fmt"], c["ks"], c["impl"]
    desc = {k: c[k] for k in ("kind", "fmt", "ks", "shape")}
    ctx.traces += 1
    big = False
    for i, k in enumerate(ks):
        a = impl["to_float"][i]
        m = canon_model_float(c["m_to_float"][i])
        if a != m:
            ctx.mismatch("c16.fp_to_float", "frac=%d k=%d impl=%r model=%r" % (fmt["frac"], k, a, m), sub_case(c, [i]))
        inr = c["inr"][i]
        back = impl["back"][i]
        if inr and "ok" in a and a["ok"] not in ("inf", "-inf", "nan"):
            if k.bit_length() > 24:
                big = True
            # inverse: representable fixed-point value -> float -> back
            if back is None:
                ctx.tag("inverse_format_rejected")      # float_to_fp(...) itself raised (n_frac >= 1024)
            elif "err" in back:
                ctx.violation(exc_key(back), "float_to_fp%s raised %s on fp_to_float(%d)(%d)" % (
                    describe(fmt), back["err"], fmt["frac"], k), sub_case(c, [i]))
            elif back != {"ok": k}:
                exact = c["exact"][i]
                key = "inverse" if exact else "inverse-beyond-2^53"
                ctx.tag("inverse_inexact_beyond_2^53" if not exact else "inverse_FAILED")
                ctx.violation(key, "float_to_fp%s(fp_to_float(%d)(%d)) = %r, expected %d%s" % (
                    describe(fmt), fmt["frac"], k, back, k,
                    "" if exact else " (the value needs more than 53 significant bits: no double equals it)"),
                    sub_case(c, [i]))
            else:
                ctx.tag("inverse_ok_exact" if c["exact"][i] else "inverse_ok_inexact")
        elif not inr:
            ctx.tag("inverse_out_of_range_k")
        else:
            ctx.tag("inverse_nonfinite_float")
        # deprecated fix_to_float on the two's-complement word
        d = impl["fix_to_float"][i]
        if d is not None:
            md = canon_model_float(c["m_fix"][i])
            if md.get("err") != "domain" and d != md:
                ctx.mismatch("c16.fix_to_float", "%s w=%d impl=%r model=%r" % (
                    describe(fmt), k % 2 ** fmt["bits"], d, md), sub_case(c, [i]))
            if "ok" in d and "ok" in a and d != a:
                ctx.violation("deprecated-fix-to-float",
                              "fix_to_float %s (%d) = %r but fp_to_float(%d)(%d) = %r" % (
                                  describe(fmt), k % 2 ** fmt["bits"], d["ok"], fmt["frac"], k, a["ok"]),
                              sub_case(c, [i]))
            ctx.tag("fix_to_float_" + ("ok" if "ok" in d else d["err"]))
    if impl.get("input_modified"):
        ctx.violation("array-input-modified", "%s %s changed the caller's input array: %s" % (
            "array converter", describe(fmt), impl["input_modified"]), desc)
    if impl["np_to_float"] is not None:
        ctx.tag("np_fix_to_float")
        if impl.get("np_meta") is False:
            ctx.violation("array-shape-dtype", "NumpyFixToFloatConverter changed shape / dtype", desc)
        for j, i in enumerate(impl["np_sel"]):
            k = ks[i]
            a = impl["np_to_float"][j]
            m = canon_model_float(c["m_np"][i])
            if m.get("err") != "domain" and a != m:
                ctx.mismatch("c16.np_fix_to_float", "frac=%d k=%d impl=%r model=%r" % (fmt["frac"], k, a, m),
                             sub_case(c, [i]))
            s = impl["to_float"][i]
            if "ok" in a and "ok" in s and a != s:
                ctx.violation("array-ne-scalar-to-float",
                              "NumpyFixToFloatConverter(%d) element %d = %r but fp_to_float gives %r" % (
                                  fmt["frac"], k, a["ok"], s["ok"]), sub_case(c, [i]))
        if impl["np_back"] is not None:
            for j, i in enumerate(impl["np_sel"]):
                k = ks[i]
                if impl["np_back"][j] != {"ok": k}:
                    if c["exact"][i] and impl["back"][i] == {"ok": k}:
                        ctx.violation("array-inverse", "NumpyFloatToFixConverter%s(NumpyFixToFloatConverter(%d)) "
                                      "maps %d to %r" % (describe(fmt), fmt["frac"], k, impl["np_back"][j]),
                                      sub_case(c, [i]))
    ctx.tag("inv_fmt_bits_%s" % (fmt["bits"] if fmt["bits"] in NP_BITS else "other"))
    ctx.case(desc, big)


def eval_narrow(ctx, cases):
    reqs, idx = [], []
    var = ctx.extra.get("code_variant") or detect_variant(ctx)
    for c in cases:
        c["impl"] = impl_narrow(c)
        fmt, vs = c["fmt"], c["vs"]
        rep = var.get("np") == "repaired"
        if var.get("narrow") == "float64":
            reqs.append(fmt_req(fmt, "np_float_to_fix", vs=vs, repaired=rep))
        else:
            reqs.append(fmt_req(fmt, "np_float_to_fix_narrow", vs=vs, repaired=rep, prec=c["prec"]))
        idx.append((c, "m_np"))
        reqs.append(fmt_req(fmt, "float_to_fp", vs=vs))
        idx.append((c, "m_fp"))
        sel = [i for i, r in enumerate(c["impl"]["np"]) if "ok" in r]
        c["sel_np"] = sel
        reqs.append(fmt_req(fmt, "spec_fp", vs=[vs[i] for i in sel], rs=[c["impl"]["np"][i]["ok"] for i in sel]))
        idx.append((c, "o_np"))
    for (c, what), r in zip(idx, ctx.lean(reqs)):
        c[what] = r
    for c in cases:
        judge_narrow(ctx, c)


def judge_narrow(ctx, c):
    fmt, vs, impl, prec = c["fmt"], c["vs"], c["impl"], c["prec"]
    desc = {k: c[k] for k in ("kind", "prec", "fmt", "vs", "shape")}
    lo, hi = fmt_range(fmt)
    dtn = NARROW[prec]["np"]
    ctx.traces += 1
    # correspondence: scalar converter on the same values, array converter in the detected variant
    for i, (a, m) in enumerate(zip(impl["fp"], c["m_fp"])):
        if a != m:
            ctx.mismatch("c16.fp", "%s value=%r impl=%r model=%r" % (describe(fmt), vs[i], a, m), sub_case(c, [i]))
            break
    for i, (a, m) in enumerate(zip(impl["np"], c["m_np"])):
        if m.get("ok") == "unspecified":
            ctx.tag("narrow_cast_unspecified")
            continue
        if a != m:
            ctx.mismatch("c16.np_narrow", "%s %s value=%r impl=%r model=%r" % (
                describe(fmt), dtn, vs[i], a, m), sub_case(c, [i]))
            break
    # oracle: the Lean rule on every element the array converter returned
    for j, ok in enumerate(c["o_np"]):
        i = c["sel_np"][j]
        if ok:
            continue
        if finite_in_dtype(vs[i], fmt["frac"], prec):
            ctx.violation("array-float32-wrap",
                          "NumpyFloatToFixConverter %s on a %s array: element %r -> %r violates the conversion rule "
                          "(scaled, truncated toward zero, saturated to [%d, %d]); float_to_fp gives %r" % (
                              describe(fmt), dtn, from_dy(vs[i]), impl["np"][i]["ok"], lo, hi,
                              impl["fp"][i].get("ok", impl["fp"][i])),
                          sub_case(c, [i]))
            break
        # the scaled value is not a finite number of the input's own dtype: outside the narrowest reading of
        # the property ("whose scaled value is still a finite float"), so only compared with the model
        ctx.tag("narrow_rule_differs_scaled_value_overflows_dtype")
    if impl.get("input_modified"):
        ctx.violation("array-input-modified", "%s %s changed the caller's input array: %s" % (
            "array converter", describe(fmt), impl["input_modified"]), desc)
    if impl.get("np_meta") is False:
        ctx.violation("array-shape-dtype", "NumpyFloatToFixConverter %s returned dtype %s / a different shape for a "
                      "%s array" % (describe(fmt), impl.get("np_dtype"), dtn), desc)
    # distribution
    P = NARROW[prec]
    sat = frc = False
    ctx.tag("narrow_" + prec)
    if "err" in impl["np"][0]:
        ctx.tag("narrow_np_" + impl["np"][0]["err"])
    if fmt["frac"] >= P["emax"]:
        ctx.tag("narrow_scale_overflows_dtype")
    elif fmt["frac"] < P["emin"]:
        ctx.tag("narrow_scale_underflows_dtype")
    for i, p in enumerate(vs):
        if "err" in impl["fp"][i]:
            continue
        if not finite_in_dtype(p, fmt["frac"], prec):
            ctx.tag("narrow_product_overflows_dtype")
        q = frac_of(p) * Fraction(2) ** fmt["frac"]
        if q >= hi + 1 or q <= lo - 1:
            sat = True
        elif q.denominator != 1:
            frc = True
    ctx.case(desc, sat and frc)


# ---------------------------------------------------------------- sequences on ONE array object
CONTAINERS = ["c64", "c64", "c2d", "f2d", "strided", "rev", "0d", "ro", "ro", "ro_f2d", "f32", "f16", "f32_ro", "list"]


def gen_seq_fmt(rng, zero_frac):
    bits = rng.choice(NP_BITS)
    signed = rng.random() < 0.6
    if zero_frac:
        frac = 0
    else:
        r = rng.random()
        frac = 0 if r < 0.25 else rng.randrange(1, bits + 1) if r < 0.8 else -rng.randrange(1, 6) if r < 0.9 \
            else bits + rng.randrange(1, 6)
    return {"signed": signed, "bits": bits, "frac": frac}


def gen_seq_case(rng):
    """2-4 array converters applied in a row to the SAME input object; after some of them 1-2
    NumpyFixToFloatConverters applied in a row to the SAME result array"""
    k = rng.choice([2, 2, 3, 3, 4])
    fmts = [gen_seq_fmt(rng, zero_frac=(i == 0 and rng.random() < 0.7)) for i in range(k)]
    r = rng.random()
    if r < 0.45:
        fmts.sort(key=lambda f: f["bits"] - f["frac"])       # narrow range first, wider afterwards
    elif r < 0.55:
        fmts.sort(key=lambda f: -(f["bits"] - f["frac"]))
    cont = rng.choice(CONTAINERS)
    prec = {"f32": "f32", "f32_ro": "f32", "f16": "f16"}.get(cont)
    n = rng.choice([4, 6, 8, 12])
    xs = []
    for f in fmts:
        xs += gen_values(rng, f, 3)
    xs += [0.0, 0.75, -1.5, 300.0, -70000.0, 1e6, -3e9, 1e19, 127.0, 128.0, -129.0, 255.5, 65536.0]
    rng.shuffle(xs)
    if prec:
        xs = [y for y in (to_narrow(x, prec) for x in xs) if y is not None]
    xs = xs[:n] if len(xs) >= n else (xs * n)[:n]
    steps = []
    for f in fmts:
        st = {"fmt": f, "to_float": []}
        if rng.random() < 0.5:
            st["to_float"] = [rng.choice([0, f["frac"], f["frac"], rng.randrange(-8, 40)])
                              for _ in range(rng.choice([1, 2, 2]))]
        steps.append(st)
    return {"kind": "seq", "container": cont, "vs": [to_dy(x) for x in xs], "steps": steps}


class _Sub(object):
    """lazily created trivial ndarray subclass (numpy is imported lazily)"""
    cls = None


def make_container(np, xs, kind):
    if kind == "list":
        return list(xs)
    if kind == "tuple":
        return tuple(xs)
    if kind == "nested":
        return [list(xs[:len(xs) // 2]), list(xs[len(xs) // 2:])] if len(xs) % 2 == 0 and xs else [list(xs)]
    if kind == "range":
        return range(len(xs))                       # the values are 0 .. n-1 whatever xs says
    if kind == "intarr":
        return np.array([int(x) for x in xs], dtype=np.int32)
    if kind == "boolarr":
        return np.array([bool(x) for x in xs], dtype=np.bool_)
    if kind == "memview":
        return memoryview(np.array(xs, dtype=np.float64))
    if kind == "subclass":
        if _Sub.cls is None:
            _Sub.cls = type("ArraySubclass", (np.ndarray,), {})
        return np.array(xs, dtype=np.float64).view(_Sub.cls)
    if kind == "empty":
        return np.zeros((0,), dtype=np.float64)
    if kind == "empty2d":
        return np.zeros((0, 3), dtype=np.float64)
    if kind == "npscalar":
        return np.float64(xs[0])
    if kind == "nd7":
        return np.array(xs, dtype=np.float64).reshape((1, 1, len(xs), 1, 1, 1, 1))
    dt = {"f32": np.float32, "f32_ro": np.float32, "f16": np.float16}.get(kind, np.float64)
    a = np.array(xs, dtype=dt)
    n = len(xs)
    if kind == "c2d":
        a = a.reshape(2, n // 2)
    elif kind in ("f2d", "ro_f2d"):
        a = np.asfortranarray(a.reshape(2, n // 2))
    elif kind == "strided":
        b = np.full(2 * n, 7.0e4, dtype=dt)
        b[::2] = a
        a = b[::2]
    elif kind == "rev":
        a = a[::-1]
    elif kind == "0d":
        a = np.array(xs[0], dtype=dt)
    if kind in ("ro", "ro_f2d", "f32_ro"):
        a.flags.writeable = False
    return a


def impl_seq(case):
    """run the sequence on the real code; everything is compared with the ORIGINAL values"""
    import numpy as np
    from rig import type_casts as tc
    xs = [from_dy(p) for p in case["vs"]]
    out = {"steps": []}
    with np.errstate(all="ignore"):
        obj = make_container(np, xs, case["container"])
        orig = [float(x) for x in np.asarray(obj, dtype=np.float64).reshape(-1).tolist()]
        out["orig"] = [to_dy(x) for x in orig]
        for st in case["steps"]:
            fmt = st["fmt"]
            s, b, f = fmt["signed"], fmt["bits"], fmt["frac"]
            so = {"to_float": []}
            out["steps"].append(so)
            mk = call(tc.float_to_fp, s, b, f)
            so["fp"] = []
            for x in orig:
                r = call(mk["ok"], x) if "ok" in mk else mk
                so["fp"].append({"ok": int(r["ok"])} if "ok" in r else r)
            mk = call(tc.NumpyFloatToFixConverter, s, b, f)
            if "err" in mk:
                so["np"] = [mk] * len(orig)
                continue
            r = call_keep(so, "NumpyFloatToFixConverter%s" % describe(fmt), mk["ok"], obj)
            if "err" in r:
                so["np"] = [r] * len(orig)
                continue
            res = np.asarray(r["ok"])
            so["np_meta"] = bool(res.shape == np.shape(obj) and res.dtype == np.dtype(NP_DTYPE[(s, b)]))
            so["np"] = [{"ok": int(v)} for v in res.reshape(-1).tolist()]
            ks = [int(v) for v in res.reshape(-1).tolist()]
            for nf in st["to_float"]:
                sf = {"frac": nf, "ks": ks}
                so["to_float"].append(sf)
                g = call(tc.fp_to_float, nf)
                sf["scalar"] = []
                for kk in ks:
                    q = call(g["ok"], kk) if "ok" in g else g
                    sf["scalar"].append({"ok": canon_float(q["ok"])} if "ok" in q else q)
                q = call_keep(sf, "NumpyFixToFloatConverter(%d)" % nf, tc.NumpyFixToFloatConverter(nf), res)
                if "err" in q:
                    sf["np"] = [q] * len(ks)
                else:
                    fl = np.asarray(q["ok"])
                    sf["np_meta"] = bool(fl.shape == res.shape and fl.dtype == np.float64)
                    sf["np"] = [{"ok": canon_float(v)} for v in fl.reshape(-1).tolist()]
    return out


def eval_seq(ctx, cases):
    reqs, idx = [], []
    var = ctx.extra.get("code_variant") or detect_variant(ctx)
    rep = var.get("np") == "repaired"
    for c in cases:
        c["impl"] = impl = impl_seq(c)
        vs = impl["orig"]
        prec = {"f32": "f32", "f32_ro": "f32", "f16": "f16"}.get(c["container"])
        for st, so in zip(c["steps"], impl["steps"]):
            fmt = st["fmt"]
            if prec and var.get("narrow") != "float64":
                reqs.append(fmt_req(fmt, "np_float_to_fix_narrow", vs=vs, repaired=rep, prec=prec))
            else:
                reqs.append(fmt_req(fmt, "np_float_to_fix", vs=vs, repaired=rep))
            idx.append((so, "m_np"))
            sel = [i for i, r in enumerate(so["np"]) if "ok" in r]
            so["sel"] = sel
            reqs.append(fmt_req(fmt, "spec_fp", vs=[vs[i] for i in sel], rs=[so["np"][i]["ok"] for i in sel]))
            idx.append((so, "o_np"))
            for sf in so["to_float"]:
                reqs.append({"suite": "c16", "op": "np_fix_to_float", "frac": sf["frac"], "ks": sf["ks"]})
                idx.append((sf, "m_np"))
    for (d, what), r in zip(idx, ctx.lean(reqs)):
        d[what] = r
    for c in cases:
        judge_seq(ctx, c)


def judge_seq(ctx, c):
    impl = c["impl"]
    vs = impl["orig"]
    desc = {k: c[k] for k in ("kind", "container", "vs", "steps")}
    prec = {"f32": "f32", "f32_ro": "f32", "f16": "f16"}.get(c["container"])
    readonly = c["container"] in ("ro", "ro_f2d", "f32_ro")
    ctx.traces += 1
    done = [describe(st["fmt"]) for st in c["steps"]]
    for n, (st, so) in enumerate(zip(c["steps"], impl["steps"])):
        fmt = st["fmt"]
        lo, hi = fmt_range(fmt)
        where = "step %d of the sequence %s on one %s object" % (n + 1, " -> ".join(done), c["container"])
        if so.get("input_modified"):
            ctx.violation("array-input-modified", "%s: the caller's input was changed: %s" % (
                where, so["input_modified"]), desc)
        for i, (a, m) in enumerate(zip(so["np"], so["m_np"])):
            if m.get("ok") == "unspecified":
                continue
            if a != m:
                if "err" in a and "ok" in m:
                    ctx.violation(exc_key(a, "array-readonly-rejected" if readonly else "exception-in-domain"),
                                  "%s: NumpyFloatToFixConverter %s raised %s; the rule gives %r for %r" % (
                                      where, describe(fmt), a["err"], m["ok"], from_dy(vs[i])), desc)
                ctx.mismatch("c16.np_seq", "%s %s value=%r impl=%r model=%r" % (where, describe(fmt), vs[i], a, m), desc)
                break
        for j, ok in enumerate(so["o_np"]):
            i = so["sel"][j]
            if ok or (prec and not finite_in_dtype(vs[i], fmt["frac"], prec)):
                continue
            ctx.violation("array-ne-scalar-sequence",
                          "%s: NumpyFloatToFixConverter %s gives %r for the element whose original value is %r; the "
                          "conversion rule (and float_to_fp on the original value) gives %r" % (
                              where, describe(fmt), so["np"][i]["ok"], from_dy(vs[i]),
                              so["fp"][i].get("ok", so["fp"][i])), desc)
            break
        if so.get("np_meta") is False:
            ctx.violation("array-shape-dtype", "%s: NumpyFloatToFixConverter %s changed shape / dtype" % (
                where, describe(fmt)), desc)
        for sf in so["to_float"]:
            ctx.tag("seq_to_float")
            if sf.get("input_modified"):
                ctx.violation("array-input-modified", "%s, then %s" % (where, sf["input_modified"]), desc)
            if sf.get("np_meta") is False:
                ctx.violation("array-shape-dtype", "%s: NumpyFixToFloatConverter(%d) changed shape / dtype" % (
                    where, sf["frac"]), desc)
            for i, (a, m, sc) in enumerate(zip(sf["np"], sf["m_np"], sf["scalar"])):
                m = canon_model_float(m)
                if m.get("err") != "domain" and a != m:
                    ctx.mismatch("c16.np_fix_to_float_seq", "%s frac=%d k=%d impl=%r model=%r" % (
                        where, sf["frac"], sf["ks"][i], a, m), desc)
                    break
                if "ok" in a and "ok" in sc and a != sc:
                    ctx.violation("array-ne-scalar-sequence",
                                  "%s, then NumpyFixToFloatConverter(%d): element %d -> %r but fp_to_float gives %r" % (
                                      where, sf["frac"], sf["ks"][i], a["ok"], sc["ok"]), desc)
                    break
                if "err" in a and "ok" in sc:
                    ctx.violation(exc_key(a), "%s, then NumpyFixToFloatConverter(%d) raised %s" % (
                        where, sf["frac"], a["err"]), desc)
                    break
    # distribution: can an earlier step's saturation be seen by a later step?
    def sat(fmt, p):
        lo, hi = fmt_range(fmt)
        q = frac_of(p) * Fraction(2) ** fmt["frac"]
        return q >= hi + 1 or q <= lo - 1
    nontrivial = False
    for i in range(len(c["steps"])):
        for j in range(i + 1, len(c["steps"])):
            if any(sat(c["steps"][i]["fmt"], p) and not sat(c["steps"][j]["fmt"], p) for p in vs):
                nontrivial = True
    ctx.tag("seq_" + c["container"])
    ctx.tag("seq_len_%d" % len(c["steps"]))
    if any(st["fmt"]["frac"] == 0 for st in c["steps"][:-1]):
        ctx.tag("seq_zero_frac_before_last")
    if nontrivial:
        ctx.tag("seq_earlier_saturation_visible_later")
    ctx.case(desc, nontrivial)


# ---------------------------------------------------------------- ONE converter object, many calls, results kept
PAIR_FORMATS = [((False, 8), (True, 9)), ((False, 15), (True, 16)), ((False, 31), (True, 32)),
                ((False, 7), (True, 8)), ((False, 63), (True, 64)), ((False, 16), (True, 17))]
REUSE_CONTAINERS = ["c64", "c64", "c64", "c2d", "f2d", "strided", "ro", "list", "0d"]


def gen_reuse_spec(rng, kind, signed=None, bits=None):
    if bits is None:
        bits = rng.choice(NP_BITS) if kind in ("np_fix", "np_float") or rng.random() < 0.6 else rng.randrange(2, 40)
        signed = rng.random() < 0.6
    r = rng.random()
    frac = 0 if r < 0.25 else rng.randrange(0, bits) if r < 0.85 else -rng.randrange(1, 5)
    if kind in ("fix", "fix_float"):
        frac = max(0, min(frac, bits - (1 if signed else 0)))
    sp = {"kind": kind, "fmt": {"signed": signed, "bits": bits, "frac": frac}}
    # how the constructor is called: kind of the integer arguments, positional or keyword
    r = rng.random()
    if r < 0.12:
        sp["pk"] = "intenum"
    elif r < 0.2:
        sp["pk"] = "int01"            # signed as 0 / 1, n_frac as True / False where it is 0 / 1
    elif r < 0.26:
        sp["pk"] = "npbool"           # signed as numpy.bool_
    elif r < 0.34:
        sp["pk"] = rng.choice(["np64", "np32", "npu8"])     # numpy ints: outside the property text, tag only
    if rng.random() < 0.25:
        sp["kw"] = True
    return sp


NUMPY_PARAM = ("np64", "np32", "npu8")
FLOAT_CONTAINERS_EXTRA = ["tuple", "nested", "range", "intarr", "boolarr", "memview", "subclass", "empty", "empty2d",
                          "npscalar", "nd7", "f32", "f16"]
VALUE_KINDS_FLOAT = ["int", "bool", "npf64", "npi64", "fraction", "npf32", "npf16", "npf32", "npf16"]
VALUE_KINDS_INT = ["bool", "npi64", "npi8", "npu64", "npu", "npi"]
VALUE_KINDS_WORD = ["bool", "npu", "npu", "npu64", "npi", "npu32"]
EXACT_BIG = [2 ** 31, 2 ** 32, 2 ** 53, 2 ** 63, 2 ** 64, 2 ** 100, -(2 ** 31), -(2 ** 63), -(2 ** 100), 2 ** 31 - 1,
             2 ** 32 + 1, 2 ** 53 - 1]


def twin_of(rng, sp):
    """a format equal in all but one aspect"""
    f = dict(sp["fmt"])
    kind = sp["kind"]
    which = rng.choice(["signed", "bits", "frac"])
    if which == "signed":
        f["signed"] = not f["signed"]
    elif which == "bits":
        f["bits"] = rng.choice([b for b in NP_BITS if b != f["bits"]]) if kind in ("np_fix", "np_float") \
            else max(1, f["bits"] + rng.choice([-1, 1]))
    else:
        f["frac"] = f["frac"] + rng.choice([-1, 1])
    if kind in ("fix", "fix_float"):
        f["frac"] = max(0, min(f["frac"], f["bits"] - (1 if f["signed"] else 0)))
    t = dict(sp)
    t["fmt"] = f
    return t


def gen_reuse_case(rng):
    """1-3 converter objects created once, in a given order, and kept; 3-7 calls on them with
    same-shaped and differently-shaped inputs; every result is kept and re-checked after every later
    call, after writing to another result and after writing to the input"""
    r = rng.random()
    twins = False
    if r < 0.35:
        convs = [gen_reuse_spec(rng, "np_fix")]
        if rng.random() < 0.3:
            convs.append(gen_reuse_spec(rng, "np_fix"))
    elif r < 0.5:
        convs = [gen_reuse_spec(rng, "np_float")]
    elif r < 0.8:
        # magnitude-bit twins (unsigned N-1 / signed N) in both orders, across the scalar, deprecated and array API
        (us, ub), (ss, sb) = rng.choice(PAIR_FORMATS)
        ka = rng.choice(["fp", "fp", "fix", "np_fix", "fix_float"])
        kb = rng.choice(["fp", "fp", "fix", "np_fix", "fix_float"])
        a = gen_reuse_spec(rng, ka if ub in NP_BITS or ka != "np_fix" else "fp", us, ub)
        b = gen_reuse_spec(rng, kb if sb in NP_BITS or kb != "np_fix" else "fp", ss, sb)
        convs = [a, b] if rng.random() < 0.5 else [b, a]
        if rng.random() < 0.3:
            convs.append(gen_reuse_spec(rng, rng.choice(["fp", "fp_float"])))
    elif r < 0.9:
        convs = [gen_reuse_spec(rng, rng.choice(["fp", "fix", "fp_float", "fix_float"]))
                 for _ in range(rng.choice([1, 2, 3]))]
    else:
        # twins: two converters equal in all but one aspect (sign, width or n_frac), in either order
        a = gen_reuse_spec(rng, rng.choice(["np_fix", "np_fix", "fp", "fix", "fix_float", "np_float", "fp_float"]))
        convs = [a, twin_of(rng, a)]
        if rng.random() < 0.5:
            convs.reverse()
        twins = True
    n0 = rng.choice([2, 4, 6])
    c0 = rng.choice(REUSE_CONTAINERS)
    calls = []
    for _ in range(rng.choice([3, 4, 4, 5, 6, 7])):
        ci = rng.randrange(len(convs))
        sp = convs[ci]
        fmt = sp["fmt"]
        same = rng.random() < 0.65
        n = n0 if same else rng.choice([2, 4, 6, 8])
        cont = c0 if same else rng.choice(REUSE_CONTAINERS)
        call_ = {"c": ci}
        if sp["kind"] in ("np_fix", "fp", "fix"):
            call_["vs"] = [to_dy(x) for x in gen_values(rng, fmt, n)]
            call_["cont"] = cont
        elif sp["kind"] == "np_float":
            ds, db = rng.choice(sorted(NP_DTYPE))
            call_["dtype"] = [ds, db]
            call_["ks"] = gen_ints_in(rng, {"signed": ds, "bits": db}, n)
            call_["cont"] = cont if cont not in ("list", "0d") else "c64"
        elif sp["kind"] == "fp_float":
            call_["ks"] = gen_ints(rng, fmt, n)
        else:   # fix_float: unsigned words
            call_["ks"] = [k % 2 ** fmt["bits"] for k in gen_ints_in(rng, fmt, n)]
        # argument kinds, calling convention, numpy error state of this call
        if sp["kind"] == "np_fix" and rng.random() < 0.3:
            call_["cont"] = rng.choice(FLOAT_CONTAINERS_EXTRA)
            if call_["cont"] in ("intarr", "boolarr"):
                call_["vs"] = [to_dy(float(x)) for x in
                               ([rng.choice([0, 1]) for _ in range(n)] if call_["cont"] == "boolarr" else
                                [rng.choice([0, 1, -1, 127, 128, -129, 255, 256, 32767, 32768, -32769, 65536,
                                             2 ** 31 - 1, -(2 ** 31), rng.randrange(-70000, 70000)]) for _ in range(n)])]
            elif call_["cont"] in ("f32", "f16"):
                prec = call_["cont"]
                ys = [y for y in (to_narrow(from_dy(p), prec) for p in call_["vs"]) if y is not None] or [0.5]
                call_["vs"] = [to_dy(y) for y in (ys * n)[:n]]
        elif sp["kind"] in ("fp", "fix") and rng.random() < 0.35:
            vk = rng.choice(VALUE_KINDS_FLOAT)
            call_["vk"] = vk
            if vk == "bool":
                call_["vs"] = [to_dy(float(rng.choice([0, 1]))) for _ in range(n)]
            elif vk in ("npf32", "npf16"):
                prec = "f32" if vk == "npf32" else "f16"
                ys = [y for y in (to_narrow(from_dy(p), prec) for p in call_["vs"]) if y is not None] or [0.5]
                call_["vs"] = [to_dy(y) for y in (ys * n)[:n]]
            elif vk in ("int", "npi64"):
                lo, hi = fmt_range(fmt)
                pool = [0, 1, -1, 3, -3, 100, hi >> max(fmt["frac"], 0), (hi >> max(fmt["frac"], 0)) + 1,
                        (lo >> max(fmt["frac"], 0)) - 1] + (EXACT_BIG if vk == "int" else EXACT_BIG[:4])
                call_["vs"] = [to_dy(float(rng.choice(pool))) for _ in range(n)]
        elif sp["kind"] in ("fp_float", "fix_float") and rng.random() < 0.35:
            vk = rng.choice(VALUE_KINDS_INT if sp["kind"] == "fp_float" else VALUE_KINDS_WORD)
            call_["vk"] = vk
            if sp["kind"] == "fix_float" and vk != "bool":
                pass                                    # the words already generated, as NumPy scalars
            elif vk == "bool":
                call_["ks"] = [rng.choice([0, 1]) for _ in range(n)]
            elif vk == "npi8":
                call_["ks"] = [rng.randrange(-128, 128) for _ in range(n)]
            elif vk == "npi64":
                call_["ks"] = [rng.choice([0, -1, 2 ** 63 - 1, -(2 ** 63), 2 ** 53 + 1, rng.randrange(-2 ** 62, 2 ** 62)])
                               for _ in range(n)]
            elif vk == "npu64":
                call_["ks"] = [rng.choice([0, 1, 2 ** 64 - 1, 2 ** 63, 2 ** 53 + 1, rng.randrange(2 ** 64)])
                               for _ in range(n)]
        elif sp["kind"] == "np_float" and rng.random() < 0.2:
            call_["cont"] = rng.choice(["boolarr", "subclass", "empty", "npscalar", "f2d", "ro"])
            if call_["cont"] == "boolarr":
                call_["ks"] = [rng.choice([0, 1]) for _ in range(n)]
        if rng.random() < 0.2:
            call_["kw"] = True
        r = rng.random()
        if r < 0.2:
            call_["es"] = "warn_error"      # RuntimeWarning turned into an exception, numpy errors warn
        elif r < 0.4:
            call_["es"] = "raise"           # np.errstate(over / invalid / divide = "raise")
        calls.append(call_)
        # the caller edits the object it passed and passes it AGAIN / repeats the very same call / a faulty call
        r = rng.random()
        if r < 0.18 and sp["kind"] in ("np_fix", "np_float") and call_.get("cont") not in (
                "tuple", "range", "memview", "npscalar", "empty", "empty2d", "ro"):
            calls.append({"c": rng.choice([i for i, q in enumerate(convs) if q["kind"] == sp["kind"]]),
                          "again": len(calls) - 1, "edit": rng.random() < 0.7})
        elif r < 0.28:
            calls.append({"c": ci, "fault": rng.choice(["inf", "-inf", "nan", "str", "none", "list_of_str"])})
    k = len(calls)
    return {"kind": "reuse", "convs": convs, "calls": calls, "twins": twins,
            "mutate_result": sorted(rng.sample(range(k), rng.choice([0, 0, 1, 1, 2]))),
            "mutate_input": sorted(rng.sample(range(k), rng.choice([0, 1, 1, 2])))}


def gen_npscalar_case(rng):
    """NumPy scalars as arguments of the scalar closures, over ALL formats: float16 / float32 / float64 values for
    float_to_fp / float_to_fix (incl. scales and products far beyond the range of the narrow type), unsigned and signed
    NumPy integers as words / values for fix_to_float / fp_to_float.  Expected: the model on the exact value."""
    r = rng.random()
    if r < 0.6:
        kind = rng.choice(["fp", "fp", "fix"])
        fmt = gen_fmt(rng)
        if rng.random() < 0.3:
            fmt["frac"] = rng.choice([15, 16, 17, 24, 40, 100, 127, 128, 129, 200, 1000, 1023, -16, -24, -25, -149, -150])
        if kind == "fix":
            fmt["bits"] = max(1, fmt["bits"])
            fmt["frac"] = max(0, min(abs(fmt["frac"]), fmt["bits"] - (1 if fmt["signed"] else 0)))
        sp = {"kind": kind, "fmt": fmt}
        calls = []
        for _ in range(rng.choice([1, 2, 3])):
            vk = rng.choice(["npf16", "npf32", "npf32", "npf64"])
            xs = gen_values(rng, fmt, 6)
            if vk != "npf64":
                prec = "f32" if vk == "npf32" else "f16"
                P = NARROW[prec]
                top = math.ldexp(2.0 - 2.0 ** (1 - P["p"]), P["emax"] - 1)
                tiny = math.ldexp(1.0, P["emin"])
                xs = [y for y in (to_narrow(x, prec) for x in xs) if y is not None]
                xs += [rng.choice([top, -top, tiny, -tiny, 0.5, -0.25, 1.0, 100.0, math.ldexp(1.0, P["emax"] - 1)])
                       for _ in range(3)]
            calls.append({"c": 0, "cont": "list", "vk": vk, "vs": [to_dy(x) for x in xs]})
    else:
        kind = rng.choice(["fix_float", "fix_float", "fp_float"])
        bits = rng.choice([8, 8, 16, 16, 32, 32, 64, 64, rng.randrange(1, 65), rng.randrange(1, 65), 65, 80])
        signed = rng.random() < 0.6
        frac = rng.randrange(0, bits - (1 if signed else 0) + 1) if kind == "fix_float" else rng.randrange(-20, 80)
        fmt = {"signed": signed, "bits": bits, "frac": frac}
        sp = {"kind": kind, "fmt": fmt}
        calls = []
        for _ in range(rng.choice([1, 2, 3])):
            if kind == "fix_float":
                ws = [rng.choice([0, 1, 2 ** (bits - 1), 2 ** (bits - 1) - 1, 2 ** bits - 1, 2 ** bits - 2,
                                  2 ** (bits - 1) + 1, rng.randrange(2 ** bits)]) % 2 ** bits for _ in range(6)]
                calls.append({"c": 0, "ks": ws, "vk": rng.choice(["npu", "npu", "npu64", "npu32", "npi"])})
            else:
                vk = rng.choice(["npu", "npu64", "npi", "npi64", "npi8"])
                lo, hi = (0, 2 ** 64 - 1) if vk in ("npu", "npu64") else (-2 ** 63, 2 ** 63 - 1) if vk != "npi8" else (-128, 127)
                ks = [rng.choice([lo, hi, 0, 1, hi // 2, 255, 256, 65535, 2 ** 32 - 1, 2 ** 53 + 1, rng.randrange(lo, hi + 1)])
                      for _ in range(6)]
                calls.append({"c": 0, "ks": [min(max(k, lo), hi) for k in ks], "vk": vk})
    if rng.random() < 0.3:
        for cl in calls:
            cl["es"] = rng.choice(["raise", "warn_error"])
    return {"kind": "reuse", "convs": [sp], "calls": calls, "mutate_result": [], "mutate_input": [], "npscalar": True}


def gen_ints_in(rng, fmt, n):
    lo, hi = fmt_range(fmt)
    out = []
    for _ in range(n):
        r = rng.random()
        out.append(rng.choice([lo, hi, 0, 1, lo + 1, hi - 1, hi // 2]) if r < 0.35 else rng.randrange(lo, hi + 1))
    return out


def int_container(np, ks, kind, dt):
    if kind == "boolarr":
        return np.array([bool(k) for k in ks], dtype=np.bool_)
    if kind == "empty":
        return np.zeros((0,), dtype=dt)
    if kind == "npscalar":
        return dt(ks[0])
    a = np.array(ks, dtype=dt)
    n = len(ks)
    if kind == "c2d":
        a = a.reshape(2, n // 2)
    elif kind == "f2d":
        a = np.asfortranarray(a.reshape(2, n // 2))
    elif kind == "strided":
        b = np.zeros(2 * n, dtype=dt)
        b[::2] = a
        a = b[::2]
    elif kind == "ro":
        a.flags.writeable = False
    elif kind == "subclass":
        if _Sub.cls is None:
            _Sub.cls = type("ArraySubclass", (np.ndarray,), {})
        a = a.view(_Sub.cls)
    return a


class _Enum(object):
    cache = {}


def int_arg(np, v, pk, role):
    """the integer constructor argument v in the kind pk (role: 'signed' / 'bits' / 'frac')"""
    if role == "signed":
        if pk == "int01":
            return 1 if v else 0
        if pk == "npbool":
            return np.bool_(v)
        return v
    if pk == "intenum":
        import enum
        if v not in _Enum.cache:
            _Enum.cache[v] = enum.IntEnum("Param", {"member": v}).member
        return _Enum.cache[v]
    if pk == "int01" and role == "frac" and v in (0, 1):
        return bool(v)
    if pk == "np64":
        return np.int64(v)
    if pk == "np32" and -2 ** 31 <= v < 2 ** 31:
        return np.int32(v)
    if pk == "npu8" and 0 <= v < 256:
        return np.uint8(v)
    return v


def value_arg(np, x, vk):
    """the scalar argument x (an exactly representable number) in the kind vk"""
    from fractions import Fraction as Fr
    if vk == "int":
        return int(x)
    if vk == "bool":
        return bool(x)
    if vk == "npf64":
        return np.float64(x)
    if vk == "npi64":
        return np.int64(int(x)) if -2 ** 63 <= x < 2 ** 63 else int(x)
    if vk == "npi8":
        return np.int8(int(x)) if -128 <= x < 128 else int(x)
    if vk == "npu64":
        return np.uint64(int(x)) if 0 <= x < 2 ** 64 else int(x)
    if vk == "fraction":
        return Fr(x)
    if vk == "npf32":
        return np.float32(x)
    if vk == "npf16":
        return np.float16(x)
    if vk == "npu":         # the smallest unsigned NumPy type that holds the integer (an element of a uintN array)
        for t in (np.uint8, np.uint16, np.uint32, np.uint64):
            if 0 <= x <= int(np.iinfo(t).max):
                return t(int(x))
        return int(x)
    if vk == "npu32":
        return np.uint32(int(x)) if 0 <= x < 2 ** 32 else value_arg(np, x, "npu")
    if vk == "npi":         # the smallest signed NumPy type
        for t in (np.int8, np.int16, np.int32, np.int64):
            if int(np.iinfo(t).min) <= x <= int(np.iinfo(t).max):
                return t(int(x))
        return int(x)
    return x


class _Env(object):
    """numpy error state / warning filter around one call"""

    def __init__(self, np, es):
        import warnings
        self.np, self.es, self.w = np, es, warnings.catch_warnings()

    def __enter__(self):
        import warnings
        self.w.__enter__()
        if self.es == "warn_error":
            warnings.simplefilter("ignore")
            warnings.simplefilter("error", RuntimeWarning)
            self.e = self.np.errstate(over="warn", invalid="warn", divide="warn", under="ignore")
        elif self.es == "raise":
            warnings.simplefilter("ignore")
            self.e = self.np.errstate(over="raise", invalid="raise", divide="raise", under="ignore")
        else:
            warnings.simplefilter("ignore")
            self.e = self.np.errstate(all="ignore")
        self.e.__enter__()

    def __exit__(self, *a):
        self.e.__exit__(*a)
        self.w.__exit__(*a)
        return False


def scaled_finite(vs, frac):
    """every scaled value is a finite double (conservative): only then may numpy's error state be 'raise'"""
    return all(p[0] == 0 or abs(p[0]).bit_length() + p[1] + frac < 1020 for p in vs) and -1000 < frac < 1000


def impl_reuse(case):
    import importlib
    import numpy as np
    from rig import type_casts as tc
    tc = importlib.reload(tc)          # module-level state starts fresh: the case (and its replay) is self-contained
    out = {"convs": [], "calls": []}
    objs = []
    with np.errstate(all="ignore"):
        for sp in case["convs"]:
            f = sp["fmt"]
            pk = sp.get("pk")
            s, b, fr = int_arg(np, f["signed"], pk, "signed"), int_arg(np, f["bits"], pk, "bits"), \
                int_arg(np, f["frac"], pk, "frac")
            kw = sp.get("kw")
            full = dict(signed=s, n_bits=b, n_frac=fr)
            mk = {"np_fix": (tc.NumpyFloatToFixConverter, full), "np_float": (tc.NumpyFixToFloatConverter, dict(n_frac=fr)),
                  "fp": (tc.float_to_fp, full), "fix": (tc.float_to_fix, full),
                  "fp_float": (tc.fp_to_float, dict(n_frac=fr)), "fix_float": (tc.fix_to_float, full)}[sp["kind"]]
            order = [k for k in ("signed", "n_bits", "n_frac") if k in mk[1]]
            r = call(mk[0], **mk[1]) if kw else call(mk[0], *[mk[1][k] for k in order])
            objs.append(r)
            out["convs"].append("ok" if "ok" in r else r)
        kept = []          # (call index, result ndarray, bytes when returned / after our own write)
        passed = {}        # call index -> the input object of that call (the caller keeps it)

        def recheck(event):
            for (i, res, ref) in kept:
                oc = out["calls"][i]
                if oc.get("changed") is None and res.tobytes() != ref[0]:
                    oc["changed"] = event
                    oc["now"] = canon_list(res)

        def canon_list(res):
            flat = np.asarray(res).reshape(-1).tolist()
            return [{"ok": int(v)} if isinstance(v, int) and not isinstance(v, bool) else {"ok": canon_float(v)}
                    for v in flat]

        for j, cl in enumerate(case["calls"]):
            sp = case["convs"][cl["c"]]
            kind = sp["kind"]
            fmt = sp["fmt"]
            oc = {"changed": None, "alias": []}
            out["calls"].append(oc)
            mk = objs[cl["c"]]
            arrayish = kind in ("np_fix", "np_float")
            argname = "values" if arrayish else "value"
            if "fault" in cl:
                # a call that is expected to fail (or to return rubbish); only what happens AFTERWARDS is judged
                bad = {"inf": float("inf"), "-inf": float("-inf"), "nan": float("nan"), "str": "0.5", "none": None,
                       "list_of_str": ["a", "b"]}[cl["fault"]]
                if arrayish and cl["fault"] in ("inf", "-inf", "nan"):
                    bad = np.array([bad, 1.0])
                oc["fault"] = "no-converter" if "err" in mk else \
                    ("returned" if "ok" in call(mk["ok"], bad) else "raised")
                recheck("call %d (a faulty argument, %s)" % (j + 1, cl["fault"]))
                continue
            if "err" in mk:
                n_el = len(cl.get("vs", cl.get("ks", [])))
                oc["ret"] = [mk] * n_el
                oc["orig"] = cl.get("vs", [])
                oc["ks"] = cl.get("ks", [])
                oc["ctor_failed"] = True
                continue
            conv = mk["ok"]
            if not arrayish:
                floats = "vs" in cl
                xs = [from_dy(p) for p in cl["vs"]] if floats else cl["ks"]
                oc["orig"] = cl.get("vs")
                oc["ret"] = []
                es = cl.get("es")
                if es and not ((floats and scaled_finite(cl["vs"], fmt["frac"])) or
                               (not floats and es == "warn_error" and -900 < fmt["frac"] < 1000)):
                    es = None           # outside the property (scaled value not finite): numpy may warn / raise
                oc["es"] = es
                for x in xs:
                    a = value_arg(np, x, cl.get("vk"))
                    with _Env(np, es):
                        r = call(conv, **{argname: a}) if cl.get("kw") else call(conv, a)
                    if "ok" in r:
                        r = {"ok": int(r["ok"])} if kind in ("fp", "fix") else {"ok": canon_float(r["ok"])}
                    oc["ret"].append(r)
                recheck("call %d (%s)" % (j + 1, kind))
                continue
            if "again" in cl:
                obj = passed.get(cl["again"])
                if obj is None or not isinstance(obj, (np.ndarray, list)):
                    oc["skipped"] = True
                    oc["ret"], oc["orig"], oc["ks"] = [], [], []
                    continue
                if cl.get("edit"):
                    # the caller edits the object it passed earlier, in place, and passes it again
                    if isinstance(obj, list):
                        if obj and isinstance(obj[0], list):
                            obj[0][0] = 0.25
                        elif obj:
                            obj[0] = 0.25
                        obj.reverse()
                    elif obj.flags.writeable and obj.size:
                        if kind == "np_fix":
                            vals = np.asarray(obj, dtype=np.float64) * -0.5 + 1.0
                            obj[...] = vals.astype(obj.dtype)
                        else:
                            obj[...] = obj // 2
                        recheck("the caller editing, before call %d, the input object of call %d" % (j + 1, cl["again"] + 1))
            elif kind == "np_fix":
                obj = make_container(np, [from_dy(p) for p in cl["vs"]], cl["cont"])
            else:
                obj = int_container(np, cl["ks"], cl["cont"], getattr(np, NP_DTYPE[tuple(cl["dtype"])]))
            passed[j] = obj
            if kind == "np_fix":
                orig = [float(x) for x in np.asarray(obj, dtype=np.float64).reshape(-1).tolist()]
                oc["orig"] = [to_dy(x) for x in orig]
                g = call(tc.float_to_fp, fmt["signed"], fmt["bits"], fmt["frac"])
                oc["scalar"] = [call(g["ok"], x) if "ok" in g else g for x in orig]
                oc["scalar"] = [{"ok": int(q["ok"])} if "ok" in q else q for q in oc["scalar"]]
            else:
                oc["ks"] = [int(v) for v in np.asarray(obj).reshape(-1).tolist()]
                g = call(tc.fp_to_float, fmt["frac"])
                oc["scalar"] = [call(g["ok"], k) if "ok" in g else g for k in oc["ks"]]
                oc["scalar"] = [{"ok": canon_float(q["ok"])} if "ok" in q else q for q in oc["scalar"]]
            es = cl.get("es")
            if es and not ((kind == "np_fix" and scaled_finite(oc["orig"], fmt["frac"])) or
                           (kind == "np_float" and es == "warn_error" and -900 < fmt["frac"] < 1000)):
                es = None               # outside the property (scaled value not finite): numpy may warn / raise
            oc["es"] = es
            with _Env(np, es):
                if cl.get("kw"):
                    r = call_keep(oc, "call %d" % (j + 1), lambda o: conv(values=o), obj)
                else:
                    r = call_keep(oc, "call %d" % (j + 1), conv, obj)
            n_el = len(oc["orig"] if kind == "np_fix" else oc["ks"])
            if "err" in r:
                oc["ret"] = [r] * n_el
                if n_el == 0:
                    oc["call_err"] = r          # no element carries the exception: keep it for the whole call
                recheck("call %d raising" % (j + 1))
                continue
            res = r["ok"]
            oc["ret"] = canon_list(res)
            want_dt = np.dtype(NP_DTYPE[(bool(fmt["signed"]), fmt["bits"])]) if kind == "np_fix" else np.float64
            oc["meta"] = bool(np.shape(res) == np.shape(obj) and np.asarray(res).dtype == want_dt)
            recheck("call %d on the same converter object" % (j + 1))
            if isinstance(res, np.ndarray):
                if isinstance(obj, np.ndarray) and np.shares_memory(res, obj):
                    oc["alias"].append("its input")
                for (i, other, _) in kept:
                    if np.shares_memory(res, other):
                        oc["alias"].append("the result of call %d" % (i + 1))
                for name, val in sorted(getattr(conv, "__dict__", {}).items()):
                    if isinstance(val, np.ndarray) and np.shares_memory(res, val):
                        oc["alias"].append("the converter attribute %s" % name)
                ref = [res.tobytes()]
                kept.append((j, res, ref))
                if j in case["mutate_input"] and isinstance(obj, np.ndarray) and obj.flags.writeable and obj.ndim:
                    obj[...] = 3 if kind == "np_float" else 3.0
                    recheck("writing to the input array of call %d after it returned" % (j + 1))
                if j in case["mutate_result"] and res.flags.writeable and res.ndim:
                    res[...] = 85
                    ref[0] = res.tobytes()
                    oc["mutated"] = True
                    recheck("writing to the array returned by call %d" % (j + 1))
    return out


def eval_reuse(ctx, cases):
    reqs, idx = [], []
    var = ctx.extra.get("code_variant") or detect_variant(ctx)
    for c in cases:
        c["impl"] = impl = impl_reuse(c)
        for cl, oc in zip(c["calls"], impl["calls"]):
            sp = c["convs"][cl["c"]]
            fmt, kind = sp["fmt"], sp["kind"]
            if "fault" in oc or oc.get("skipped"):
                continue
            if kind in ("np_fix", "fp", "fix"):
                vs = oc["orig"]
                op = {"np_fix": "np_float_to_fix", "fp": "float_to_fp", "fix": "float_to_fix"}[kind]
                reqs.append(fmt_req(fmt, op, vs=vs, repaired=var.get("np" if kind == "np_fix" else "fix") == "repaired"))
                idx.append((oc, "model"))
                sel = [i for i, r in enumerate(oc["ret"]) if "ok" in r]
                oc["sel"] = sel
                reqs.append(fmt_req(fmt, "spec_fix" if kind == "fix" else "spec_fp", vs=[vs[i] for i in sel],
                                    rs=[oc["ret"][i]["ok"] for i in sel]))
                idx.append((oc, "oracle"))
                if oc.get("now") is not None and len(oc["now"]) == len(vs):
                    reqs.append(fmt_req(fmt, "spec_fp", vs=vs, rs=[q["ok"] for q in oc["now"]]))
                    idx.append((oc, "oracle_now"))
            elif kind == "np_float":
                reqs.append({"suite": "c16", "op": "np_fix_to_float", "frac": fmt["frac"], "ks": oc.get("ks", cl.get("ks", []))})
                idx.append((oc, "model"))
            elif kind == "fp_float":
                reqs.append({"suite": "c16", "op": "fp_to_float", "frac": fmt["frac"], "ks": cl.get("ks", [])})
                idx.append((oc, "model"))
            else:
                reqs.append(fmt_req(fmt, "fix_to_float", ws=[int(k) for k in cl.get("ks", [])]))
                idx.append((oc, "model"))
    for (d, what), r in zip(idx, ctx.lean(reqs)):
        d[what] = r
    for c in cases:
        c["narrow_variant"] = var.get("narrow")
        judge_reuse(ctx, c)


def judge_reuse(ctx, c):
    impl = c["impl"]
    desc = {k: c[k] for k in ("kind", "convs", "calls", "mutate_result", "mutate_input", "twins", "scale", "npscalar") if k in c}
    ctx.traces += 1
    names = {"np_fix": "NumpyFloatToFixConverter", "np_float": "NumpyFixToFloatConverter", "fp": "float_to_fp",
             "fix": "float_to_fix", "fp_float": "fp_to_float", "fix_float": "fix_to_float"}
    objs = ", ".join("%s %s" % (names[sp["kind"]], describe(sp["fmt"])) for sp in c["convs"])
    same_shape_again = False
    seen = set()
    for j, (cl, oc) in enumerate(zip(c["calls"], impl["calls"])):
        sp = c["convs"][cl["c"]]
        fmt, kind = sp["fmt"], sp["kind"]
        who = "%s %s (object %d of [%s], call %d of %d%s)" % (
            names[kind], describe(fmt), cl["c"] + 1, objs, j + 1, len(c["calls"]),
            "".join(", %s=%s" % (k, v) for k, v in (("params", sp.get("pk")), ("ctor-keywords", sp.get("kw")),
                                                    ("value-kind", cl.get("vk")), ("container", cl.get("cont")),
                                                    ("keyword-call", cl.get("kw")), ("numpy-errors", cl.get("es")),
                                                    ("same-object-as-call", cl.get("again"))) if v not in (None, False)))
        if "fault" in oc:
            ctx.tag("reuse_fault_%s_%s" % (cl["fault"], oc["fault"]))
            continue
        if oc.get("skipped"):
            ctx.tag("reuse_again_skipped")
            continue
        for k in ("vk", "cont"):
            if cl.get(k):
                ctx.tag("reuse_%s_%s" % (k, cl[k]))
        if cl.get("es"):
            ctx.tag("reuse_es_%s%s" % (cl["es"], "" if oc.get("es", cl["es"]) else "_not_applied"))
        if cl.get("kw"):
            ctx.tag("reuse_keyword_call")
        if "again" in cl:
            ctx.tag("reuse_same_object_again" + ("_edited" if cl.get("edit") else ""))
        if sp.get("pk"):
            ctx.tag("reuse_params_" + sp["pk"])
        if sp.get("kw"):
            ctx.tag("reuse_ctor_keywords")
        if oc.get("ctor_failed"):
            ctx.tag("reuse_ctor_" + oc["ret"][0]["err"] if oc["ret"] else "reuse_ctor_failed")
        tag_only = None
        if sp.get("pk") in NUMPY_PARAM:
            tag_only = "reuse_numpy_int_params_differ"      # numpy ints as n_bits / n_frac: not in the property text
        if cl.get("cont") in ("f32", "f16") and c.get("narrow_variant") != "float64":
            tag_only = "reuse_narrow_input_on_unfixed_code"
        if tag_only:
            ms = [canon_model_float(m) if kind in ("np_float", "fp_float", "fix_float") else m for m in oc["model"]]
            if any(a != m for a, m in zip(oc["ret"], ms) if m.get("ok") != "unspecified" and m.get("err") != "domain"):
                ctx.tag(tag_only)
            if oc.get("changed"):
                ctx.violation("array-result-overwritten", "%s: the returned array changed after %s" % (who, oc["changed"]), desc)
            continue
        inputs = oc.get("orig") if kind in ("np_fix", "fp", "fix") else oc.get("ks", cl.get("ks"))
        shown = [from_dy(p) for p in inputs] if kind in ("np_fix", "fp", "fix") else inputs
        floaty = kind in ("np_float", "fp_float", "fix_float")
        # correspondence and the Lean rule on what the call returned
        for i, (a, m) in enumerate(zip(oc["ret"], oc["model"])):
            if floaty:
                m = canon_model_float(m)
            if m.get("ok") == "unspecified" or m.get("err") == "domain":
                continue
            if a != m:
                if "err" in a and "ok" in m:
                    ctx.violation(exc_key(a), "%s raised %s for %r; the rule gives %r" % (
                        who, a["err"], shown[i], m["ok"]), desc)
                elif floaty and "ok" in a and "ok" in m:
                    ctx.violation("to-float-ne-scalar-sequence", "%s returned %r for %r; value * 2^-n_frac is %r" % (
                        who, a["ok"], shown[i], m["ok"]), desc)
                ctx.mismatch("c16.reuse." + kind, "%s input=%r impl=%r model=%r" % (who, shown[i], a, m), desc)
                break
        for jj, ok in enumerate(oc.get("oracle", [])):
            if not ok:
                i = oc["sel"][jj]
                ctx.violation("array-ne-scalar-sequence" if kind == "np_fix" else "scalar-ne-rule-sequence",
                              "%s returned %r for %r: violates the conversion rule; the model of float_to_fp gives %r" % (
                                  who, oc["ret"][i]["ok"], shown[i], oc["model"][i]), desc)
                break
        if kind == "np_float":
            for i, (a, sc) in enumerate(zip(oc["ret"], oc["scalar"])):
                if "ok" in a and "ok" in sc and a != sc:
                    ctx.violation("array-ne-scalar-sequence", "%s: element %r -> %r but fp_to_float gives %r" % (
                        who, shown[i], a["ok"], sc["ok"]), desc)
                    break
        if oc.get("meta") is False:
            ctx.violation("array-shape-dtype", "%s changed shape / dtype" % who, desc)
        if oc.get("call_err") and fmt["frac"] < 1024:
            a = oc["call_err"]
            ctx.violation(exc_key(a, "exception-on-valid-input"),
                          "%s raised %s for an input without elements; an empty array of the documented dtype is the "
                          "only result that agrees with the scalar converter" % (who, a["err"]), desc)
        if oc.get("input_modified"):
            ctx.violation("array-input-modified", "%s changed the caller's input: %s" % (who, oc["input_modified"]), desc)
        # the kept result must still be what was returned
        if oc.get("changed"):
            rule = ""
            if "oracle_now" in oc:
                bad = [i for i, ok in enumerate(oc["oracle_now"]) if not ok]
                rule = "; the Lean rule rejects %d of its %d elements now" % (len(bad), len(oc["oracle_now"]))
            ctx.violation("array-result-overwritten",
                          "%s returned %r for the input %r (scalar converter: %r); after %s the SAME returned array "
                          "holds %r%s%s" % (
                              who, [q.get("ok", q) for q in oc["ret"]], shown,
                              [q.get("ok", q) for q in oc.get("scalar", [])], oc["changed"],
                              [q.get("ok", q) for q in oc["now"]], rule,
                              "; it shares memory with " + ", ".join(oc["alias"]) if oc["alias"] else ""), desc)
        if oc.get("alias"):
            ctx.tag("reuse_result_aliases")
        key = (cl["c"], cl.get("cont"), len(inputs or []))
        if key in seen and kind in ("np_fix", "np_float"):
            same_shape_again = True
        seen.add(key)
        ctx.tag("reuse_" + kind)
    if same_shape_again:
        ctx.tag("reuse_same_shape_same_converter")
    if len(c["convs"]) > 1:
        ctx.tag("reuse_several_converters")
    if c.get("scale"):
        ctx.tag("scale_scalar_%s_bits_%d" % (c["convs"][0]["kind"], c["convs"][0]["fmt"]["bits"]))
    if c.get("twins"):
        ctx.tag("reuse_twins")
    if c.get("npscalar"):
        ctx.tag("npscalar_" + c["convs"][0]["kind"])
    ctx.case(desc, same_shape_again or len(c["convs"]) > 1)


# ---------------------------------------------------------------- scale: far beyond the usual sizes
SCALE_SIZES = [257, 65537, 2 * 65536 + 1, 10 ** 6]


def gen_scale_case(rng, size=None):
    """an array of 257 / 65,537 / 131,073 / 10^6 elements made of a small block of values repeated (rolled by an
    offset): the block is checked against the model, the large result against the block's result"""
    kind = rng.choice(["np_fix", "np_fix", "np_float"])
    sp = gen_reuse_spec(rng, kind)
    sp.pop("pk", None)
    fmt = sp["fmt"]
    c = {"kind": "scale", "conv": sp, "size": size or rng.choice(SCALE_SIZES), "roll": rng.randrange(0, 48),
         "layout": rng.choice(["1d", "col", "row", "2d", "f2d"])}
    if kind == "np_fix":
        c["vs"] = [to_dy(x) for x in gen_values(rng, fmt, 48)]
    else:
        ds, db = rng.choice(sorted(NP_DTYPE))
        c["dtype"] = [ds, db]
        c["ks"] = gen_ints_in(rng, {"signed": ds, "bits": db}, 48)
    return c


def gen_scale_scalar_case(rng):
    """formats far wider than any machine word and integers far beyond 2^64 for the scalar closures (a `reuse` case)"""
    bits = rng.choice([257, 1000, 4096, 65537, 100000])
    signed = rng.random() < 0.5
    frac = rng.choice([0, 3, bits - 1, bits // 2, -3, 1000, 1023])
    r = rng.random()
    if r < 0.6:
        sp = {"kind": "fp", "fmt": {"signed": signed, "bits": bits, "frac": frac}}
        xs = [math.ldexp(1.0, 1000), -math.ldexp(1.0, 1000), 0.75, -0.75, 1.7976931348623157e308, 5e-324, -3.5,
              math.ldexp(1.0, bits - frac - 1) if -1070 < bits - frac - 1 < 1023 else 1.0]
        xs = [x for x in xs if math.isfinite(x)]
        calls = [{"c": 0, "cont": "list", "vs": [to_dy(x) for x in xs]}]
    else:
        frac = rng.choice([0, 4, 1000, 1074, -10, -1000])
        sp = {"kind": "fp_float", "fmt": {"signed": signed, "bits": bits, "frac": frac}}
        ks = [2 ** 1023, 2 ** 1024, -(2 ** 1024), 2 ** 1024 - 2 ** 970, 2 ** 5000, 10 ** 400, -(10 ** 400), 2 ** 100 + 1,
              2 ** 64, 2 ** 63, 0]
        calls = [{"c": 0, "ks": ks}]
    return {"kind": "reuse", "convs": [sp], "calls": calls, "mutate_result": [], "mutate_input": [], "scale": True}


def impl_scale(case):
    import numpy as np
    from rig import type_casts as tc
    sp = case["conv"]
    fmt, kind = sp["fmt"], sp["kind"]
    out = {}
    with np.errstate(all="ignore"):
        if kind == "np_fix":
            mk = call(tc.NumpyFloatToFixConverter, fmt["signed"], fmt["bits"], fmt["frac"])
            block = np.array([from_dy(p) for p in case["vs"]], dtype=np.float64)
        else:
            mk = call(tc.NumpyFixToFloatConverter, fmt["frac"])
            block = np.array(case["ks"], dtype=getattr(np, NP_DTYPE[tuple(case["dtype"])]))
        if "err" in mk:
            out["block"] = [mk] * len(block)
            return out
        conv = mk["ok"]

        def canon(res):
            flat = np.asarray(res).reshape(-1).tolist()
            return [{"ok": int(v)} if kind == "np_fix" else {"ok": canon_float(v)} for v in flat]

        r = call_keep(out, "the block", conv, block)
        if "err" in r:
            out["block"] = [r] * len(block)
            return out
        bres = np.asarray(r["ok"])
        out["block"] = canon(bres)
        n = case["size"]
        big = np.resize(np.roll(block, case["roll"]), n)
        want = np.resize(np.roll(bres.reshape(-1), case["roll"]), n)
        lay = case["layout"]
        if lay == "col":
            big = big.reshape(n, 1)
        elif lay == "row":
            big = big.reshape(1, n)
        elif lay in ("2d", "f2d"):
            k = 257 if n % 257 == 0 else 1
            big = big.reshape(n // k, k)
            if lay == "f2d":
                big = np.asfortranarray(big)
        r = call_keep(out, "the %d-element array" % n, conv, big)
        if "err" in r:
            out["big"] = r
            return out
        res = np.asarray(r["ok"])
        out["meta"] = bool(res.shape == big.shape and res.dtype == bres.dtype)
        flat = res.reshape(-1)
        if flat.shape == want.shape:
            if kind == "np_fix":
                bad = np.nonzero(flat != want)[0]
            else:
                bad = np.nonzero(flat.view(np.uint64) != want.view(np.uint64))[0] if flat.dtype == np.float64 \
                    else np.arange(len(flat))
            if len(bad):
                i = int(bad[0])
                out["diff"] = {"index": i, "count": int(len(bad)), "input": canon_float(float(big.reshape(-1)[i]))
                               if kind == "np_fix" else int(big.reshape(-1)[i]),
                               "got": canon([flat[i]])[0], "want": canon([want[i]])[0]}
        else:
            out["meta"] = False
    return out


def eval_scale(ctx, cases):
    reqs, idx = [], []
    var = ctx.extra.get("code_variant") or detect_variant(ctx)
    for c in cases:
        c["impl"] = impl = impl_scale(c)
        fmt, kind = c["conv"]["fmt"], c["conv"]["kind"]
        if kind == "np_fix":
            reqs.append(fmt_req(fmt, "np_float_to_fix", vs=c["vs"], repaired=var.get("np") == "repaired"))
            idx.append((c, "model"))
            sel = [i for i, r in enumerate(impl["block"]) if "ok" in r]
            c["sel"] = sel
            reqs.append(fmt_req(fmt, "spec_fp", vs=[c["vs"][i] for i in sel], rs=[impl["block"][i]["ok"] for i in sel]))
            idx.append((c, "oracle"))
        else:
            reqs.append({"suite": "c16", "op": "np_fix_to_float", "frac": fmt["frac"], "ks": c["ks"]})
            idx.append((c, "model"))
    for (d, what), r in zip(idx, ctx.lean(reqs)):
        d[what] = r
    for c in cases:
        judge_scale(ctx, c)


def judge_scale(ctx, c):
    impl = c["impl"]
    fmt, kind = c["conv"]["fmt"], c["conv"]["kind"]
    desc = {k: c[k] for k in c if k in ("kind", "conv", "size", "roll", "layout", "vs", "ks", "dtype")}
    name = "NumpyFloatToFixConverter" if kind == "np_fix" else "NumpyFixToFloatConverter"
    who = "%s %s on %d elements (%s)" % (name, describe(fmt), c["size"], c["layout"])
    ctx.traces += 1
    inputs = c.get("vs") or c.get("ks")
    for i, (a, m) in enumerate(zip(impl["block"], c["model"])):
        if kind == "np_float":
            m = canon_model_float(m)
        if m.get("ok") == "unspecified" or m.get("err") == "domain":
            continue
        if a != m:
            if "err" in a and "ok" in m:
                ctx.violation(exc_key(a), "%s raised %s for %r; the rule gives %r" % (who, a["err"], inputs[i], m["ok"]), desc)
            ctx.mismatch("c16.scale", "%s input=%r impl=%r model=%r" % (who, inputs[i], a, m), desc)
            break
    for jj, ok in enumerate(c.get("oracle", [])):
        if not ok:
            i = c["sel"][jj]
            ctx.violation("array-rule", "%s: block element %r -> %r violates the conversion rule" % (
                who, from_dy(inputs[i]), impl["block"][i]["ok"]), desc)
            break
    if "big" in impl:
        a = impl["big"]
        if "ok" in impl["block"][0]:
            ctx.violation(exc_key(a), "%s raised %s although the same values convert as a %d-element array" % (
                who, a["err"], len(inputs)), desc)
    if impl.get("diff"):
        d = impl["diff"]
        ctx.violation("array-ne-scalar-large",
                      "%s: element %d (input %r) is %r, but the same value in a %d-element array (checked against the "
                      "Lean model and rule) converts to %r; %d elements differ" % (
                          who, d["index"], from_dy(d["input"]) if kind == "np_fix" else d["input"], d["got"].get("ok"),
                          len(inputs), d["want"].get("ok"), d["count"]), desc)
    if impl.get("meta") is False:
        ctx.violation("array-shape-dtype", "%s changed shape / dtype" % who, desc)
    if impl.get("input_modified"):
        ctx.violation("array-input-modified", "%s changed the caller's input: %s" % (who, impl["input_modified"][:300]), desc)
    ctx.tag("scale_%d" % c["size"])
    ctx.tag("scale_layout_" + c["layout"])
    ctx.tag("scale_" + kind)
    ctx.case(desc, True)


# ---------------------------------------------------------------- array SHAPE as a generator dimension
SHAPE_KINDS_BOTH = ["z1", "z2", "z3", "z2b", "zslice", "0d", "npscalar", "one", "one2", "vec", "m2", "m3", "nd7",
                    "strided", "rev", "T", "col", "fortran", "bcast", "ro", "ro_T"]
SHAPE_KINDS_FLOAT_ONLY = ["list", "tuple", "nested", "nested3", "elist", "etuple", "enested", "z_f32", "z_int",
                          "list1", "f32_m2", "f16_T"]


def shaped(np, vals, kind, dt):
    """the values (12 of them) presented in the shape / container `kind`"""
    a = np.array(vals, dtype=dt)
    if kind == "z1":
        return np.zeros((0,), dtype=dt)
    if kind == "z2":
        return np.zeros((0, 3), dtype=dt)
    if kind == "z3":
        return np.zeros((2, 0, 4), dtype=dt)
    if kind == "z2b":
        return np.zeros((3, 0), dtype=dt)
    if kind == "zslice":
        return a[5:5]
    if kind == "z_f32":
        return np.zeros((0, 2), dtype=np.float32)
    if kind == "z_int":
        return np.zeros((0,), dtype=np.int32)
    if kind == "0d":
        return np.array(vals[0], dtype=dt)
    if kind == "npscalar":
        return dt(vals[0])
    if kind == "one":
        return a[:1].copy()
    if kind == "one2":
        return a[:1].reshape(1, 1).copy()
    if kind == "vec":
        return a
    if kind == "m2":
        return a.reshape(3, 4)
    if kind == "m3":
        return a.reshape(2, 3, 2)
    if kind == "nd7":
        return a.reshape(1, 2, 1, 3, 1, 2, 1)
    if kind == "strided":
        b = np.zeros(24, dtype=dt)
        b[::2] = a
        return b[::2]
    if kind == "rev":
        return a[::-1]
    if kind == "T":
        return a.reshape(3, 4).T
    if kind == "col":
        return a.reshape(3, 4)[:, 1]
    if kind == "fortran":
        return np.asfortranarray(a.reshape(3, 4))
    if kind == "bcast":
        return np.broadcast_to(a[:3], (4, 3))
    if kind in ("ro", "ro_T"):
        b = a.reshape(3, 4).T if kind == "ro_T" else a
        b.flags.writeable = False
        return b
    if kind == "list":
        return [float(x) for x in vals]
    if kind == "list1":
        return [float(vals[0])]
    if kind == "tuple":
        return tuple(float(x) for x in vals)
    if kind == "nested":
        return [[float(x) for x in vals[:6]], [float(x) for x in vals[6:]]]
    if kind == "nested3":
        return [[[float(x)] for x in vals[:3]], [[float(x)] for x in vals[3:6]]]
    if kind == "elist":
        return []
    if kind == "etuple":
        return ()
    if kind == "enested":
        return [[], []]
    if kind == "f32_m2":
        return np.array(vals, dtype=np.float32).reshape(4, 3)
    if kind == "f16_T":
        return np.array(vals, dtype=np.float16).reshape(4, 3).T
    raise ValueError(kind)


def gen_shape_cases(rng, per_format):
    """every NumPy converter, both directions, every width and signedness x every shape kind"""
    cases = []
    for signed in (True, False):
        for bits in NP_BITS:
            for kind in SHAPE_KINDS_BOTH + SHAPE_KINDS_FLOAT_ONLY:
                for _ in range(per_format):
                    r = rng.random()
                    frac = 0 if r < 0.3 else rng.randrange(0, bits + 1) if r < 0.85 else rng.randrange(-6, bits + 6)
                    fmt = {"signed": signed, "bits": bits, "frac": frac}
                    xs = gen_values(rng, fmt, 12)
                    if kind in ("f32_m2", "f16_T"):
                        prec = "f32" if kind == "f32_m2" else "f16"
                        ys = [y for y in (to_narrow(x, prec) for x in xs) if y is not None] or [0.5]
                        xs = (ys * 12)[:12]
                    cases.append({"kind": "shape", "conv": "np_fix", "fmt": fmt, "shape_kind": kind,
                                  "vs": [to_dy(x) for x in xs]})
            for kind in SHAPE_KINDS_BOTH:
                for _ in range(per_format):
                    fmt = {"signed": signed, "bits": bits, "frac": rng.choice([0, rng.randrange(0, bits + 1),
                                                                              rng.randrange(-8, 70)])}
                    cases.append({"kind": "shape", "conv": "np_float", "fmt": fmt, "shape_kind": kind,
                                  "ks": gen_ints_in(rng, fmt, 12)})
    return cases


def impl_shape(case):
    import numpy as np
    from rig import type_casts as tc
    fmt, kind = case["fmt"], case["conv"]
    s, b, f = fmt["signed"], fmt["bits"], fmt["frac"]
    out = {}
    with np.errstate(all="ignore"):
        if kind == "np_fix":
            mk = call(tc.NumpyFloatToFixConverter, s, b, f)
            obj = shaped(np, [from_dy(p) for p in case["vs"]], case["shape_kind"], np.float64)
            want_dt = np.dtype(NP_DTYPE[(s, b)])
        else:
            mk = call(tc.NumpyFixToFloatConverter, f)
            obj = shaped(np, case["ks"], case["shape_kind"], getattr(np, NP_DTYPE[(s, b)]))
            want_dt = np.dtype(np.float64)
        flat = np.asarray(obj, dtype=np.float64 if kind == "np_fix" else None).reshape(-1).tolist()
        out["inputs"] = [to_dy(float(x)) for x in flat] if kind == "np_fix" else [int(x) for x in flat]
        out["in_shape"] = list(np.shape(obj))
        if "err" in mk:
            out["ctor"] = mk
            return out
        r = call_keep(out, "the call", mk["ok"], obj)
        if "err" in r:
            out["err"] = r
            return out
        res = r["ok"]
        out["shape"] = list(np.shape(res))
        out["dtype"] = str(np.asarray(res).dtype)
        out["meta"] = bool(np.shape(res) == np.shape(obj) and np.asarray(res).dtype == want_dt)
        vals = np.asarray(res).reshape(-1).tolist()
        out["ret"] = [{"ok": int(v)} if kind == "np_fix" else {"ok": canon_float(v)} for v in vals]
    return out


def eval_shape(ctx, cases):
    reqs, idx = [], []
    var = ctx.extra.get("code_variant") or detect_variant(ctx)
    for c in cases:
        c["impl"] = impl = impl_shape(c)
        fmt = c["fmt"]
        narrow = {"f32_m2": "f32", "f16_T": "f16", "z_f32": "f32"}.get(c["shape_kind"])
        if c["conv"] == "np_fix":
            # the format is legal when the model converts a probe value; the elements follow the probe
            vs = [[0, 0]] + impl["inputs"]
            if narrow and var.get("narrow") != "float64":
                reqs.append(fmt_req(fmt, "np_float_to_fix_narrow", vs=vs, repaired=var.get("np") == "repaired", prec=narrow))
            else:
                reqs.append(fmt_req(fmt, "np_float_to_fix", vs=vs, repaired=var.get("np") == "repaired"))
            idx.append((c, "model"))
            rs = [r["ok"] for r in impl.get("ret", [])]
            if len(rs) == len(impl["inputs"]):
                reqs.append(fmt_req(fmt, "spec_fp", vs=impl["inputs"], rs=rs))
                idx.append((c, "oracle"))
        else:
            reqs.append({"suite": "c16", "op": "np_fix_to_float", "frac": fmt["frac"], "ks": [0] + impl["inputs"]})
            idx.append((c, "model"))
    for (d, what), r in zip(idx, ctx.lean(reqs)):
        d[what] = r
    for c in cases:
        judge_shape(ctx, c)


def judge_shape(ctx, c):
    impl, fmt, kind = c["impl"], c["fmt"], c["conv"]
    desc = {k: c[k] for k in ("kind", "conv", "fmt", "shape_kind", "vs", "ks") if k in c}
    name = "NumpyFloatToFixConverter" if kind == "np_fix" else "NumpyFixToFloatConverter"
    who = "%s %s on an input of shape %r (%s)" % (name, describe(fmt), tuple(impl["in_shape"]), c["shape_kind"])
    ctx.traces += 1
    model = [canon_model_float(m) for m in c["model"]] if kind == "np_float" else c["model"]
    probe, model = model[0], model[1:]
    legal = "ok" in probe
    ctx.tag("shape_%s_%s" % (kind, c["shape_kind"]))
    ctx.tag("shape_%s_%s%d" % (kind, "S" if fmt["signed"] else "U", fmt["bits"]))
    if "ctor" in impl:
        if legal:
            ctx.mismatch("c16.shape", "%s: the constructor raised %s" % (who, impl["ctor"]["err"]), desc)
        ctx.case(desc, False)
        return
    if "err" in impl:
        a = impl["err"]
        if legal and all("ok" in m for m in model):
            ctx.violation(exc_key(a, "exception-on-valid-input"),
                          "%s raised %s; the input is legal (%d elements) and the scalar converter gives %r" % (
                              who, a["err"], len(model), [m["ok"] for m in model][:6]), desc)
        elif legal:
            ctx.tag("shape_exception_outside_domain")
        if not legal and probe.get("err") not in (a["err"], "domain"):
            ctx.mismatch("c16.shape", "%s raised %s, the model %r" % (who, a["err"], probe), desc)
        ctx.case(desc, len(model) == 0)
        return
    if not legal and probe.get("err") != "domain":
        ctx.mismatch("c16.shape", "%s returned a value, the model raises %r" % (who, probe), desc)
    if impl.get("meta") is False:
        ctx.violation("array-shape-dtype", "%s returned shape %r dtype %s" % (who, tuple(impl["shape"]), impl["dtype"]), desc)
    if impl.get("input_modified"):
        ctx.violation("array-input-modified", "%s changed the caller's input: %s" % (who, impl["input_modified"][:300]), desc)
    if len(impl["ret"]) != len(model):
        ctx.violation("array-shape-dtype", "%s returned %d elements for %d" % (who, len(impl["ret"]), len(model)), desc)
    else:
        for i, (a, m) in enumerate(zip(impl["ret"], model)):
            if m.get("ok") == "unspecified" or m.get("err") == "domain":
                continue
            if a != m:
                ctx.mismatch("c16.shape", "%s element %d input=%r impl=%r model=%r" % (who, i, impl["inputs"][i], a, m), desc)
                if kind == "np_float" and "ok" in m:
                    ctx.violation("array-ne-scalar-to-float", "%s: element %r -> %r, value * 2^-n_frac is %r" % (
                        who, impl["inputs"][i], a.get("ok"), m["ok"]), desc)
                break
        for i, ok in enumerate(c.get("oracle", [])):
            if not ok:
                ctx.violation("array-rule", "%s: element %r -> %r violates the conversion rule" % (
                    who, from_dy(impl["inputs"][i]), impl["ret"][i]["ok"]), desc)
                break
    ctx.case(desc, len(model) == 0 or len(impl["in_shape"]) != 1)


def eval_cases(ctx, cases):
    conv = [c for c in cases if c["kind"] == "conv"]
    inv = [c for c in cases if c["kind"] == "inv"]
    narrow = [c for c in cases if c["kind"] == "narrow"]
    seqs = [c for c in cases if c["kind"] == "seq"]
    reuse = [c for c in cases if c["kind"] == "reuse"]
    scale = [c for c in cases if c["kind"] == "scale"]
    shapes = [c for c in cases if c["kind"] == "shape"]
    for i in range(0, len(shapes), 1500):
        eval_shape(ctx, shapes[i:i + 1500])
    for i in range(0, len(conv), 1500):
        eval_conv(ctx, conv[i:i + 1500])
    for i in range(0, len(inv), 1500):
        eval_inv(ctx, inv[i:i + 1500])
    for i in range(0, len(narrow), 1500):
        eval_narrow(ctx, narrow[i:i + 1500])
    for i in range(0, len(seqs), 1500):
        eval_seq(ctx, seqs[i:i + 1500])
    for i in range(0, len(reuse), 1500):
        eval_reuse(ctx, reuse[i:i + 1500])
    for i in range(0, len(scale), 8):
        eval_scale(ctx, scale[i:i + 8])
        for c in scale[i:i + 8]:
            c.pop("impl", None)


FIXED = [
    # the 64-bit saturation region, both signs (DESIGN F9) and the 2^53 inverse limit (F10)
    {"kind": "conv", "fmt": {"signed": True, "bits": 64, "frac": 0}, "shape": 0,
     "vs": [to_dy(x) for x in (1e30, 2.0 ** 63, 2.0 ** 63 - 1024, 0.75, -1e30, -2.0 ** 63, -2.0 ** 63 - 2048, -0.75)]},
    {"kind": "conv", "fmt": {"signed": False, "bits": 64, "frac": 3}, "shape": 1,
     "vs": [to_dy(x) for x in (1e30, 2.0 ** 61, 2.0 ** 61 - 256, 1.0625, -1e30, -0.0625)]},
    {"kind": "conv", "fmt": {"signed": True, "bits": 8, "frac": 4}, "shape": 0,
     "vs": [to_dy(x) for x in (0.5, -0.5, 7.9375, 7.99, 8.0, -8.0, -8.06, -8.0625, 16.0, -17.0, 0.03, -0.03)]},
    {"kind": "inv", "fmt": {"signed": True, "bits": 64, "frac": 0}, "shape": 0,
     "ks": [2 ** 53 + 1, 2 ** 53, -(2 ** 53) - 1, 2 ** 63 - 1, -(2 ** 63), 2 ** 62 + 2 ** 10, 5]},
    {"kind": "inv", "fmt": {"signed": False, "bits": 64, "frac": 7}, "shape": 0,
     "ks": [2 ** 64 - 1, 2 ** 64 - 2048, 2 ** 53 + 1, 12345678901234567]},
    # float16 / float32 input arrays: the scale 2.0**n_frac is not a finite value of the input's dtype
    # one array object converted to several formats in a row (narrow integer format first), and read-only input
    {"kind": "seq", "container": "c64",
     "vs": [to_dy(x) for x in (-70000.0, -300.0, -128.0, -1.5, 0.0, 0.75, 1.5, 127.0, 300.0, 70000.0)],
     "steps": [{"fmt": {"signed": True, "bits": 8, "frac": 0}, "to_float": [0, 4]},
               {"fmt": {"signed": True, "bits": 16, "frac": 0}, "to_float": []},
               {"fmt": {"signed": True, "bits": 32, "frac": 0}, "to_float": [3]},
               {"fmt": {"signed": True, "bits": 16, "frac": 4}, "to_float": [4]}]},
    {"kind": "seq", "container": "ro_f2d",
     "vs": [to_dy(x) for x in (-3.0, 0.0, 200.0, 255.0, 256.0, 1.0e6)],
     "steps": [{"fmt": {"signed": False, "bits": 8, "frac": 0}, "to_float": []},
               {"fmt": {"signed": False, "bits": 16, "frac": 0}, "to_float": [0]},
               {"fmt": {"signed": False, "bits": 32, "frac": 3}, "to_float": [3, 0]}]},
    # NumPy scalars as values / words of the scalar closures (F23)
    {"kind": "reuse", "npscalar": True, "mutate_result": [], "mutate_input": [],
     "convs": [{"kind": "fp", "fmt": {"signed": True, "bits": 32, "frac": 16}},
               {"kind": "fp", "fmt": {"signed": True, "bits": 64, "frac": 40}},
               {"kind": "fix", "fmt": {"signed": True, "bits": 32, "frac": 16}},
               {"kind": "fix_float", "fmt": {"signed": True, "bits": 8, "frac": 4}},
               {"kind": "fix_float", "fmt": {"signed": True, "bits": 64, "frac": 0}}],
     "calls": [{"c": 0, "cont": "list", "vk": "npf16", "vs": [to_dy(x) for x in (0.5, -0.25, 100.0, 65504.0)]},
               {"c": 1, "cont": "list", "vk": "npf32", "vs": [to_dy(x) for x in (1.0000000150474662e+30, 0.75)]},
               {"c": 2, "cont": "list", "vk": "npf16", "vs": [to_dy(x) for x in (0.5, -0.5, 100.0)]},
               {"c": 3, "vk": "npu", "ks": [0xf8, 0x08, 0x80, 0xff]},
               {"c": 4, "vk": "npu64", "ks": [2 ** 63, 2 ** 64 - 1, 5]}]},
    # one converter object, same-shaped inputs, all results kept
    {"kind": "reuse", "convs": [{"kind": "np_fix", "fmt": {"signed": True, "bits": 32, "frac": 15}}],
     "calls": [{"c": 0, "cont": "c2d", "vs": [to_dy(x) for x in (0.5, -0.25, 3.75, 1e30, -1e30, 0.0)]},
               {"c": 0, "cont": "c2d", "vs": [to_dy(x) for x in (-1.5, 2.125, 0.0625, 7.0, -7.0, 100.0)]},
               {"c": 0, "cont": "c64", "vs": [to_dy(x) for x in (1.0, 2.0)]},
               {"c": 0, "cont": "c2d", "vs": [to_dy(x) for x in (9.0, 8.0, 7.0, 6.0, 5.0, 4.0)]}],
     "mutate_result": [], "mutate_input": [1]},
    {"kind": "reuse", "convs": [{"kind": "fp", "fmt": {"signed": False, "bits": 8, "frac": 0}},
                                {"kind": "fp", "fmt": {"signed": True, "bits": 9, "frac": 0}},
                                {"kind": "np_fix", "fmt": {"signed": True, "bits": 16, "frac": 0}},
                                {"kind": "fix", "fmt": {"signed": False, "bits": 15, "frac": 0}}],
     "calls": [{"c": 0, "cont": "list", "vs": [to_dy(x) for x in (-300.0, -1.0, 255.0, 300.0)]},
               {"c": 1, "cont": "list", "vs": [to_dy(x) for x in (-300.0, -1.0, 255.0, 300.0)]},
               {"c": 2, "cont": "c64", "vs": [to_dy(x) for x in (-40000.0, -1.0, 32767.0, 40000.0)]},
               {"c": 3, "cont": "list", "vs": [to_dy(x) for x in (-40000.0, -1.0, 32767.0, 40000.0)]}],
     "mutate_result": [2], "mutate_input": []},
    {"kind": "narrow", "prec": "f16", "fmt": {"signed": True, "bits": 32, "frac": 16}, "shape": 0,
     "vs": [to_dy(x) for x in (0.5, 0.0, -0.25, 1.0, 100.0, 0.333251953125, 65504.0)]},
    {"kind": "narrow", "prec": "f32", "fmt": {"signed": True, "bits": 32, "frac": 128}, "shape": 1,
     "vs": [to_dy(x) for x in (2.0 ** -149, 0.0, -(2.0 ** -149), 1.0, 2.0 ** -100, 3.0 * 2.0 ** -98)]},
    {"kind": "narrow", "prec": "f32", "fmt": {"signed": True, "bits": 32, "frac": 0}, "shape": 0,
     "vs": [to_dy(x) for x in (1.0000000150474662e+30, -1.0000000150474662e+30, 2147483520.0, 2147483648.0, 0.75, -0.75)]},
]


def run(ctx):
    ctx.extra["rule"] = RULE
    ctx.assumptions += [
        "inputs are finite IEEE binary floats (python float, float64 / float32 / float16 arrays); np.longdouble arrays, "
        "NaN and infinities are outside the claim",
        "CPython int->float and NumPy int64/uint64->float64 are IEEE round-to-nearest-even (the model's round53 is "
        "PROVED to be that rounding); scaling a binary float by a power of two is exact barring overflow/underflow; "
        "int() truncates; np.clip compares exactly; an out-of-range / NaN float->int cast is unspecified",
        "float32 / float16 arrays on code without fixes/c16-float32-arrays.diff: NumPy >= 2 promotion (python scalars "
        "take the array's dtype); an element counts as a violation only when its scaled value is finite in its own dtype",
        "formats: the array converter accepts widths 8/16/32/64 only; the deprecated converters accept "
        "0 <= n_frac <= n_bits - signed and n_int <= 1023 only (ValueError / OverflowError otherwise, modelled)",
    ]
    rng = ctx.rng
    n_conv = ctx.scale(2500, 62000)
    n_inv = ctx.scale(700, 8000)
    n_narrow = ctx.scale(800, 12000)
    n_seq = ctx.scale(700, 10000)
    n_reuse = ctx.scale(700, 10000)
    if ctx.extended:
        n_conv *= 4
        n_inv *= 4
        n_narrow *= 4
        n_seq *= 4
        n_reuse *= 4
    cases = [dict(c) for c in FIXED]
    cases += [gen_conv_case(rng) for _ in range(n_conv)]
    cases += [gen_inv_case(rng) for _ in range(n_inv)]
    cases += [gen_narrow_case(rng) for _ in range(n_narrow)]
    cases += [gen_seq_case(rng) for _ in range(n_seq)]
    cases += [gen_reuse_case(rng) for _ in range(n_reuse)]
    cases += [gen_scale_case(rng, size) for size in SCALE_SIZES] + [gen_scale_case(rng) for _ in range(ctx.scale(2, 36))]
    cases += [gen_scale_scalar_case(rng) for _ in range(ctx.scale(6, 60))]
    cases += [gen_npscalar_case(rng) for _ in range(ctx.scale(500, 8000))]
    cases += gen_shape_cases(rng, ctx.scale(1, 8))
    if not ctx.quick or ctx.extended:
        # all boundary neighbourhoods of every (signed, bits, frac)
        for signed in (True, False):
            for bits in list(range(1, 66)):
                for frac in range(-3, bits + 4):
                    cases.append(boundary_case({"signed": signed, "bits": bits, "frac": frac}))
    eval_cases(ctx, cases)
    ctx.extra["values_converted"] = sum(len(c.get("vs", c.get("ks", []))) * len(c.get("steps", [0])) for c in cases) + sum(
        len(cl.get("vs", cl.get("ks", []))) for c in cases for cl in c.get("calls", []))


def replay(ctx, payload):
    ctx.extra["rule"] = RULE
    eval_cases(ctx, [payload["case"]])
THEOREMS += ['gen_fp_to_float', 'gen_float_to_fp', 'gen_float_to_fp_all', 'bounds_eq', 'gen_np_init']   # translator tie: generated function bodies = model (Props/C16Gen.lean)
