"""C12 - flood-fill region list: correspondence of rig/machine_control/regions.py
with the Lean model RigModel/Model/C12.lean (exact list equality, tree state and
`add_core` return values included), and the Lean specification of a region word
(`selects`) run as oracle on the implementation's own output."""
import json
import os
import random

CLAIM = dict(
    text=("Machine-checked proof (Lean 4) over ALL target sets in the 256 x 256 x 18 core space and ALL insertion "
          "orders: the (region, core mask) list produced by compress_flood_fill_regions selects, under an "
          "independently written semantics of the region word (level in bits 17:16, base masked to the level, 16 block "
          "bits), every requested core of every requested chip exactly once and nothing else; the list is strictly "
          "increasing in (region, core mask), hence in (region << 32) | mask and (region << 18) | mask; a level-3 word "
          "from get_region_for_chip selects that chip only. For a tree constructed directly at any level (public class "
          "RegionCoreTree) every in-square insertion sequence keeps the invariant and the node's set plus the squares of "
          "the cores it reported full is exactly the inserted set (subtree_insert). For every history on ONE tree object - "
          "add_core calls interleaved with any number of read-outs get_regions_and_coremasks() at any points - every "
          "read-out selects exactly the cores added before it, each once, and the final tree is the tree built from the "
          "added cores (history_reads_exact, history_read_at); without any hypothesis: an add_core outside the range "
          "raises ValueError and leaves the tree as it was, the object stays usable and every read-out selects exactly "
          "the in-range cores added so far (history_faults_exact, history_read_at_any). The executable oracle the driver runs on the "
          "implementation's own output is proved to decide exactly these predicates for all inputs (exactB_iff, "
          "nodupB_iff, strictB_iff). The word semantics is proved identical to the one C09's machine model uses "
          "(c09_selects_agree) and the output is proved to meet the contract C09's load theorems assume of "
          "compress_flood_fill_regions (c09_regions_contract, c09_compressOK). Tied to rig/machine_control/regions.py by "
          "exact list equality (plus tree state, add_core return values and generator order) on generated target sets "
          "per run, with the proved oracle evaluated on the implementation's own pairs; state carried between calls is "
          "exercised by histories on one RegionCoreTree object (every read-out judged by the oracle against the cores "
          "added so far and compared with the model) and by sequences of compress_flood_fill_regions calls in one process "
          "on dictionaries / core sets the caller keeps and changes in place (every result judged against the targets as "
          "they are at that call; the caller's data must survive the call), by read-outs kept as generator objects and "
          "consumed lazily and alternately (several generators of one tree and of different trees, abandoned or drained, "
          "other trees changing meanwhile; a generator is modelled as the list the traversal gives for its tree as it is "
          "when the generator is created - which is what the unchanged code yields as long as that tree does not change "
          "while the generator is open: the generator reads nothing but its tree's base/level, locally_selected and "
          "subregions and a per-node local table; generators whose tree changed while open are not judged), and by the "
          "region lists the real MachineController.flood_fill_aplx / load_application send (FFCS packets of sequences of "
          "calls on one controller against a recording machine, decoded by the documented packet layout arg1 = command "
          "<< 24 | core mask, arg2 = region; load_application with 1-4 binaries per call, cores failing in any subset of "
          "the binaries and in any round, both verification modes, n_tries 1-3; every fill of every round judged against "
          "what must be selected for THAT binary in THAT round, computed without the controller's own arguments: the "
          "binary's targets as the caller gave them for a direct fill and the first round, and for a re-load round exactly "
          "that binary's cores that were not in the wait state on the simulated machine after the previous round; maps "
          "whose keys name ONE file in different ways - ./ in the path, a doubled slash, relative vs absolute, a symbolic "
          "link, a hard link, a copy with identical content - next to different binaries, on common or disjoint chips "
          "with disjoint cores: the unchanged controller floods once per map ENTRY and each fill is then judged against "
          "its own entry; an implementation that floods a file once for several entries is accepted and judged per "
          "file - all its fills of that image together against the union of the entries naming it; chips listed with an "
          "empty core set and chips named by equal-but-distinct key objects (tuple / namedtuple) occur in the compress, "
          "call-sequence and controller streams - the tree histories take plain ints only)."),
    design="3/C12",
    note=("Proved: everything above, about the Lean model and the Lean specification. Validated only (differential "
          "testing, every run): that the Lean model computes what regions.py computes. Trusted: that SC&MP reads a "
          "region word as documented. Insertion order (dict/set iteration) is an explicit input of the model and "
          "universally quantified in the theorems. Out-of-range coordinates/cores raise ValueError in code and model. "
          "regions.py has no public function besides get_region_for_chip, compress_flood_fill_regions and "
          "RegionCoreTree (__init__, add_core, get_regions_and_coremasks); all are modelled and compared."
          " Streams and what each validates (all verdicts from the Lean oracle / model comparison): [compress] single "
          "calls, 30% with other legal argument kinds (ints as bool / IntEnum / numpy.int64; core collections as set, "
          "frozenset, list, tuple, list with a repeated core, range, dict keys view, generator, one-shot iterator, mixed; "
          "dict / OrderedDict / defaultdict / dict subclass; tuple or namedtuple keys; keyword call) and malformed "
          "targets incl. +-2**31..2**100 (ValueError, model comparison only); [region] get_region_for_chip with level "
          "omitted / positional / keyword / all-keyword, int kinds, coordinates and levels beyond the machine up to "
          "2**100 (no range check in the code: model comparison only, the single-chip oracle only for chips < 256); "
          "[subtree], [history], [gens] RegionCoreTree(base_x, base_y, level) positional / keyword / partial keyword, "
          "instances of a subclass, keyword add_core, int kinds; histories go on after a failed add_core; [calls] one "
          "process, dictionaries and sets edited in place, twins (equal in all but one core / chip) in both orders, a "
          "failing request then repaired, the returned list edited in place, every returned list kept and re-read after "
          "every later call; [fills] the real controller: buffer size 64/128/256, both version-string styles, two "
          "sdram/vcpu bases, the same dictionary object passed again after in-place edits, a binary that cannot be opened "
          "and the controller used on, retries of load_application; [scale] every second chip of 64 x 64 (quick) and of "
          "the whole machine with two core sets / all 18 cores, the whole machine with two cores, a 4096-add history "
          "(thorough). Every SEQ case starts from re-executed rig modules (importlib.reload) so a replay reproduces; every "
          "implementation call runs under a CPU limit ~100x its normal time (did-not-return). Not applicable: byte "
          "strings, hashable identifiers, rig's own classes as arguments (the API takes ints and one dict); narrow numpy "
          "integer types (numpy.uint8 coordinates lose block bits in `1 << subregion`: not `int`s in the documented "
          "sense, reported); negative levels / levels > 3 as numpy ints (numpy shifts do not raise); recursion depth is "
          "fixed at 4 and nothing is counted in 8 or 16 bits besides the 16 block bits and 18 core bits, both exhausted; "
          "regions.py talks to nothing that can fail other than raising ValueError (covered); connection / machine "
          "faults under flood_fill_aplx belong to C07 / C09; regions.py has no configuration (the controller's is varied "
          "only to show the region list does not depend on it); app_start_delay stays 0.0 (a sleep)."),
    technique="Lean 4 theorems over a hand-written model + differential correspondence + Lean spec as oracle")

THEOREMS = ["region_word_selects", "single_chip", "add_inv", "insert_all", "compress_ok", "compress_err",
            "compress_exact", "exact_select_iff", "compress_sorted", "compress_keys", "chipsOf_spec",
            "exactB_iff", "nodupB_iff", "strictB_iff", "oracle_decides",
            "c09_selects_agree", "c09_selectsCore_agree", "c09_strictlyIncreasing_agree",
            "c09_regions_contract", "c09_compressOK", "subtree_insert", "emit_not_sorted", "history_reads_exact", "history_read_at", "history_faults_exact", "history_read_at_any"]
THEOREMS += ['gen_get_region_for_chip']   # translator tie: generated function bodies = model (Props/C12Gen.lean)

RULE = ("target sets built from shapes: sparse points (whole grid or a small window), aligned full blocks of side "
        "4/16/64 (and 256 in the thorough tier) for a random core set with 0-3 holes (a hole removes some or all cores "
        "of one chip), blocks shifted off their alignment so they straddle level boundaries, windows where "
        "neighbouring chips get different core sets, and unions of 2-4 such shapes; dictionary and set insertion "
        "order shuffled; a separate malformed stream (x, y = -1/256, p = -1/18) for the ValueError branch; "
        "get_region_for_chip on random and edge (x, y, level); trees constructed directly as RegionCoreTree(base_x, "
        "base_y, level) for every level, squares filled completely for some cores with the holes filled last (add_core "
        "returns True below the root), re-insertion after a mask was cleared, chips just outside the square, some "
        "unaligned bases; histories on one RegionCoreTree object: the adds of a generated target set (holes of a block "
        "last, so blocks fill up and merge between read-outs; re-adds) interleaved with read-outs of the empty tree, "
        "after the first add, at random points, twice in a row, around the last adds and at the end; sequences of "
        "2-12 compress_flood_fill_regions calls in one process on one or two dictionaries the caller keeps, with "
        "discard/add/clear on the chips' own set objects, deleted / new / re-bound chips and unchanged repeats between "
        "the calls; two or three trees (roots, sub-trees; neighbouring chips with different core sets so that a node "
        "holds several groups) whose read-outs stay generator objects: opened, advanced alternately by 1-5 pairs, "
        "drained, abandoned, other trees growing meanwhile; one MachineController on a recording machine (chips in a "
        "window, scattered over level boundaries, or a full 4 x 4 block): 2-6 steps flood_fill_aplx(path, targets) / "
        "flood_fill_aplx({path: targets, ...} of 2-4 binaries) / load_application of 1-4 binaries with pairwise disjoint "
        "cores in random dictionary order, count or per-core verification, n_tries 1-3, with up to 16 fills of the "
        "sequence losing none, a few, half or nearly all chips (so any subset of the binaries is re-loaded, up to a "
        "third round), entries naming one file under different spellings / links / a copy (\"<file>:<spelling>\"), "
        "chips with empty core sets, namedtuple chip keys, the next "
        "request for a binary being the same chips with other cores, a part, a superset, the same again, or fresh, "
        "the same or another binary, the same dictionary object edited in place, a binary that cannot be opened; "
        "options drawn per case: argument kinds (ints, core collections, dictionary and key types), calling conventions, "
        "constructor forms, subclass instances, failing calls followed by further use, twins in both orders, edits of "
        "returned lists, controller configuration; a handful of cases far beyond the usual size; replays carry the "
        "whole history and start from reloaded rig modules. A case is non-trivial when the output contains a "
        "region word of level < 3 (at least one collapse of sixteen children) or >= 2 pairs, for a directly constructed "
        "tree when some add_core returned True, for a history when an add lies between two read-outs, for a call "
        "sequence when a dictionary is passed again after an in-place change of a core set, for lazy read-outs when a "
        "generator is resumed after another one ran, for a controller sequence when it sent >= 2 flood fills; distinct = distinct canonical case JSON")

CORE_SETS = [[0], [1], [17], [0, 1], [1, 2, 3], [0, 17], list(range(1, 17)), list(range(18)),
             [5, 6, 7, 8], [2], [16, 17]]


# ---------------------------------------------------------------- generators
def rand_cores(rng):
    r = rng.random()
    if r < 0.55:
        return list(rng.choice(CORE_SETS))
    k = rng.choice([1, 1, 2, 3, 5, 9, 17, 18])
    return sorted(rng.sample(range(18), k))


def shape_block(rng, side, aligned):
    n = 256 // side
    x0, y0 = rng.randrange(n) * side, rng.randrange(n) * side
    if rng.random() < 0.3:
        x0 = rng.choice([0, 256 - side])
    if rng.random() < 0.3:
        y0 = rng.choice([0, 256 - side])
    if not aligned:
        off = rng.choice([1, 2, 3, side // 2, side - 1]) if side > 1 else 1
        x0 = min(max(0, x0 + rng.choice([-off, off, 0])), 256 - side)
        y0 = min(max(0, y0 + rng.choice([-off, off])), 256 - side)
    cores = rand_cores(rng)
    if side >= 8 and len(cores) > 3 and rng.random() < 0.85:
        cores = sorted(rng.sample(cores, rng.choice([1, 2, 3])))
    if side >= 64 and len(cores) > 2:
        cores = cores[:rng.choice([1, 2])]
    shapes = [["rect", x0, y0, side, side, cores]]
    for _ in range(rng.choice([0, 0, 1, 1, 2, 3])):
        hx, hy = x0 + rng.randrange(side), y0 + rng.randrange(side)
        r = rng.random()
        if r < 0.4:
            hc = cores                      # whole chip missing
        elif r < 0.8:
            hc = [rng.choice(cores)]        # block full only for the other cores
        else:
            hc = rng.sample(cores, max(1, len(cores) // 2))
        shapes.append(["hole", hx, hy, sorted(hc)])
    if rng.random() < 0.25:                 # one more core on a few chips of the block
        for _ in range(rng.choice([1, 2, 16])):
            shapes.append(["pt", x0 + rng.randrange(side), y0 + rng.randrange(side), rng.randrange(18)])
    return shapes


def shape_sparse(rng):
    n = rng.choice([1, 2, 3, 5, 8, 13, 25, 40])
    if rng.random() < 0.5:
        wx = wy = 256
        bx = by = 0
    else:
        wx, wy = rng.choice([2, 4, 5, 8, 17]), rng.choice([2, 4, 5, 8, 17])
        bx, by = rng.randrange(257 - wx), rng.randrange(257 - wy)
        if rng.random() < 0.3:
            bx, by = rng.choice([0, 62, 126, 254 - wx, 256 - wx]), rng.choice([0, 14, 62, 256 - wy])
    return [["pt", bx + rng.randrange(wx), by + rng.randrange(wy),
             rng.choice([0, 1, 17, rng.randrange(18)])] for _ in range(n)]


def shape_neigh(rng):
    w, h = rng.choice([2, 4, 5, 8]), rng.choice([2, 4, 5, 8])
    bx, by = rng.randrange(257 - w), rng.randrange(257 - h)
    if rng.random() < 0.5:
        bx, by = bx // 4 * 4, by // 4 * 4
    pats = [rand_cores(rng) for _ in range(rng.choice([2, 3]))]
    return [["rect", bx + i, by + j, 1, 1, rng.choice(pats)] for i in range(w) for j in range(h)
            if rng.random() < 0.9]


def gen_case(rng, tier_big):
    def one():
        r = rng.random()
        if r < 0.22:
            return shape_sparse(rng)
        if r < 0.45:
            return shape_block(rng, 4, True)
        if r < 0.60:
            return shape_block(rng, 16, True)
        if r < 0.61 or (tier_big and r < 0.64):
            return shape_block(rng, 64, True)
        if tier_big and r < 0.641:
            return shape_block(rng, 256, True)
        if r < 0.80:
            return shape_block(rng, rng.choice([4, 4, 8, 16, 20]), False)
        return shape_neigh(rng)
    shapes = one()
    if rng.random() < 0.35:
        for _ in range(rng.choice([1, 1, 2, 3])):
            shapes = shapes + one()
    c = {"kind": "compress", "shapes": shapes, "order": rng.randrange(1 << 30)}
    if rng.random() < 0.3:
        c["args"] = gen_args(rng)       # other legal kinds of ints / collections / dictionaries, keyword call
    if rng.random() < 0.15:
        pts = [sh for sh in shapes if sh[0] in ("rect", "pt")]
        c["empties"] = []
        for _ in range(rng.choice([1, 2, 5, 16])):
            if pts and rng.random() < 0.7:      # next to / inside what is requested
                sh = rng.choice(pts)
                x, y = sh[1] + rng.choice([-1, 0, 1, 3]), sh[2] + rng.choice([-1, 0, 1, 3])
            else:
                x, y = rng.randrange(256), rng.randrange(256)
            if 0 <= x < 256 and 0 <= y < 256:
                c["empties"].append([x, y])
    return c


BIG = [2 ** 31, 2 ** 32, 2 ** 53 + 1, 2 ** 63, 2 ** 64, 2 ** 100]


def gen_malformed(rng):
    c = gen_case(rng, False)
    bad = rng.choice([[-1, 3, 2], [256, 0, 0], [3, -1, 1], [0, 256, 17], [4, 4, 18], [4, 4, -1],
                      [300, 300, 30], [255, 255, 18], [256, 256, 0]])
    if rng.random() < 0.25:
        bad = [3, 4, 5]
        bad[rng.randrange(3)] = rng.choice(BIG + [-v for v in BIG])
    c["shapes"] = c["shapes"][:rng.randrange(1, 4)] + [["pt"] + bad]
    if rng.random() < 0.3:
        c["shapes"] = [["pt"] + bad]
    return c


def gen_subtree(rng):
    """a tree constructed directly as RegionCoreTree(base_x, base_y, level) (public class): explicit insertion
    list; squares filled completely for some cores (add_core returns True below the root and clears the mask),
    holes filled last, sparse points, now and then a chip just outside the square (ValueError of a non-root node)
    or an unaligned base (correspondence only)."""
    level = rng.choice([0, 1, 2, 2, 3, 3, 3])
    scale = 4 ** (4 - level)
    bx, by = rng.randrange(256 // scale) * scale, rng.randrange(256 // scale) * scale
    if level and rng.random() < 0.12:
        bx, by = bx + rng.choice([1, 2, 3, scale // 2]), by + rng.choice([0, 1, scale - 1])
        bx, by = min(bx, 255), min(by, 255)
    pts = []
    r = rng.random()
    full_side = scale if (level >= 2 or (level == 1 and r < 0.25)) else scale // 4
    if r < 0.75:
        cores = rand_cores(rng)[:rng.choice([1, 1, 2, 3]) if full_side <= 16 else 1]
        ox, oy = bx + rng.randrange(scale // full_side) * full_side, by + rng.randrange(scale // full_side) * full_side
        block = [[x, y, p] for x in range(ox, ox + full_side) for y in range(oy, oy + full_side) for p in cores]
        rng.shuffle(block)
        k = rng.choice([0, 0, 1, 2, 5])
        held, block = block[:k], block[k:]
        pts += block
        if rng.random() < 0.7:
            pts += held                     # the holes are filled last: the node becomes full now
        if rng.random() < 0.5 and pts:
            pts += [list(rng.choice(pts)) for _ in range(3)]      # again after the mask was cleared
    for _ in range(rng.choice([0, 1, 3, 8])):
        pts.append([bx + rng.randrange(scale), by + rng.randrange(scale), rng.randrange(18)])
    if rng.random() < 0.15:
        bad = rng.choice([[bx - 1, by, 0], [bx + scale, by, 1], [bx, by + scale, 2], [bx, by - 1, 17],
                          [bx, by, 18], [bx, by, -1], [bx + scale - 1, by + scale, 3]])
        pts.insert(rng.randrange(len(pts) + 1), bad)
    c = {"kind": "subtree", "x": bx, "y": by, "level": level, "points": pts}
    if rng.random() < 0.4:
        c["opts"] = {"ctor": rng.choice(["pos", "kw", "partial"]), "sub": rng.random() < 0.4,
                     "ints": rng.choice(INT_KINDS), "conv": rng.choice(["pos", "kw"])}
    return c


def build_targets(case):
    """shapes -> {(x, y): set(cores)} with shuffled insertion order; a shrunk
    case lists its points explicitly, in insertion order."""
    if "points" in case:
        targets = {}
        for x, y, p in case["points"]:
            targets.setdefault((x, y), set()).add(p)
        return targets
    acc = {}
    for s in case["shapes"]:
        if s[0] == "rect":
            _, x0, y0, w, h, cores = s
            for x in range(x0, x0 + w):
                for y in range(y0, y0 + h):
                    acc.setdefault((x, y), set()).update(cores)
        elif s[0] == "checker":
            _, x0, y0, w, h, even, odd = s
            for x in range(x0, x0 + w):
                for y in range(y0, y0 + h):
                    cs = odd if (x + y) % 2 else even
                    if cs:
                        acc.setdefault((x, y), set()).update(cs)
        elif s[0] == "hole":
            _, x, y, cores = s
            if (x, y) in acc:
                acc[(x, y)] -= set(cores)
        else:
            _, x, y, p = s
            acc.setdefault((x, y), set()).add(p)
    r = random.Random(case["order"])
    keys = sorted(k for k in acc if acc[k])
    # chips listed with an EMPTY core set: nothing of them may be selected
    keys += [tuple(e) for e in case.get("empties", []) if tuple(e) not in acc or not acc[tuple(e)]]
    r.shuffle(keys)
    targets = {}
    for k in keys:
        cs = sorted(acc.get(k, ()))
        r.shuffle(cs)
        targets[k] = set()
        for p in cs:
            targets[k].add(p)
    return targets


# ---------------------------------------------------------------- implementation side
def dump_tree(t):
    return {"x": int(t.base_x), "y": int(t.base_y), "level": int(t.level), "ls": [int(v) for v in t.locally_selected],
            "subs": [None if s is None else dump_tree(s) for s in getattr(t, "subregions", [])]}


# ---- one call of the implementation: CPU limit, exceptions -> protocol
_HANGS = [0]


def guard(f, n=0):
    """run `f` (one call, or one history of calls, of the implementation on about `n` cores) under a CPU limit of
    ~100x its normal time (3 s + 0.3 ms per core; 0.5 s + 0.1 ms per core once 3 calls of this process did not
    return).  Every function of the model is total (Lean), so a call that does not return is a finding."""
    from harness import common
    lim = (3 + 0.0003 * n) if _HANGS[0] < 3 else (0.5 + 0.0001 * n)
    try:
        with common.cpu_limit(lim):
            return f()
    except common.ImplHang as e:
        _HANGS[0] += 1
        return {"err": "DidNotReturn", "where": str(e)[:160]}
    except ValueError:
        return {"err": "ValueError"}
    except (ImportError, SyntaxError):
        raise
    except Exception as e:  # noqa
        return {"err": "Other " + type(e).__name__}


# ---- argument kinds and calling conventions (all of them legal for the documented API)
INT_KINDS = ("int", "bool", "enum", "numpy")
CORE_KINDS = ("set", "frozenset", "list", "tuple", "duplist", "range", "keys", "gen", "iter", "mixed")
DICT_KINDS = ("dict", "ordered", "default", "subclass")
KEY_KINDS = ("tuple", "namedtuple", "mixed")
_ENUM = {}


def conv_int(v, kind):
    """the integer `v` as another kind of Python integer (bool only for 0/1; numpy only the default integer type:
    the narrow numpy types have wrap-around shifts and are not `int`s in the documented sense)"""
    if kind == "bool" and v in (0, 1):
        return bool(v)
    if kind == "enum":
        if v not in _ENUM:
            import enum
            _ENUM[v] = enum.IntEnum("E%s" % str(v).replace("-", "m"), {"member": v}).member
        return _ENUM[v]
    if kind == "numpy" and -2 ** 62 < v < 2 ** 62:
        import numpy
        return numpy.int64(v)
    return v


def gen_args(rng):
    return {"ints": rng.choice(INT_KINDS), "cores": rng.choice(CORE_KINDS), "dict": rng.choice(DICT_KINDS),
            "key": rng.choice(KEY_KINDS), "conv": rng.choice(["pos", "kw"])}


def dress(targets, args):
    """the targets {(x, y): set(cores)} as the kinds of objects named by `args`; -> (object to pass, the (x, y, p)
    sequence in the order the implementation will iterate it, as plain ints)"""
    import collections
    ik = args.get("ints", "int")
    Chip = collections.namedtuple("Chip", "x y")
    dk = args.get("dict", "dict")

    class TargetsDict(dict):
        pass
    obj = {"dict": dict, "ordered": collections.OrderedDict, "default": lambda: collections.defaultdict(set),
           "subclass": TargetsDict}[dk]()
    order = []
    kinds = [k for k in CORE_KINDS if k != "mixed"]
    for i, ((x, y), cs) in enumerate(targets.items()):
        key = (conv_int(x, ik), conv_int(y, ik))
        if args.get("key") == "namedtuple" or (args.get("key") == "mixed" and i % 2):
            key = Chip(*key)
        lst = [conv_int(p, ik) for p in cs]
        ck = args.get("cores", "set")
        if ck == "mixed":
            ck = kinds[i % len(kinds)]
        if ck == "range" and lst and sorted(int(p) for p in lst) == list(range(min(int(p) for p in lst),
                                                                            max(int(p) for p in lst) + 1)):
            val = range(min(int(p) for p in lst), max(int(p) for p in lst) + 1)
            seq = list(val)
        elif ck == "set":
            val = set()
            for p in lst:
                val.add(p)
            seq = list(val)
        elif ck == "frozenset":
            val = frozenset(lst)
            seq = list(val)
        elif ck == "tuple":
            val = seq = tuple(lst)
        elif ck == "duplist":
            val = seq = lst + lst[:1]
        elif ck == "keys":
            val = dict.fromkeys(lst).keys()
            seq = list(val)
        elif ck == "gen":
            seq = list(lst)
            val = (p for p in seq)          # one shot: the implementation may iterate it once
        elif ck == "iter":
            seq = list(lst)
            val = iter(seq)
        else:
            val = seq = list(lst)
        obj[key] = val
        if args.get("key") == "mixed" and i % 3 == 0:
            # the chip once more under an equal-but-distinct key object: still ONE entry of the dictionary
            other = (key[0], key[1]) if isinstance(key, Chip) else Chip(*key)
            obj[other] = val
        order += [[int(x), int(y), int(p)] for p in seq]
    return obj, order


def impl_compress(targets, args=None, n=None):
    from rig.machine_control import regions
    n = 18 * len(targets) if n is None else n

    def run():
        if args and args.get("conv") == "kw":
            out = regions.compress_flood_fill_regions(targets=targets)
        else:
            out = regions.compress_flood_fill_regions(targets)
        return {"ok": [[int(r), int(m)] for (r, m) in out]}
    return guard(run, n)


def new_tree(regions, bx, by, level, ctor="pos", sub=False, ik="int"):
    """RegionCoreTree(base_x, base_y, level) in the calling conventions the signature allows; `sub`: an instance of
    a subclass (children stay plain RegionCoreTree nodes)"""
    cls = regions.RegionCoreTree
    if sub:
        class Tree(regions.RegionCoreTree):
            note = "a caller's subclass"
        cls = Tree
    bx, by, level = conv_int(bx, ik), conv_int(by, ik), conv_int(level, ik)
    if ctor == "kw":
        return cls(level=level, base_y=by, base_x=bx)
    if ctor == "partial":
        kw = {k: v for k, v in (("base_x", bx), ("base_y", by), ("level", level)) if v != 0}
        return cls(**kw)
    return cls(bx, by, level)


def add_core(t, x, y, p, conv="pos", ik="int"):
    x, y, p = conv_int(x, ik), conv_int(y, ik), conv_int(p, ik)
    return t.add_core(p=p, x=x, y=y) if conv == "kw" else t.add_core(x, y, p)


def impl_tree(order, args=None):
    from rig.machine_control import regions
    args = args or {}

    def run():
        t = new_tree(regions, 0, 0, 0, "partial" if args.get("conv") == "kw" else "pos")
        rets = []
        for (x, y, p) in order:
            rets.append(bool(add_core(t, x, y, p, args.get("conv", "pos"), args.get("ints", "int"))))
        return {"ok": {"tree": dump_tree(t), "returns": rets,
                       "yield": [[int(r), int(m)] for (r, m) in t.get_regions_and_coremasks()]}}
    return guard(run, len(order))


def impl_subtree(bx, by, level, order, opts=None):
    from rig.machine_control import regions
    opts = opts or {}

    def run():
        t = new_tree(regions, bx, by, level, opts.get("ctor", "pos"), opts.get("sub", False), opts.get("ints", "int"))
        rets = []
        for (x, y, p) in order:
            rets.append(bool(add_core(t, x, y, p, opts.get("conv", "pos"), opts.get("ints", "int"))))
        return {"ok": {"tree": dump_tree(t), "returns": rets,
                       "yield": [[int(r), int(m)] for (r, m) in t.get_regions_and_coremasks()]}}
    return guard(run, len(order))


def impl_region(x, y, level, conv="pos", ik="int"):
    from rig.machine_control import regions

    if ik == "numpy" and not (0 <= level <= 3 and max(x, y) < 2 ** 31):
        ik = "int"      # numpy shifts by a negative count do not raise: only the documented levels as numpy ints

    def run():
        a, b, l = conv_int(x, ik), conv_int(y, ik), conv_int(level, ik)
        if conv == "default" and level == 3:
            r = regions.get_region_for_chip(a, b)
        elif conv == "kw":
            r = regions.get_region_for_chip(a, b, level=l)
        elif conv == "allkw":
            r = regions.get_region_for_chip(level=l, y=b, x=a)
        else:
            r = regions.get_region_for_chip(a, b, l)
        return {"ok": int(r)}
    return guard(run)


TREE_LIMIT = 2000


def queries(c, order):
    """points at which the literal Lean specification `countSel` is evaluated: a sample of the targets
    (expected 1) and of non-targets next to them, on the same chips with other cores, mirrored and far
    away (expected 0); deterministic in the case."""
    r = random.Random(len(order) * 7919 + c.get("order", 0))
    tset = {tuple(t) for t in order}
    sample = order if len(order) <= 120 else r.sample(order, 120)
    qs = [[x, y, p, 1] for x, y, p in sample]
    cand = set()
    for x, y, p in sample[:60]:
        for dx, dy in ((1, 0), (-1, 0), (0, 1), (0, -1), (4, 0), (0, 16)):
            cand.add((x + dx, y + dy, p))
        cand.add((x, y, (p + 1) % 18))
        cand.add((x, y, r.randrange(32)))
        cand.add((y, x, p))
        cand.add((255 - x, 255 - y, p))
    for _ in range(20):
        cand.add((r.randrange(256), r.randrange(256), r.randrange(18)))
    qs += [[x, y, p, 0] for x, y, p in sorted(cand) if (x, y, p) not in tset and 0 <= x < 256 and 0 <= y < 256]
    return qs


def judge(ctx, points_list, args=None):
    """oracle verdict keys for several explicit point lists (one driver call), passed in the argument kinds `args`."""
    reqs, outs = [], []
    for pts in points_list:
        targets = build_targets({"points": pts})
        if args:
            targets, order = dress(targets, args)
        else:
            order = [[x, y, p] for (x, y), cs in targets.items() for p in cs]
        r = impl_compress(targets, args, len(order))
        outs.append(r)
        if "ok" in r:
            tg = [list(t) for t in sorted({tuple(t) for t in order})]
            reqs.append({"suite": "c12", "op": "oracle", "targets": tg, "out": r["ok"], "queries": queries({}, tg)})
    reps = iter(ctx.lean(reqs))
    keys = []
    for r in outs:
        if "ok" not in r:
            keys.append({"did-not-return" if r["err"] == "DidNotReturn" else "exception-on-valid-targets"})
        else:
            o = next(reps)
            if not o["nodup"]:
                raise RuntimeError("harness error: the oracle was given a target list with repetitions")
            keys.append({k for k, bad in (("not-exact", not o["exact"] or bool(o["bad"])),
                                          ("not-increasing", not o["sorted"])) if bad})
    return keys


def shrink(ctx, case, key):
    """greedy delta debugging on the explicit point list, keeping the same finding key."""
    targets = build_targets(case)
    args = case.get("args")
    pts = [[x, y, p] for (x, y), cs in targets.items() for p in cs]
    if key not in judge(ctx, [pts], args)[0]:
        return case
    n, rounds = 2, 0
    while len(pts) >= 2 and rounds < 250:
        rounds += 1
        size = max(1, len(pts) // n)
        cands = [pts[:i] + pts[i + size:] for i in range(0, len(pts), size)]
        cands = [c for c in cands if c][:64]
        verdicts = judge(ctx, cands, args)
        hit = [c for c, v in zip(cands, verdicts) if key in v]
        if hit:
            pts = min(hit, key=len)
            n = max(n - 1, 2)
        elif size == 1:
            break
        else:
            n = min(len(pts), n * 2)
    return dict({"kind": "compress", "points": pts}, **({"args": args} if args else {}))


# ---------------------------------------------------------------- state carried between calls
# (1) histories on ONE RegionCoreTree object: add_core interleaved with read-outs
# (2) sequences of compress_flood_fill_regions calls on dictionaries the caller keeps and changes in place

def small_points(rng, limit):
    """explicit insertion list of a generated target set of at most `limit` cores, and its shapes"""
    for _ in range(30):
        base = gen_case(rng, False)
        tg = build_targets(base)
        pts = [[x, y, p] for (x, y), cs in tg.items() for p in cs]
        if 0 < len(pts) <= limit:
            return pts, base["shapes"]
    return [[rng.randrange(256), rng.randrange(256), rng.randrange(18)] for _ in range(10)], []


def gen_history(rng):
    """one tree object: `[x, y, p]` = add_core(x, y, p), `[]` = list(get_regions_and_coremasks()).  Reads of the
    empty tree, after the first add, at random points, twice in a row, just before and after a block fills up and
    merges into its parent (the holes of a block are added last), at the end; re-adding; mostly the root
    (every read-out judged by the oracle), some directly constructed sub-trees (compared with the model)."""
    bx = by = level = 0
    if rng.random() < 0.12:
        st = gen_subtree(rng)
        bx, by, level, pts = st["x"], st["y"], st["level"], st["points"][:700]
    else:
        pts, shapes = small_points(rng, 700)
        late = []
        if rng.random() < 0.6:
            late = [[s[1], s[2], p] for s in shapes if s[0] == "hole" for p in s[3]]
        if rng.random() < 0.5:
            rng.shuffle(pts)
        pts = pts + late
        if rng.random() < 0.3:
            pts += [list(rng.choice(pts)) for _ in range(rng.choice([1, 3]))]
        if rng.random() < 0.2:      # calls that fail; the object is used on
            for _ in range(rng.choice([1, 1, 2, 4])):
                bad = rng.choice([[256, 0, 0], [0, -1, 1], [3, 3, 18], [0, 256, 17], [2 ** 64, 1, 1], [1, 1, -2 ** 31],
                                  [1, 2 ** 100, 0]])
                pts.insert(rng.randrange(len(pts) + 1), bad)
    n = len(pts)
    p_read = min(0.6, rng.choice([2, 4, 8, 12]) / (n + 1.0))
    ops = []
    if rng.random() < 0.3:
        ops.append([])
    for i, a in enumerate(pts):
        ops.append(list(a))
        if i == 0 and rng.random() < 0.5 or rng.random() < p_read or (i >= n - 2 and rng.random() < 0.5):
            ops.append([])
            if rng.random() < 0.25:
                ops.append([])
    if rng.random() < 0.9:
        ops.append([])
    c = {"kind": "history", "x": bx, "y": by, "level": level, "ops": ops}
    if rng.random() < 0.3:
        c["opts"] = {"ctor": rng.choice(["pos", "kw", "partial"]), "sub": rng.random() < 0.4,
                     "ints": rng.choice(INT_KINDS), "conv": rng.choice(["pos", "kw"])}
    return c


def reload_rig(controller=False):
    """a history starts from freshly executed modules: module-level / class-level / default-argument state left by
    earlier cases of this process cannot leak in, so a replay (a new process) sees what the run saw"""
    import importlib
    from rig.machine_control import regions
    importlib.reload(regions)
    if controller:
        from rig.machine_control import machine_controller
        importlib.reload(machine_controller)


def on_grid(bx, by, level):
    sc = 4 ** (4 - level) if 0 <= level <= 3 else 1
    return bx % sc == 0 and by % sc == 0


def impl_history(bx, by, level, ops, opts=None):
    """-> {"ok": {"results": [...], "tree": ...}}: add_core -> its return value, or "ValueError" when it raised (the
    caller goes on using the object; for a node that is not on its grid - outside the documented use - the history
    stops there and the tree is not compared: a child may have been created before the range check of the child
    failed); read-out -> the list of pairs"""
    from rig.machine_control import regions
    opts = opts or {}
    go_on = on_grid(bx, by, level)

    def run():
        t = new_tree(regions, bx, by, level, opts.get("ctor", "pos"), opts.get("sub", False), opts.get("ints", "int"))
        res = []
        for op in ops:
            if op:
                try:
                    res.append(bool(add_core(t, op[0], op[1], op[2], opts.get("conv", "pos"), opts.get("ints", "int"))))
                except ValueError:
                    res.append("ValueError")
                    if not go_on:
                        return {"ok": {"results": res, "tree": None}}
            else:
                res.append([[int(r), int(m)] for (r, m) in t.get_regions_and_coremasks()])
        return {"ok": {"tree": dump_tree(t), "results": res}}
    return guard(run, len(ops))


def in_range(x, y, p):
    return 0 <= x < 256 and 0 <= y < 256 and 0 <= p < 18


def prepare_history(c, reqs, idx):
    reload_rig()
    c["impl"] = impl_history(c["x"], c["y"], c["level"], c["ops"], c.get("opts"))
    ops = c["ops"]
    if "ok" in c["impl"]:
        ops = ops[:len(c["impl"]["ok"]["results"])]
    reqs.append({"suite": "c12", "op": "history", "x": c["x"], "y": c["y"], "level": c["level"], "ops": ops})
    idx.append((c, "model"))
    c["_reads"] = []
    if c["level"] == 0 and c["x"] == 0 and c["y"] == 0 and "ok" in c["impl"]:
        sofar = set()
        for i, (op, res) in enumerate(zip(c["ops"], c["impl"]["ok"]["results"])):
            if op:
                if in_range(*op):
                    sofar.add(tuple(op))
            else:
                tg = [list(t) for t in sorted(sofar)]
                reqs.append({"suite": "c12", "op": "oracle", "targets": tg, "out": res, "queries": queries({}, tg)})
                idx.append((c, ("read", i)))
                c["_reads"].append((i, tg))


def verdict_history(c):
    """(mismatch detail or None, [(key, text)]) - no side effects"""
    mism = None
    same = c["impl"] == c["model"]
    if not same and "ok" in c["impl"] and "ok" in c["model"] and c["impl"]["ok"]["tree"] is None:
        same = c["impl"]["ok"]["results"] == c["model"]["ok"]["results"]      # stopped at an error off the grid
    if not same:
        mism = ("one RegionCoreTree(%d, %d, %d) object, %d calls: results of the calls / final tree differ: impl=%s model=%s"
                % (c["x"], c["y"], c["level"], len(c["ops"]), str(c["impl"])[:300], str(c["model"])[:300]))
    found = []
    root = c["level"] == 0 and c["x"] == 0 and c["y"] == 0
    if c["impl"].get("err") == "DidNotReturn":
        found.append(("did-not-return", "a call on one RegionCoreTree object did not return (%s): calls %s"
                      % (c["impl"].get("where"), str(c["ops"])[:300])))
    elif root and "err" in c["impl"]:
        found.append(("exception-on-valid-targets", "a call on one RegionCoreTree object raised %s: calls %s"
                      % (c["impl"]["err"], str(c["ops"])[:300])))
    elif root:
        for i, (op, res) in enumerate(zip(c["ops"], c["impl"]["ok"]["results"])):
            if op and res == "ValueError" and in_range(*op):
                found.append(("exception-on-valid-targets", "one RegionCoreTree object, call #%d add_core%r raised "
                              "ValueError although the core is in range: calls %s" % (i, tuple(op), str(c["ops"])[:300])))
                break
    for i, tg in c["_reads"]:
        o = c[("read", i)]
        if not o["nodup"]:
            raise RuntimeError("harness error: the oracle was given a target list with repetitions")
        if not o["exact"] or o["bad"]:
            found.append(("history-read-not-exact",
                          "one RegionCoreTree object, call #%d is a read-out get_regions_and_coremasks() after %d "
                          "add_core calls: the pairs %s do not select exactly the cores added so far %s once each "
                          "under the documented region word%s; whole history (add = [x, y, p], read = []): %s"
                          % (i, sum(1 for op in c["ops"][:i] if op), str(c["impl"]["ok"]["results"][i])[:200],
                             str(tg)[:200], (" ((x, y, p, expected, selected by) = %r)" % o["bad"]) if o["bad"] else "",
                             str(c["ops"])[:300])))
            break
    return mism, found


CALL_OPS = ("new", "call", "discard", "add", "clear", "delchip", "setchip", "spoil")


def gen_calls(rng):
    """a caller that keeps targets dictionaries and asks again: steps
    ["new", name, [[x, y, [cores]], ...]]  a fresh dictionary of fresh sets,
    ["call", name]                          compress_flood_fill_regions(that dictionary),
    ["discard"/"add", name, x, y, p]        cores.discard(p) / cores.add(p) on the chip's own set object,
    ["clear", name, x, y]                   cores.clear(),
    ["delchip", name, x, y]                 del targets[(x, y)],
    ["setchip", name, x, y, [cores]]        targets[(x, y)] = set(cores) (new chip, or a new set for a known chip),
    ["spoil", j, how]                       edit in place the list returned by the j-th last call (clear / reverse /
                                            append / pop / setitem).
    Every list handed back is kept and looked at again after every later call."""
    mirror, steps = {}, []

    def new(name):
        pts, _ = small_points(rng, 300)
        d = {}
        for x, y, p in pts:
            d.setdefault((x, y), []).append(p)
        if rng.random() < 0.2:
            for _ in range(rng.choice([1, 3])):
                d.setdefault((rng.randrange(256), rng.randrange(256)), [])       # listed with no cores
        mirror[name] = {k: set(v) for k, v in d.items()}
        steps.append(["new", name, [[x, y, list(cs)] for (x, y), cs in d.items()]])

    def mutate(name):
        d = mirror[name]
        chips = sorted(d)
        r = rng.random()
        if not chips or r < 0.08:
            x, y = (rng.randrange(256), rng.randrange(256)) if not chips or rng.random() < 0.5 else \
                (min(255, chips[0][0] + 1), chips[0][1])
            cs = rand_cores(rng)[:3]
            d[(x, y)] = set(cs)
            steps.append(["setchip", name, x, y, cs])
            return
        x, y = rng.choice(chips)
        if r < 0.55 and d[(x, y)]:
            p = rng.choice(sorted(d[(x, y)]))
            d[(x, y)].discard(p)
            steps.append(["discard", name, x, y, p])
        elif r < 0.8:
            p = rng.randrange(18)
            d[(x, y)].add(p)
            steps.append(["add", name, x, y, p])
        elif r < 0.88:
            d[(x, y)].clear()
            steps.append(["clear", name, x, y])
        elif r < 0.94:
            del d[(x, y)]
            steps.append(["delchip", name, x, y])
        else:
            cs = rand_cores(rng)[:3]
            d[(x, y)] = set(cs)
            # a last `True`: the chip is named by an equal-but-distinct key object (a namedtuple)
            steps.append(["setchip", name, x, y, cs] + ([True] if rng.random() < 0.5 else []))

    def twin(src, name):
        """a fresh dictionary equal to `src` in all but one aspect (one core more / less, one chip more / less)"""
        d = {k: set(v) for k, v in mirror[src].items()}
        chips = sorted(d)
        r = rng.random()
        if chips and r < 0.3:
            k = rng.choice(chips)
            d[k] = set(d[k]) ^ {rng.randrange(18)}
        elif chips and r < 0.55 and len(chips) > 1:
            del d[rng.choice(chips)]
        elif chips and r < 0.8:
            k = rng.choice(chips)
            nk = (min(255, k[0] + rng.choice([1, 4, 16])), k[1])
            d.setdefault(nk, set()).update(d[k] or {0})
        else:
            d[(rng.randrange(256), rng.randrange(256))] = {rng.randrange(18)}
        mirror[name] = d
        steps.append(["new", name, [[x, y, sorted(cs)] for (x, y), cs in d.items()]])

    new("a")
    if rng.random() < 0.25:       # twins, asked for in both orders
        twin("a", "b")
        for nm in rng.choice([["a", "b", "a"], ["b", "a", "b"], ["a", "b", "b", "a"]]):
            steps.append(["call", nm])
        return {"kind": "calls", "steps": steps}
    steps.append(["call", "a"])
    for _ in range(rng.choice([1, 2, 3, 5])):
        r = rng.random()
        if r < 0.1 and mirror["a"]:
            # a request that must fail, then the caller repairs its dictionary and asks again
            x, y = rng.choice(sorted(mirror["a"]))
            bad = rng.choice([18, -1, 2 ** 32, 255])
            steps += [["add", "a", x, y, bad], ["call", "a"], ["discard", "a", x, y, bad], ["call", "a"]]
        elif r < 0.2:
            # the caller edits the list it was handed back, and asks again
            steps += [["spoil", rng.randrange(4), rng.choice(["clear", "reverse", "append", "pop", "setitem"])],
                      ["call", "a"]]
        elif r < 0.7:
            for _ in range(rng.choice([1, 1, 2, 4, 8])):
                mutate("a")
            steps.append(["call", "a"])
        elif r < 0.8:
            steps.append(["call", "a"])             # asked again, nothing changed
        else:
            new("b")
            steps.append(["call", "b"])
            if rng.random() < 0.5:
                mutate("b")
                steps.append(["call", "b"])
            steps.append(["call", "a"])
    return {"kind": "calls", "steps": steps}


def impl_calls(steps):
    """interpret the steps on real dictionaries / sets in this process; a step that refers to a dictionary, chip or
    result that does not exist is skipped (so every sub-sequence of a sequence is a sequence).  One record per call:
    the insertion order the implementation iterates, its result, whether the caller's data survived the call; the
    list objects handed back are kept: `changed` = a kept list differs later from what it was when returned
    (apart from the caller's own edits)."""
    from rig.machine_control import regions
    dicts, calls, kept, changed = {}, [], [], []

    def recheck(when):
        for rec in kept:
            if rec["obj"] is not None and not rec["reported"] and [list(p) for p in rec["obj"]] != rec["snap"]:
                rec["reported"] = True
                changed.append({"call": rec["call"], "when": when, "was": rec["snap"][:20],
                                "now": [list(p) for p in rec["obj"]][:20]})
    for i, st in enumerate(steps):
        op = st[0]
        if op == "spoil":
            live = [rec for rec in kept if rec["obj"] is not None]
            if st[1] < len(live):
                rec = live[-1 - st[1]]
                o = rec["obj"]
                try:
                    if st[2] == "clear":
                        del o[:]
                    elif st[2] == "reverse":
                        o.reverse()
                    elif st[2] == "append":
                        o.append((0xffff0001, 1))
                    elif st[2] == "pop" and o:
                        o.pop()
                    elif st[2] == "setitem" and o:
                        o[0] = (o[0][0], 0)
                except (AttributeError, TypeError):
                    pass                # not a list: nothing the caller could edit
                rec["snap"] = [list(p) for p in o]
            continue
        name = st[1]
        if op == "new":
            d = {}
            for x, y, cs in st[2]:
                d[(x, y)] = set()
                for p in cs:
                    d[(x, y)].add(p)
            dicts[name] = d
            continue
        d = dicts.get(name)
        if d is None:
            continue
        if op == "call":
            before = [[x, y, sorted(cs)] for (x, y), cs in d.items()]
            ids = [id(cs) for cs in d.values()]
            order = [[x, y, p] for (x, y), cs in d.items() for p in cs]
            box = {}

            def run():
                box["out"] = regions.compress_flood_fill_regions(d)
                return {"ok": [[int(r), int(m)] for (r, m) in box["out"]]}
            r = guard(run, len(order))
            after = [[x, y, sorted(cs)] for (x, y), cs in d.items()]
            calls.append({"step": i, "order": order, "impl": r, "targets": before,
                          "unchanged": before == after and ids == [id(cs) for cs in d.values()], "after": after})
            recheck(len(calls))
            kept.append({"call": len(calls), "obj": box.get("out"), "snap": r.get("ok"), "reported": False})
        elif op == "setchip":
            if len(st) > 5 and st[5]:
                import collections
                d[collections.namedtuple("Chip", "x y")(st[2], st[3])] = set(st[4])
            else:
                d[(st[2], st[3])] = set(st[4])
        elif (st[2], st[3]) not in d:
            continue
        elif op == "discard":
            d[(st[2], st[3])].discard(st[4])
        elif op == "add":
            d[(st[2], st[3])].add(st[4])
        elif op == "clear":
            d[(st[2], st[3])].clear()
        elif op == "delchip":
            del d[(st[2], st[3])]
    recheck("end")
    return calls, changed


def prepare_calls(c, reqs, idx):
    reload_rig()
    c["_calls"], c["_changed"] = impl_calls(c["steps"])
    for k, rec in enumerate(c["_calls"]):
        reqs.append({"suite": "c12", "op": "compress", "targets": rec["order"]})
        idx.append((c, ("model", k)))
        rec["valid"] = all(in_range(*t) for t in rec["order"])
        if "ok" in rec["impl"] and rec["valid"]:
            tg = sorted(rec["order"])
            reqs.append({"suite": "c12", "op": "oracle", "targets": tg, "out": rec["impl"]["ok"],
                         "queries": queries({}, tg)})
            idx.append((c, ("oracle", k)))


def verdict_calls(c):
    mism, found = None, []
    for k, rec in enumerate(c["_calls"]):
        where = ("call #%d (step %d) of a sequence of compress_flood_fill_regions calls in one process, the caller "
                 "keeping and changing its dictionaries in place" % (k + 1, rec["step"]))
        tail = "targets at that call %s -> output %s; whole sequence: %s" % (
            str(rec["targets"])[:250], str(rec["impl"])[:250], str(c["steps"])[:400])
        if mism is None and rec["impl"] != c[("model", k)]:
            mism = "%s: impl=%s model=%s" % (where, str(rec["impl"])[:250], str(c[("model", k)])[:250])
        if not rec["unchanged"]:
            found.append(("targets-changed-by-call", "%s: the call changed the caller's dictionary / core sets: before %s "
                          "after %s" % (where, str(rec["targets"])[:250], str(rec["after"])[:250])))
        if rec["impl"].get("err") == "DidNotReturn":
            found.append(("did-not-return", "%s: did not return (%s); %s" % (where, rec["impl"].get("where"), tail)))
            continue
        if not rec["valid"]:
            continue                    # a request that must fail: compared with the model only
        if "ok" not in rec["impl"]:
            found.append(("exception-on-valid-targets", "%s: raised %s on in-range targets; %s"
                          % (where, rec["impl"]["err"], tail)))
            continue
        o = c[("oracle", k)]
        if not o["nodup"]:
            raise RuntimeError("harness error: the oracle was given a target list with repetitions")
        if not o["exact"] or o["bad"]:
            found.append(("call-sequence-not-exact", "%s: the pairs do not select exactly the cores requested AT THAT CALL "
                          "once each under the documented region word%s; %s"
                          % (where, (" ((x, y, p, expected, selected by) = %r)" % o["bad"]) if o["bad"] else "", tail)))
        if not o["sorted"]:
            found.append(("call-sequence-not-increasing", "%s: the pairs are not strictly increasing; %s" % (where, tail)))
    for ch in c["_changed"]:
        found.append(("result-changed-after-return", "a sequence of compress_flood_fill_regions calls in one process: the "
                      "list returned by call #%s was %s when it was returned and is %s after call %s, without the caller "
                      "touching it; whole sequence: %s" % (ch["call"], str(ch["was"])[:200], str(ch["now"])[:200],
                                                           ch["when"], str(c["steps"])[:400])))
        break
    return mism, found


# ---------------------------------------------------------------- lazily consumed, interleaved read-outs
def gen_gens(rng):
    """two or three trees (roots, some directly constructed sub-trees) and read-outs that stay generator objects:
    ["add", t, x, y, p]   trees[t].add_core(x, y, p)
    ["open", g, t]        generator g = trees[t].get_regions_and_coremasks()  (nothing is consumed yet)
    ["next", g, k]        consume up to k pairs of generator g
    ["drain", g]          consume generator g to the end
    ["drop", g]           abandon generator g
    Generators of one tree and of different trees are advanced alternately by random step counts; a tree only changes
    while none of its generators is open (else that generator is not judged)."""
    ntrees = rng.choice([2, 2, 3])
    trees, pts = [], []
    for t in range(ntrees):
        if rng.random() < 0.2:
            st = gen_subtree(rng)
            sc = 4 ** (4 - st["level"])
            bx, by = st["x"] // sc * sc, st["y"] // sc * sc            # on its grid
            trees.append([bx, by, st["level"]])
            pts.append([q for q in st["points"] if bx <= q[0] < bx + sc and by <= q[1] < by + sc and 0 <= q[2] < 18][:200])
        else:
            trees.append([0, 0, 0])
            if rng.random() < 0.6:      # neighbouring chips with different core sets: several groups per node
                tg = build_targets({"shapes": shape_neigh(rng) + (shape_sparse(rng) if rng.random() < 0.4 else []),
                                    "order": rng.randrange(1 << 30)})
                pts.append([[x, y, p] for (x, y), cs in tg.items() for p in cs][:250])
            else:
                pts.append(small_points(rng, 200)[0])
    ops = []
    rest = [list(q) for q in pts]
    # first part of every tree
    for t in range(ntrees):
        cut = len(rest[t]) if rng.random() < 0.6 else rng.randrange(len(rest[t]) + 1)
        ops += [["add", t] + q for q in rest[t][:cut]]
        rest[t] = rest[t][cut:]
    g, live = 0, {}          # generator -> tree
    for _ in range(rng.choice([2, 3, 4, 6])):
        for _ in range(rng.choice([2, 2, 3])):
            t = rng.randrange(ntrees) if rng.random() < 0.7 else 0
            ops.append(["open", g, t])
            live[g] = t
            g += 1
        for _ in range(rng.choice([3, 6, 10, 20])):
            if not live:
                break
            h = rng.choice(sorted(live))
            r = rng.random()
            if r < 0.75:
                ops.append(["next", h, rng.choice([1, 1, 1, 2, 3, 5])])
            elif r < 0.85:
                ops.append(["drain", h])
                del live[h]
            elif r < 0.9:
                ops.append(["drop", h])
                del live[h]
            else:                # another tree changes meanwhile
                free = [t for t in range(ntrees) if t not in live.values() and rest[t]]
                if free:
                    t = rng.choice(free)
                    n = rng.choice([1, 2, 5])
                    ops += [["add", t] + q for q in rest[t][:n]]
                    rest[t] = rest[t][n:]
        for h in sorted(live):
            ops.append(["drain", h] if rng.random() < 0.85 else ["drop", h])
        live = {}
        for t in range(ntrees):
            n = rng.choice([0, 1, 3, len(rest[t])])
            ops += [["add", t] + q for q in rest[t][:n]]
            rest[t] = rest[t][n:]
    return {"kind": "gens", "trees": trees, "ops": ops}


def impl_gens(trees, ops):
    """-> per tree the history (adds and, where a generator was opened, a read-out marker), per generator its record"""
    from rig.machine_control import regions
    hist = [[] for _ in trees]          # per tree: [x, y, p] / ["g", g]
    rets = [[] for _ in trees]          # per tree: results of the adds
    gens = {}

    def run():
        objs = [new_tree(regions, bx, by, lv, ["pos", "kw", "partial"][i % 3], sub=(i == 1))
                for i, (bx, by, lv) in enumerate(trees)]
        for op in ops:
            if op[0] == "add":
                t = op[1]
                if not 0 <= t < len(objs):
                    continue
                for rec in gens.values():
                    if rec["tree"] == t and rec["open"]:
                        rec["tainted"] = True          # its tree changed while it was open: unspecified
                rets[t].append(bool(objs[t].add_core(op[2], op[3], op[4])))
                hist[t].append([op[2], op[3], op[4]])
                continue
            g = op[1]
            if op[0] == "open":
                if g in gens or not 0 <= op[2] < len(objs):
                    continue
                gens[g] = {"tree": op[2], "it": objs[op[2]].get_regions_and_coremasks(), "out": [], "open": True,
                           "done": False, "tainted": False}
                hist[op[2]].append(["g", g])
                continue
            rec = gens.get(g)
            if rec is None or not rec["open"]:
                continue
            if op[0] == "drop":
                rec["open"] = False
                rec["it"].close() if hasattr(rec["it"], "close") else None
                continue
            n = op[2] if op[0] == "next" else None
            while n is None or n > 0:
                try:
                    r, m = next(rec["it"])
                except StopIteration:
                    rec["open"], rec["done"] = False, True
                    break
                rec["out"].append([int(r), int(m)])
                if n is not None:
                    n -= 1
        for rec in gens.values():
            rec.pop("it", None)
        return {"ok": {"hist": hist, "rets": rets, "gens": {str(g): rec for g, rec in gens.items()},
                       "trees": [dump_tree(t) for t in objs]}}
    return guard(run, len(ops))


def prepare_gens(c, reqs, idx):
    reload_rig()
    c["impl"] = impl_gens(c["trees"], c["ops"])
    c["_judged"] = []
    if "ok" not in c["impl"]:
        return
    ok = c["impl"]["ok"]
    for t, (tr, h) in enumerate(zip(c["trees"], ok["hist"])):
        # the model of a generator: the list the traversal yields for the tree AS IT IS when the generator is created
        reqs.append({"suite": "c12", "op": "history", "x": tr[0], "y": tr[1], "level": tr[2],
                     "ops": [[] if q[0] == "g" else q for q in h]})
        idx.append((c, ("model", t)))
        sofar = set()
        for q in h:
            if q[0] != "g":
                sofar.add(tuple(q))
                continue
            rec = ok["gens"][str(q[1])]
            if tr[2] == 0 and rec["done"] and not rec["tainted"] and all(in_range(*a) for a in sofar):
                tg = [list(a) for a in sorted(sofar)]
                reqs.append({"suite": "c12", "op": "oracle", "targets": tg, "out": rec["out"], "queries": queries({}, tg)})
                idx.append((c, ("oracle", q[1])))
                c["_judged"].append((q[1], tg))


def verdict_gens(c):
    mism, found = None, []
    if c["impl"].get("err") == "DidNotReturn":
        return "did not return", [("did-not-return", "a call on the trees %s did not return (%s): calls %s"
                                   % (c["trees"], c["impl"].get("where"), str(c["ops"])[:300]))]
    if "ok" not in c["impl"]:
        if all(tr == [0, 0, 0] for tr in c["trees"]) and all(in_range(*op[2:]) for op in c["ops"] if op[0] == "add"):
            found.append(("exception-on-valid-targets", "a call raised %s although every added core is in range: trees %s "
                          "calls %s" % (c["impl"]["err"], c["trees"], str(c["ops"])[:300])))
        return "implementation raised %s" % c["impl"]["err"], found
    ok = c["impl"]["ok"]
    for t, h in enumerate(ok["hist"]):
        m = c[("model", t)]
        if "ok" not in m:
            mism = mism or "tree %d: model raised %s, implementation did not" % (t, m)
            continue
        if m["ok"]["tree"] != ok["trees"][t]:
            mism = mism or "tree %d: final tree differs: impl=%s model=%s" % (t, str(ok["trees"][t])[:200],
                                                                              str(m["ok"]["tree"])[:200])
        adds = iter(ok["rets"][t])
        for q, res in zip(h, m["ok"]["results"]):
            if q[0] != "g":
                if next(adds) != res:
                    mism = mism or "tree %d: add_core%r returned %r, model %r" % (t, tuple(q), not res, res)
                continue
            rec = ok["gens"][str(q[1])]
            if rec["tainted"]:
                continue
            want = res if rec["done"] else res[:len(rec["out"])]
            if rec["out"] != want:
                mism = mism or ("generator %d of tree %d %r (%s): yielded %s, the traversal of the tree as it was when the "
                                "generator was created gives %s" % (q[1], t, c["trees"][t],
                                                                    "consumed to the end" if rec["done"] else "abandoned",
                                                                    str(rec["out"])[:200], str(res)[:200]))
    for g, tg in c["_judged"]:
        o = c[("oracle", g)]
        if not o["nodup"]:
            raise RuntimeError("harness error: the oracle was given a target list with repetitions")
        if not o["exact"] or o["bad"]:
            rec = ok["gens"][str(g)]
            found.append(("lazy-read-not-exact",
                          "generator %d = get_regions_and_coremasks() of tree %d, consumed lazily to the end while other "
                          "generators were in progress (its own tree unchanged meanwhile): the pairs %s do not select "
                          "exactly the cores of its tree %s once each under the documented region word%s; trees %s, whole "
                          "history: %s" % (g, rec["tree"], str(rec["out"])[:200], str(tg)[:200],
                                           (" ((x, y, p, expected, selected by) = %r)" % o["bad"]) if o["bad"] else "",
                                           c["trees"], str(c["ops"])[:400])))
            break
    return mism, found


# ---------------------------------------------------------------- the region lists the controller sends (FFCS packets)
FILL_SDRAM_SYS, FILL_VCPU_BASE = 0x60000000, 0xe5007000
_FILLDIR = [None]


def gen_targets_on(rng, chips):
    cs = [c for c in chips if rng.random() < rng.choice([0.3, 0.7, 1.0])] or [rng.choice(chips)]
    common_set = rand_cores(rng)[:rng.choice([1, 2, 4])]
    mode = rng.random()
    if mode < 0.15:     # every chip, one core set: complete 4 x 4 blocks merge into a level-2 word
        cs = list(chips)
    out = []
    for x, y in cs:
        cores = common_set if mode < 0.5 else rand_cores(rng)[:rng.choice([1, 2, 3])]
        out.append([x, y, sorted(set(cores))])
    if rng.random() < 0.2:      # chips listed with an empty core set: nothing of them may be selected
        have = {(x, y) for x, y, _ in out}
        out += [[x, y, []] for x, y in chips if (x, y) not in have and rng.random() < 0.4]
    rng.shuffle(out)
    return out


def vary_targets(rng, chips, t):
    """the next request relative to an earlier one"""
    r = rng.random()
    if r < 0.35:        # the same chips, other cores
        if rng.random() < 0.5:
            sh = rng.randrange(1, 17)
            return [[x, y, sorted({(p + sh) % 18 for p in cs})] for x, y, cs in t]
        return [[x, y, sorted(set(rand_cores(rng)[:rng.choice([1, 2, 3])]))] for x, y, cs in t]
    if r < 0.5:         # a part of it (what a retry sends)
        out = []
        for x, y, cs in t:
            q = rng.random()
            if q < 0.3:
                continue
            out.append([x, y, cs if q < 0.6 or not cs else sorted(rng.sample(cs, rng.randrange(1, len(cs) + 1)))])
        return out or [t[0]]
    if r < 0.65:        # more of it
        out = [[x, y, sorted(set(cs) | set(rand_cores(rng)[:2]))] for x, y, cs in t]
        have = {(x, y) for x, y, _ in t}
        out += [[x, y, rand_cores(rng)[:2]] for x, y in chips if (x, y) not in have and rng.random() < 0.5]
        return out
    if r < 0.8:
        return [list(e) for e in t]      # exactly the same again
    return gen_targets_on(rng, chips)


SPELLINGS = ("dot", "slash", "rel", "sym", "hard", "copy")


def entry_file(name):
    """an application-map entry is named by a file number, or "<file>:<spelling>" for another way to name that file
    (./ in the path, a doubled slash, a relative path, a symbolic link, a hard link, a copy with identical content)"""
    return int(str(name).split(":")[0])


def gen_fills(rng):
    """one MachineController on a recording machine; steps
    ["ff", name, targets, app_id, wait]                  flood_fill_aplx(path(name), targets, ...)
    ["ffmap", [[name, targets], ...], app_id, wait]      flood_fill_aplx({path: targets, ...}, ...)
    ["load", [[name, targets], ...], app_id, n_tries, wait, use_count]    load_application({...}, ...)
    `missed`[i] = chips that do not receive the i-th flood fill of the whole sequence (retries of load_application)."""
    kind = rng.random()
    if kind < 0.4:
        ox, oy = rng.choice([(0, 0), (4, 8), (16, 16), (60, 60), (62, 14), (252, 252), (124, 0)])
        w, h = rng.choice([(2, 2), (4, 4), (4, 4), (5, 3), (3, 6), (6, 6)])
        chips = [(ox + i, oy + j) for i in range(w) for j in range(h) if ox + i < 256 and oy + j < 256]
    elif kind < 0.7:
        chips = sorted({(rng.choice([0, 1, 3, 4, 15, 16, 63, 64, 200]), rng.choice([0, 2, 3, 4, 16, 63, 64, 255]))
                        for _ in range(rng.randrange(1, 9))})
    else:
        ox, oy = rng.randrange(64) * 4, rng.randrange(64) * 4
        chips = [(ox + i, oy + j) for i in range(4) for j in range(4)]
        chips += [(min(255, ox + 4), oy), (ox, min(255, oy + 5))][:rng.randrange(3)]
        chips = sorted(set(chips))
    # (255, 255) is the SCP address of "the chip the connection is attached to": the simulated machine answers it
    # with its root chip, so a machine with a real chip there would alias two chips in the controller's read-back
    chips = [list(c) for c in chips if tuple(c) != (255, 255)] or [[0, 0]]
    tch = [tuple(c) for c in chips]
    images = [[rng.randrange(256) for _ in range(4 * rng.randrange(1, 9))] for _ in range(4)]
    steps, last = [], {}

    def spelled(f):
        return f if rng.random() < 0.6 else "%d:%s" % (f, rng.choice(SPELLINGS))

    def disjoint_map(first_name, first_t, n):
        """n entries with pairwise disjoint cores, in a random dictionary order: different binaries, and the SAME file
        named in different ways (the chips of such entries overlap or not, the cores never)"""
        pairs, used = [[first_name, first_t]], {(x, y, p) for x, y, cs in first_t for p in cs}
        others = [b for b in rng.sample(range(4), 4) if b != entry_file(first_name)]
        for _ in range(n - 1):
            if rng.random() < 0.4:
                f = entry_file(rng.choice(pairs)[0])            # the same file again, spelled differently
                free = [sp for sp in SPELLINGS if all(str(q[0]) != "%d:%s" % (f, sp) for q in pairs)]
                other = "%d:%s" % (f, rng.choice(free)) if free else None
            else:
                other = spelled(others.pop()) if others else None
            if other is None:
                continue
            t2 = gen_targets_on(rng, tch)
            t2 = [[x, y, [p for p in cs if (x, y, p) not in used]] for x, y, cs in t2]
            t2 = [e for e in t2 if e[2] or rng.random() < 0.3]       # some chips stay listed with an empty core set
            if any(e[2] for e in t2):
                used |= {(x, y, p) for x, y, cs in t2 for p in cs}
                pairs.append([other, t2])
                last[entry_file(other)] = t2
        rng.shuffle(pairs)
        return pairs
    app_id = rng.choice([30, 31, 66])
    for i in range(rng.choice([2, 2, 3, 4, 6])):
        name = rng.choice([0, 0, 0, 1, 2]) if i else 0
        t = vary_targets(rng, tch, last[name]) if name in last and rng.random() < 0.85 else gen_targets_on(rng, tch)
        if name not in last and last and rng.random() < 0.4:
            t = [list(e) for e in rng.choice(sorted(last.values()))]       # another binary, the same targets
        last[name] = t
        r = rng.random()
        if r < 0.06:
            # a binary that cannot be opened: the call fails after the regions were worked out, the controller is
            # used on
            steps.append(["ff", 9, t, app_id, True])
        elif r < 0.5:
            # a last `True`: the caller passes the SAME dictionary object as last time for this binary, edited in place
            steps.append(["ff", spelled(name), t, app_id, rng.random() < 0.6] + ([True] if rng.random() < 0.4 else []))
        elif r < 0.6:
            steps.append(["ffmap", disjoint_map(spelled(name), t, rng.choice([2, 2, 3, 4])), app_id, rng.random() < 0.6])
        else:
            # one load_application call for 1-4 binaries (dictionary order random); which fills lose which chips is
            # drawn below, so cores fail in any subset of the binaries, in any round
            steps.append(["load", disjoint_map(spelled(name), t, rng.choice([1, 2, 2, 3, 4])), app_id, rng.choice([1, 2, 3]),
                          rng.random() < 0.5, rng.random() < 0.5] + ([True] if rng.random() < 0.3 else []))
    missed = []
    for i in range(rng.choice([0, 2, 4, 8, 12, 16])):
        q = rng.choice([0.0, 0.0, 0.2, 0.5, 0.9])
        missed.append([list(c) for c in tch if rng.random() < q])
    cfg = {"buf": rng.choice([64, 128, 256, 256]), "sver": rng.choice(["semver", "semver", "legacy"]),
           "sdram_sys": rng.choice([0x60000000, 0x60240000, 0x67800000]),
           "vcpu_base": rng.choice([0xe5007000, 0xe5004000])}
    return {"kind": "fills", "chips": chips, "images": images, "missed": missed, "steps": steps, "cfg": cfg}


def impl_fills(c):
    """-> {"calls": [{"name", "targets", "order"}...] one per (binary, targets) of every flood_fill_aplx invocation
    (also those made by load_application), "fills": [[[region, core mask], ...], ...] the FFCS packets between
    successive flood-fill start packets, "errors": [...], "faults": n}"""
    import tempfile
    from harness import c09 as h9
    from harness import simnet, simmachine
    from rig.machine_control import machine_controller as mcm
    k = h9.load_consts()
    cfg = c.get("cfg") or {}
    if _FILLDIR[0] is None:
        _FILLDIR[0] = tempfile.mkdtemp(prefix="c12-")
    paths = {}
    for n, im in enumerate(c["images"]):
        paths[n] = os.path.join(_FILLDIR[0], "app%d_%d.aplx" % (os.getpid(), n))
        with open(paths[n], "wb") as f:
            f.write(bytes(im))
    paths[9] = os.path.join(_FILLDIR[0], "no-such-binary.aplx")

    def path_of(name):
        """the path an entry name stands for (created on first use)"""
        if name in paths:
            return paths[name]
        f, sp = entry_file(name), str(name).split(":")[1]
        d, base = os.path.split(paths[f])
        if sp == "dot":
            q = os.path.join(d, ".", base)
        elif sp == "slash":
            q = d + "//" + base
        elif sp == "rel":
            q = os.path.relpath(paths[f])
        else:
            q = os.path.join(d, "%s_%s" % (sp, base))
            if os.path.lexists(q):
                os.remove(q)
            if sp == "sym":
                os.symlink(paths[f], q)
            elif sp == "hard":
                os.link(paths[f], q)
            else:
                with open(q, "wb") as fh:
                    fh.write(bytes(c["images"][f]))
        paths[name] = q
        return q
    for st in c["steps"]:
        for nm in ([st[1]] if st[0] == "ff" else [q[0] for q in st[1]]):
            path_of(nm)
    names = {v: n for n, v in paths.items()}
    machine = h9.LoadMachine(c["chips"], cfg.get("buf", 256), cfg.get("sdram_sys", FILL_SDRAM_SYS),
                             cfg.get("vcpu_base", FILL_VCPU_BASE), c["missed"], [], k, sver=cfg.get("sver", "semver"))
    net = simnet.Net(machine.handle, lambda i, d: None)
    calls, errors, cur, inv, faults = [], [], [0], [0], [0]
    keep, inv_fills = {}, {}
    import collections
    Chip = collections.namedtuple("Chip", "x y")

    def tdict(name, t, reuse):
        """a fresh dictionary of fresh sets, or (reuse) the object passed for this binary last time, edited in place"""
        d = keep.get(name) if reuse else None
        if d is None:
            d = {}
        want = {(x, y): cs for x, y, cs in t}
        for key in [key for key in d if key not in want]:
            del d[key]
        for x, y, cs in t:
            if (x, y) in d:
                d[(x, y)].clear()
            else:
                # entries named by another spelling use equal-but-distinct key objects for their chips
                d[Chip(x, y) if ":" in str(name) else (x, y)] = set()
            for p in cs:
                d[(x, y)].add(p)
        keep[name] = d
        return d

    with simnet.installed(net):
        mc = simmachine.make_controller(net, timeout=4.0)
        real = mc.flood_fill_aplx

        def recording(*args, **kw):
            amap = {args[0]: args[1]} if len(args) == 2 else args[0]
            inv[0] += 1
            for path, targets in amap.items():
                calls.append({"name": names.get(path), "step": cur[0], "inv": inv[0],
                              "targets": [[x, y, sorted(cs)] for (x, y), cs in targets.items()],
                              "order": [[x, y, p] for (x, y), cs in targets.items() for p in cs]})
            n0 = machine.fills
            try:
                return real(*args, **kw)
            finally:
                inv_fills[inv[0]] = (n0, machine.fills)
        mc.flood_fill_aplx = recording
        for i, st in enumerate(c["steps"]):
            cur[0] = i
            n_calls, n_fills = len(calls), machine.fills

            def step():
                if st[0] == "ff":
                    mc.flood_fill_aplx(paths[st[1]], tdict(st[1], st[2], len(st) > 5 and st[5]), app_id=st[3], wait=st[4])
                elif st[0] == "ffmap":
                    mc.flood_fill_aplx({paths[n]: tdict(n, t, False) for n, t in st[1]}, app_id=st[2], wait=st[3])
                elif st[0] == "load":
                    try:
                        mc.load_application({paths[n]: tdict(n, t, len(st) > 6 and st[6]) for n, t in st[1]}, app_id=st[2],
                                            n_tries=st[3], wait=st[4], app_start_delay=0.0, use_count=st[5])
                    except mcm.SpiNNakerLoadingError:
                        pass                    # some chips missed every attempt: the documented outcome
                return {"ok": True}
            try:
                r = guard(step, 20000)
            except KeyError:
                r = {"err": "Other KeyError"}
            if "err" in r:
                # a flood fill that failed before its start packet went out leaves no fill to judge
                if machine.fills == n_fills:
                    del calls[n_calls:]
                if st[0] == "ff" and st[1] == 9 and r["err"].startswith("Other") and "DidNotReturn" not in r["err"]:
                    faults[0] += 1              # the binary that does not exist: IOError / OSError expected
                    continue
                errors.append([i, r["err"] + (" " + r.get("where", "") if r.get("where") else "")])
                break
    # what each fill must select, NOT taken from the arguments the controller built: a direct flood fill and the
    # first round of load_application select the binary's targets as the caller gave them; a re-load round selects
    # exactly that binary's cores that were not in the wait state after the previous round (the machine's state at the
    # round's first start packet: nothing changes between the controller's probing and that packet)
    step_first_inv = {}
    for call in calls:
        step_first_inv.setdefault(call["step"], call["inv"])
    for call in calls:
        st = c["steps"][call["step"]]
        given = {str(n): t for n, t in ([[st[1], st[2]]] if st[0] == "ff" else st[1])}
        want = [[x, y, p] for x, y, cs in given.get(str(call["name"]), []) for p in cs]
        call["round"] = 1
        call["file"] = entry_file(call["name"]) if call["name"] is not None else None
        if st[0] == "load" and call["inv"] != step_first_inv[call["step"]]:
            call["round"] = 1 + call["inv"] - step_first_inv[call["step"]]
            k0 = inv_fills.get(call["inv"], (0, 0))[0]
            snap = machine.snapshots[k0] if k0 < len(machine.snapshots) else {}
            want = [q for q in want if snap.get(tuple(q), (h9.IDLE, 0, ()))[0] != h9.WAIT]
        call["expect"] = sorted(want)
    fills = []
    for raw, _ in machine.log:
        if raw["cmd"] == 23 and fills:
            fills[-1]["image"] += list(raw["data"])
        if raw["cmd"] != 20:
            continue
        op = raw["arg1"] >> 24
        if op == k["nnFfs"]:
            fills.append({"pairs": [], "image": []})
        elif op == k["nnFfcs"] and fills:
            # documented layout of the core-select packet: arg1 = command << 24 | core mask, arg2 = region
            fills[-1]["pairs"].append([raw["arg2"], raw["arg1"] & 0xffffff])
    for f in fills:
        f["file"] = next((n for n, im in enumerate(c["images"]) if list(im) == f["image"]), None)
        del f["image"]
    # what is judged: per flood_fill_aplx invocation, the fills it sent.  The unchanged controller floods once per
    # map ENTRY: then fill and entry are paired in order and each fill must select exactly its entry's cores.  An
    # implementation may flood a FILE once although several entries name it: then, per file, everything its fills
    # select together is judged against the union of the targets of the entries naming that file.
    items = []
    for v in sorted(inv_fills):
        lo, hi = inv_fills[v]
        mine = [call for call in calls if call["inv"] == v]
        sent = list(range(lo, min(hi, len(fills))))
        if not mine:
            continue
        rnd = ("as requested" if mine[0]["round"] == 1 else "re-load round %d of load_application: the cores that were "
               "not waiting after the previous round" % mine[0]["round"])
        if len(sent) == len(mine):
            for call, j in zip(mine, sent):
                items.append({"what": "flood fill #%d (step %d, map entry %s, %s)" % (j + 1, call["step"], call["name"], rnd),
                              "expect": call["expect"], "pairs": fills[j]["pairs"], "fills": [j], "order": call["order"],
                              "file_ok": fills[j]["file"] == call["file"]})
        else:
            for fno in sorted({call["file"] for call in mine}):
                js = [j for j in sent if fills[j]["file"] == fno]
                exp = sorted({tuple(q) for call in mine if call["file"] == fno for q in call["expect"]})
                items.append({"what": "the %d flood fill(s) of binary %s in one flood_fill_aplx call with %d map entries "
                                      "(step %d, %s; entries %s name this file)"
                                      % (len(js), fno, len(mine), mine[0]["step"], rnd,
                                         [call["name"] for call in mine if call["file"] == fno]),
                              "expect": [list(q) for q in exp], "pairs": [q for j in js for q in fills[j]["pairs"]],
                              "fills": js, "order": None, "file_ok": True})
            stray = [j for j in sent if fills[j]["file"] not in {call["file"] for call in mine}]
            if stray:
                items.append({"what": "flood fill(s) %s of step %d carry an image of no requested binary"
                                      % ([j + 1 for j in stray], mine[0]["step"]), "expect": [],
                              "pairs": [q for j in stray for q in fills[j]["pairs"]], "fills": stray, "order": None,
                              "file_ok": False})
    return {"calls": calls, "fills": fills, "items": items, "errors": errors, "faults": faults[0]}


def prepare_fills(c, reqs, idx):
    reload_rig(controller=True)
    c["impl"] = impl_fills(c)
    for i, it in enumerate(c["impl"]["items"]):
        if it["order"] is not None:
            reqs.append({"suite": "c12", "op": "compress", "targets": it["order"]})
            idx.append((c, ("model", i)))
        tg = it["expect"]
        reqs.append({"suite": "c12", "op": "oracle", "targets": tg, "out": it["pairs"], "queries": queries({}, tg)})
        idx.append((c, ("oracle", i)))
        if len(it["fills"]) > 1:        # the order is a property of each packet stream
            for j in it["fills"]:
                reqs.append({"suite": "c12", "op": "oracle", "targets": [], "out": c["impl"]["fills"][j]["pairs"]})
                idx.append((c, ("sorted", i, j)))


def verdict_fills(c):
    mism, found = None, []
    r = c["impl"]
    if r["errors"]:
        mism = "step %d raised %s" % tuple(r["errors"][0])
        if "DidNotReturn" in r["errors"][0][1]:
            found.append(("did-not-return", "step %d of a sequence on one MachineController did not return (%s); whole "
                          "sequence: chips %s steps %s" % (r["errors"][0][0], r["errors"][0][1], str(c["chips"])[:120],
                                                           str(c["steps"])[:400])))
    tail = "; whole sequence: chips %s steps %s missed %s" % (str(c["chips"])[:120], str(c["steps"])[:400],
                                                              str(c["missed"])[:100])
    for i, it in enumerate(r["items"]):
        where = ("%s of a sequence on one MachineController: the FFCS packets carry (region, core mask) = %s where exactly "
                 "the cores %s must be selected" % (it["what"], str(it["pairs"])[:200], str(it["expect"])[:200]))
        if it["order"] is not None:
            m = c[("model", i)]
            if m != {"ok": it["pairs"]}:
                mism = mism or "%s; model: %s" % (where, str(m)[:200])
        if not it["file_ok"]:
            mism = mism or "%s: the data packets of this fill carry another binary" % it["what"]
        o = c[("oracle", i)]
        if not o["nodup"]:
            raise RuntimeError("harness error: the oracle was given a target list with repetitions")
        if not o["exact"] or o["bad"]:
            found.append(("ffcs-not-exact", "%s: they do not select exactly the requested cores once each under the "
                          "documented region word%s%s" % (where, (" ((x, y, p, expected, selected by) = %r)" % o["bad"])
                                                          if o["bad"] else "", tail)))
        srt = o["sorted"] if len(it["fills"]) <= 1 else all(c[("sorted", i, j)]["sorted"] for j in it["fills"])
        if not srt:
            found.append(("ffcs-not-increasing", "%s: not strictly increasing%s" % (where, tail)))
    return mism, found


SEQ = {"history": ("ops", prepare_history, verdict_history, "c12.history"),
       "calls": ("steps", prepare_calls, verdict_calls, "c12.calls"),
       "gens": ("ops", prepare_gens, verdict_gens, "c12.gens"),
       "fills": ("steps", prepare_fills, verdict_fills, "c12.fills")}


def shrink_seq(ctx, case, key):
    """delta debugging on the list of calls of a history / call sequence, keeping the same finding key"""
    field, _, verdict, _ = SEQ[case["kind"]]
    base = {k: v for k, v in case.items() if k in ("kind", "x", "y", "level", "trees", "chips", "images", "missed", "opts", "cfg")}

    def keys_of(seqs):
        cands = [dict(base, **{field: q}) for q in seqs]
        reqs, idx = prepare(cands)
        for (c, what), r in zip(idx, ctx.lean(reqs)):
            c[what] = r
        return [{k for k, _ in verdict(c)[1]} for c in cands]

    seq = list(case[field])
    if key not in keys_of([seq])[0]:
        return case
    n, rounds = 2, 0
    while len(seq) >= 2 and rounds < 200:
        rounds += 1
        size = max(1, len(seq) // n)
        cands = [seq[:i] + seq[i + size:] for i in range(0, len(seq), size)]
        cands = [q for q in cands if q][:48]
        hit = [q for q, v in zip(cands, keys_of(cands)) if key in v]
        if hit:
            seq = min(hit, key=len)
            n = max(n - 1, 2)
        elif size == 1:
            break
        else:
            n = min(len(seq), n * 2)
    return dict(base, **{field: seq})


def finish_seq(ctx, c, desc):
    field, _, verdict, suite = SEQ[c["kind"]]
    mism, found = verdict(c)
    if mism:
        ctx.mismatch(suite, mism, desc)
    seen = set()
    for key, text in found:
        if key in seen:
            continue
        seen.add(key)
        small = desc
        if key not in ctx.extra.setdefault("_shrunk", set()):
            ctx.extra["_shrunk"].add(key)
            small = shrink_seq(ctx, desc, key)
            if small is not desc:
                cand = dict(small)
                reqs, idx = prepare([cand])
                for (cc, what), r in zip(idx, ctx.lean(reqs)):
                    cc[what] = r
                again = [t for k, t in verdict(cand)[1] if k == key]
                text = again[0] if again else text
        ctx.violation(key, text, small)
    if c["kind"] == "history":
        reads = [i for i, op in enumerate(c["ops"]) if not op]
        adds = [i for i, op in enumerate(c["ops"]) if op]
        between = len(reads) >= 2 and any(reads[0] < a < reads[-1] for a in adds)
        ctx.tag("history_level%d_%s" % (c["level"], "err" if "err" in c["impl"] else
                                        "add_between_reads" if between else "other"))
        if "ok" in c["impl"] and "ValueError" in c["impl"]["ok"]["results"]:
            r = c["impl"]["ok"]["results"]
            ctx.tag("history_used_on_after_failed_call" if r[-1] != "ValueError" or r.count("ValueError") > 1
                    else "history_ends_with_failed_call")
        for k, v in sorted((c.get("opts") or {}).items()):
            if v not in ("pos", "int", False):
                ctx.tag("history_%s_%s" % (k, v))
        ctx.tag("history_reads_%s" % ("0" if not reads else "1" if len(reads) == 1 else "2-5" if len(reads) <= 5
                                      else "6+"))
        if "ok" in c["impl"] and any(r is True for r in c["impl"]["ok"]["results"]):
            ctx.tag("history_node_reports_full")
        if "ok" in c["impl"]:
            lv = {(r >> 16) & 3 for res in c["impl"]["ok"]["results"] if isinstance(res, list) for r, _ in res}
            if any(l < 3 for l in lv):
                ctx.tag("history_read_sees_merged_block")
        ctx.case(desc, between and "ok" in c["impl"])
    elif c["kind"] == "gens":
        inter = False
        if "ok" in c["impl"]:
            gens = c["impl"]["ok"]["gens"]
            ctx.tag("gens_%d_trees" % len(c["trees"]))
            for rec in gens.values():
                ctx.tag("gens_generator_%s" % ("tainted" if rec["tainted"] else "drained" if rec["done"] else "abandoned"))
            # some generator was advanced, another one ran, and the first one was advanced again
            seen, lastg = {}, None
            for op in c["ops"]:
                if op[0] in ("next", "drain"):
                    if op[1] in seen and lastg is not None and lastg != op[1] and seen[op[1]] < seen.get(lastg, -1):
                        inter = True
                    seen[op[1]] = len(seen) + (max(seen.values()) if seen else 0)
                    lastg = op[1]
            if inter:
                ctx.tag("gens_interleaved")
            if any(tr != [0, 0, 0] for tr in c["trees"]):
                ctx.tag("gens_with_subtree")
            if len({rec["tree"] for rec in gens.values()}) < len(gens):
                ctx.tag("gens_two_generators_of_one_tree")
            ctx.tag("gens_judged_%s" % ("0" if not c["_judged"] else "1-2" if len(c["_judged"]) <= 2 else "3+"))
        else:
            ctx.tag("gens_err")
        ctx.case(desc, inter)
    elif c["kind"] == "fills":
        r = c["impl"]
        ctx.tag("fills_%s" % ("0-1" if len(r["fills"]) <= 1 else "2-3" if len(r["fills"]) <= 3 else "4+"))
        for st in c["steps"]:
            ctx.tag("fills_step_" + st[0])
            if (st[0] == "ff" and len(st) > 5 and st[5]) or (st[0] == "load" and len(st) > 6 and st[6]):
                ctx.tag("fills_same_dictionary_object_edited_in_place")
        if r.get("faults"):
            ctx.tag("fills_used_on_after_failed_call")
        for st in c["steps"]:
            ents = [st[1]] if st[0] == "ff" else [q[0] for q in st[1]]
            for nm in ents:
                if ":" in str(nm):
                    ctx.tag("fills_binary_named_by_" + str(nm).split(":")[1])
            files = [entry_file(nm) for nm in ents]
            if len(set(files)) < len(files):
                tl = [q[1] for q in st[1]]
                dup = [f for f in set(files) if files.count(f) > 1][0]
                chipsets = [{(x, y) for x, y, _ in t} for nm, t in zip(ents, tl) if entry_file(nm) == dup]
                ctx.tag("fills_one_file_under_two_keys_%s" % ("common_chips" if chipsets[0] & chipsets[1]
                                                              else "disjoint_chips"))
            if any(not e[2] for t in ([st[2]] if st[0] == "ff" else [q[1] for q in st[1]]) for e in t):
                ctx.tag("fills_chip_with_empty_core_set")
        if any(len(it["fills"]) != 1 or it["order"] is None for it in r["items"]):
            ctx.tag("fills_judged_per_file")
        for i, st in enumerate(c["steps"]):
            if st[0] != "load":
                continue
            ctx.tag("fills_load_%d_binaries_%s" % (len(st[1]), "count" if st[5] else "probe"))
            later = [call for call in r["calls"] if call["step"] == i and call["round"] > 1]
            if later and len(st[1]) > 1:
                order = [n for n, _ in st[1]]
                pos = sorted({order.index(call["name"]) for call in later if call["name"] in order})
                ctx.tag("fills_reload_binaries_at_%s_of_%d" % ("+".join(map(str, pos)), len(order)))
                if any(call["round"] > 2 for call in later):
                    ctx.tag("fills_third_round")
        cfg = c.get("cfg") or {}
        ctx.tag("fills_cfg_buf%s_%s" % (cfg.get("buf", 256), cfg.get("sver", "semver")))
        seen, again = {}, False
        for call in r["calls"]:
            key = (call["name"], tuple(sorted((x, y) for x, y, _ in call["targets"])))
            if key in seen and seen[key] != call["targets"]:
                again = True
            seen.setdefault(key, call["targets"])
        if again:
            ctx.tag("fills_same_binary_same_chips_other_cores")
        if any(len({call["inv"] for call in r["calls"] if call["step"] == i}) > 1 for i in range(len(c["steps"]))):
            ctx.tag("fills_load_application_retried")
        if any(((rg >> 16) & 3) < 3 for f in r["fills"] for rg, _ in f["pairs"]):
            ctx.tag("fills_merged_block_word")
        ctx.traces += max(0, len(r["fills"]) - 1)
        ctx.case(desc, len(r["fills"]) >= 2)
    else:
        calls = c["_calls"]
        names = [c["steps"][r["step"]][1] for r in calls]
        inplace = False
        last = {}
        for i, st in enumerate(c["steps"]):
            if st[0] == "call":
                if last.get(st[1]) == "mut":
                    inplace = True
                last[st[1]] = "call"
            elif st[0] in ("discard", "add", "clear") and last.get(st[1]) in ("call", "mut"):
                last[st[1]] = "mut"
                ctx.tag("calls_inplace_" + st[0])
            elif st[0] in ("delchip", "setchip"):
                ctx.tag("calls_" + st[0])
            elif st[0] == "spoil":
                ctx.tag("calls_returned_list_edited_" + st[2])
        ctx.tag("calls_%s" % ("1" if len(calls) <= 1 else "2-3" if len(calls) <= 3 else "4+"))
        if len(set(names)) > 1:
            ctx.tag("calls_two_dictionaries")
        if inplace:
            ctx.tag("calls_again_after_inplace_change")
        if any(not r["valid"] for r in calls):
            ctx.tag("calls_failed_request_then_repaired" if calls and calls[-1]["valid"] else "calls_failed_request")
        news = [st for st in c["steps"] if st[0] == "new"]
        if len(news) == 2 and sum(1 for st in c["steps"] if st[0] == "call") >= 3 and len(c["steps"]) <= 6:
            ctx.tag("calls_twins_both_orders")
        ctx.traces += max(0, len(calls) - 1)
        ctx.case(desc, inplace)


WORKERS = 4         # worker processes (implementation + model driver per batch); results do not depend on it


def work(batch):
    """one batch, in a worker process or inline: run the implementation, then the model driver on the requests.
    A pure function of the batch (all randomness was consumed when the cases were generated)."""
    from harness import common
    reqs, idx = prepare(batch)
    return batch, idx, common.Driver().run(reqs), len(reqs)


def eval_cases(ctx, cases):
    reqs, idx = prepare(cases)
    finish(ctx, cases, idx, ctx.lean(reqs))


def prepare(cases):
    """run the implementation on every case and build the model / oracle requests"""
    reqs, idx = [], []
    for c in cases:
        if c["kind"] == "region":
            c["impl"] = impl_region(c["x"], c["y"], c["level"], c.get("conv", "pos"), c.get("ints", "int"))
            reqs.append({"suite": "c12", "op": "region", "x": c["x"], "y": c["y"], "level": c["level"]})
            idx.append((c, "model"))
            if "ok" in c["impl"] and c["level"] <= 3 and c["x"] < 256 and c["y"] < 256:
                reqs.append({"suite": "c12", "op": "chips", "r": c["impl"]["ok"]})
                idx.append((c, "chips"))
            continue
        if c["kind"] in SEQ:
            SEQ[c["kind"]][1](c, reqs, idx)
            continue
        if c["kind"] == "subtree":
            c["impl"] = impl_subtree(c["x"], c["y"], c["level"], c["points"], c.get("opts"))
            reqs.append({"suite": "c12", "op": "subtree", "x": c["x"], "y": c["y"], "level": c["level"],
                         "targets": c["points"]})
            idx.append((c, "model"))
            continue
        targets = build_targets(c)
        if c.get("args"):
            targets, order = dress(targets, c["args"])
        else:
            order = [[x, y, p] for (x, y), cs in targets.items() for p in cs]
        c["_n"] = len(order)
        c["_valid"] = all(0 <= x < 256 and 0 <= y < 256 and 0 <= p < 18 for x, y, p in order)
        c["impl"] = impl_compress(targets, c.get("args"), len(order))
        reqs.append({"suite": "c12", "op": "compress", "targets": order})
        idx.append((c, "model"))
        if len(order) <= TREE_LIMIT:
            c["impl_tree"] = impl_tree(order, c.get("args"))
            reqs.append({"suite": "c12", "op": "tree", "targets": order})
            idx.append((c, "model_tree"))
        if c["_valid"] and "ok" in c["impl"]:
            tg = sorted({tuple(t) for t in order})          # a list / tuple of cores may repeat a core
            reqs.append({"suite": "c12", "op": "oracle", "targets": [list(t) for t in tg], "out": c["impl"]["ok"],
                         "queries": queries(c, [list(t) for t in tg])})
            idx.append((c, "oracle"))
    return reqs, idx


def finish(ctx, cases, idx, replies):
    """compare implementation and model, apply the oracle verdicts (in case order)"""
    for (c, what), r in zip(idx, replies):
        c[what] = r
    for c in cases:
        desc = {k: v for k, v in c.items() if k in ("kind", "shapes", "order", "points", "x", "y", "level", "ops",
                                                    "steps", "trees", "chips", "images", "missed", "args", "opts", "empties",
                                                    "conv", "ints", "cfg")}
        ctx.traces += 1
        if c["kind"] in SEQ:
            finish_seq(ctx, c, desc)
            continue
        if c["kind"] == "region":
            if c["impl"] != c["model"]:
                ctx.mismatch("c12.region", "impl=%r model=%r" % (c["impl"], c["model"]), desc)
            ctx.tag("region_level%s_%s" % (c["level"] if c["level"] <= 4 else "big", "ok" if "ok" in c["impl"] else "err"))
            if c["x"] >= 256 or c["y"] >= 256:
                ctx.tag("region_coordinate_beyond_255")
            if c.get("conv", "pos") != "pos" or c.get("ints", "int") != "int":
                ctx.tag("region_call_%s_%s" % (c.get("conv", "pos"), c.get("ints", "int")))
            if c["impl"].get("err") == "DidNotReturn" and c["level"] <= 3:
                ctx.violation("did-not-return", "get_region_for_chip(%d, %d, %d) did not return: %s"
                              % (c["x"], c["y"], c["level"], c["impl"].get("where")), desc)
            if "chips" in c:
                chips = c["chips"]
                if c["level"] == 3 and chips != [[c["x"], c["y"]]]:
                    ctx.violation("single-chip-word",
                                  "get_region_for_chip(%d, %d, 3) = %#x selects chips %r under the documented word "
                                  "layout, not exactly that chip" % (c["x"], c["y"], c["impl"]["ok"], chips[:20]), desc)
                elif [c["x"], c["y"]] not in chips:
                    ctx.violation("region-word-misses-chip",
                                  "get_region_for_chip(%d, %d, %d) = %#x does not select the chip itself"
                                  % (c["x"], c["y"], c["level"], c["impl"]["ok"]), desc)
            ctx.case(desc, c["level"] == 3)
            continue
        if c["kind"] == "subtree":
            if c["impl"] != c["model"]:
                ctx.mismatch("c12.subtree", "RegionCoreTree(%d, %d, %d): tree state / add_core returns / yield differ: "
                             "impl=%s model=%s" % (c["x"], c["y"], c["level"], str(c["impl"])[:300],
                                                   str(c["model"])[:300]), desc)
            full = "ok" in c["impl"] and any(c["impl"]["ok"]["returns"])
            ctx.tag("subtree_level%d_%s" % (c["level"], "err" if "err" in c["impl"] else
                                            "reports_full" if full else "partial"))
            for k, v in sorted((c.get("opts") or {}).items()):
                if v not in ("pos", "int", False):
                    ctx.tag("subtree_%s_%s" % (k, v))
            ctx.case(desc, full)
            continue
        if c["impl"] != c["model"]:
            ctx.mismatch("c12.compress", "impl=%s model=%s" % (str(c["impl"])[:300], str(c["model"])[:300]), desc)
        if "impl_tree" in c and c["impl_tree"] != c["model_tree"]:
            ctx.mismatch("c12.tree", "tree state / add_core returns / yield order differ: impl=%s model=%s"
                         % (str(c["impl_tree"])[:300], str(c["model_tree"])[:300]), desc)
            ctx.traces += 1
        nontriv = False
        for k, v in sorted((c.get("args") or {}).items()):
            ctx.tag("arg_%s_%s" % (k, v))
        if c.get("empties"):
            ctx.tag("chips_with_empty_core_set")
        if not c["_valid"]:
            ctx.tag("malformed_" + c["impl"].get("err", "accepted"))
        elif "ok" not in c["impl"]:
            ctx.tag("valid_raised")
            if c["impl"]["err"] == "DidNotReturn":
                ctx.violation("did-not-return", "compress_flood_fill_regions did not return on an in-range target set "
                              "of %d cores: %s" % (c["_n"], c["impl"].get("where")), desc)
            else:
                ctx.violation("exception-on-valid-targets",
                              "compress_flood_fill_regions raised %s on an in-range target set%s"
                              % (c["impl"]["err"], " (argument kinds %s)" % c["args"] if c.get("args") else ""), desc)
        else:
            out = c["impl"]["ok"]
            levels = sorted({(r >> 16) & 3 for r, _ in out})
            for l in levels:
                ctx.tag("emits_level%d" % l)
            ctx.tag("pairs_%s" % ("0" if not out else "1" if len(out) == 1 else "2-9" if len(out) < 10 else "10+"))
            ctx.tag("triples_%s" % ("<=16" if c["_n"] <= 16 else "<=256" if c["_n"] <= 256 else
                                    "<=4096" if c["_n"] <= 4096 else ">4096"))
            if len({m for _, m in out}) > 1:
                ctx.tag("several_core_masks")
            nontriv = len(out) >= 2 or any(l < 3 for l in levels)
            o = c["oracle"]
            if not o["nodup"]:      # hypothesis of exactB_iff, decided by the driver (nodupB_iff)
                raise RuntimeError("harness error: the oracle was given a target list with repetitions")
            if o["exact"] == bool(o["bad"]):
                ctx.tag("oracle_enumeration_vs_pointwise_differ" if o["exact"] else "oracle_nonexact_sample_missed")
            for key, bad, what in (
                    ("not-exact", not o["exact"] or bool(o["bad"]),
                     "the emitted pairs do not select exactly the requested cores once each under the documented "
                     "region word%s" % (" (before shrinking: (x, y, p, expected, selected by) = %r)" % o["bad"]
                                        if o["bad"] else "")),
                    ("not-increasing", not o["sorted"],
                     "the emitted pairs are not in strictly increasing (region, core mask) order")):
                if not bad:
                    continue
                small = desc
                if key not in ctx.extra.setdefault("_shrunk", set()) and c["_n"] <= 20000:
                    ctx.extra["_shrunk"].add(key)
                    small = shrink(ctx, desc, key)
                st = build_targets(small)
                passed = dress(st, small["args"])[0] if small.get("args") else st
                ctx.violation(key, "%s: targets %s%s -> output %s" % (
                    what, str({k: sorted(v) for k, v in st.items()})[:300],
                    " passed as %s" % small["args"] if small.get("args") else "",
                    str(impl_compress(passed, small.get("args")))[:300]), small)
        ctx.case(desc, nontriv)


def region_cases(ctx, n):
    rng = ctx.rng
    cs = []
    edge = [0, 1, 3, 4, 15, 16, 63, 64, 127, 128, 191, 192, 252, 255]
    for _ in range(n):
        x = rng.choice(edge) if rng.random() < 0.4 else rng.randrange(256)
        y = rng.choice(edge) if rng.random() < 0.4 else rng.randrange(256)
        lv = 3 if rng.random() < 0.5 else rng.choice([0, 1, 2, 3, 4])
        c = {"kind": "region", "x": x, "y": y, "level": lv}
        r = rng.random()
        if r < 0.04:            # beyond the machine: the function has no range check, compared with the model only
            c[rng.choice(["x", "y"])] = rng.choice(BIG + [256, 257, 65535, 65536])
        elif r < 0.06:
            c["level"] = rng.choice(BIG + [5, 17])
        if rng.random() < 0.5:
            c["conv"] = rng.choice(["default", "kw", "allkw"])
        if rng.random() < 0.3:
            c["ints"] = rng.choice(INT_KINDS)
        cs.append(c)
    return cs


def run(ctx):
    ctx.extra["rule"] = RULE
    ctx.assumptions += [
        "coordinates 0..255 and cores 0..17 (anything else raises ValueError, checked as correspondence only)",
        "semantics of a region word as documented in regions.py / _send_ffcs (written independently in Lean as `selects`); "
        "that SC&MP implements this semantics is trusted",
        "the insertion order used by the implementation is the iteration order of the targets dict and its sets",
        "the model is stateless between calls (a read-out is a pure traversal, compress a pure function of the targets "
        "at the call); any state the implementation carries between calls shows up as a difference on the histories "
        "and call sequences",
        "what a generator yields after its own tree changed while it was open is unspecified and not judged",
        "the simulated machine behind the controller (harness/c09.LoadMachine) is used only to record the packets and to "
        "make load_application retry; FFCS packets are attributed to flood_fill_aplx invocations in order (one start "
        "packet per binary of an invocation); which cores wait after a round is read from the simulated machine at the "
        "next round's first start packet; the machine has no chip (255, 255) (the SCP address of the local chip)",
        "the enumerating oracle (exactB, strictB) is proved to decide `Exact` / `StrictlyIncreasing` for target lists "
        "without repetition (exactB_iff, strictB_iff); that hypothesis is decided by the driver on every call "
        "(nodupB, nodupB_iff) and a repetition would be reported as a harness error; the literal `countSel` is still "
        "evaluated on sampled targets and non-targets as a redundant cross-check"]
    n = ctx.scale(1500, 24000)
    nreg = ctx.scale(3000, 0)
    if ctx.extended:
        n *= 4
    rng = ctx.rng
    cases = []
    cdir = os.path.join(os.path.dirname(os.path.dirname(os.path.abspath(__file__))), "corpus", "C12")
    if os.path.isdir(cdir):
        for fn in sorted(os.listdir(cdir)):
            if fn.endswith(".json"):
                cases.append(json.load(open(os.path.join(cdir, fn)))["case"])
                ctx.tag("corpus")
    for i in range(n):
        if rng.random() < 0.06:
            cases.append(gen_malformed(rng))
        else:
            cases.append(gen_case(rng, not ctx.quick))
    # whole machine, one core: the root keeps 0xffff (the only node that may)
    cases.append({"kind": "compress", "shapes": [["rect", 0, 0, 256, 256, [rng.randrange(18)]]], "order": 1})
    cases += [gen_subtree(rng) for _ in range(ctx.scale(300, 3000) * (4 if ctx.extended else 1))]
    cases += [gen_history(rng) for _ in range(ctx.scale(250, 3000) * (4 if ctx.extended else 1))]
    cases += [gen_calls(rng) for _ in range(ctx.scale(250, 3000) * (4 if ctx.extended else 1))]
    cases += [gen_gens(rng) for _ in range(ctx.scale(250, 3000) * (4 if ctx.extended else 1))]
    cases += [gen_fills(rng) for _ in range(ctx.scale(200, 2500) * (4 if ctx.extended else 1))]
    # far beyond the usual size (a handful): every second chip of a large window with two core sets (the longest
    # lists: one word per 4 x 4 block and core set), the whole machine with two cores, a long history
    scale = [{"kind": "compress", "shapes": [["checker", 64, 128, 64, 64, [3], [3, 9]]], "order": 3}]
    if not ctx.quick:
        scale += [{"kind": "compress", "shapes": [["checker", 0, 0, 256, 256, [0, 17], [5]]], "order": 4},
                  {"kind": "compress", "shapes": [["rect", 0, 0, 256, 256, [2, 16]]], "order": 5,
                   "args": {"ints": "int", "cores": "tuple", "dict": "ordered", "key": "namedtuple", "conv": "kw"}},
                  {"kind": "compress", "shapes": [["checker", 0, 0, 256, 256, list(range(18)), []]], "order": 6}]
    pts = [[x, y, 7] for x in range(64, 128) for y in range(192, 256)]
    rng.shuffle(pts)
    ops = []
    for i, q in enumerate(pts if not ctx.quick else pts[:1500]):
        ops.append(q)
        if i % 97 == 0 or i >= len(pts) - 3:
            ops.append([])
    scale.append({"kind": "history", "x": 0, "y": 0, "level": 0, "ops": ops})
    cases += scale
    cases += region_cases(ctx, ctx.scale(nreg, 4000))
    if not ctx.quick:
        cases += [{"kind": "region", "x": x, "y": y, "level": 3, "conv": ["pos", "default", "kw", "allkw"][(x + y) % 4]}
                  for x in range(256) for y in range(256)]
        cases += [{"kind": "region", "x": x, "y": y, "level": l} for x in range(0, 256, 3) for y in range(0, 256, 5)
                  for l in (0, 1, 2, 4)]
        cases.append({"kind": "compress", "shapes": [["rect", 0, 0, 256, 256, [1]], ["hole", 255, 255, [1]]], "order": 2})
    # the batches are independent: WORKERS forked processes run implementation + model driver on them; the verdicts
    # are applied here strictly in case order, so the result does not depend on timing or on WORKERS
    batches = [cases[i:i + 400] for i in range(0, len(cases), 400)]
    pool = None
    if len(batches) > 1:
        try:
            import multiprocessing
            pool = multiprocessing.get_context("fork").Pool(WORKERS)
        except (OSError, ValueError, ImportError):
            pool = None
    try:
        for batch, idx, replies, n in (pool.imap(work, batches) if pool else map(work, batches)):
            ctx.driver.calls += n
            finish(ctx, batch, idx, replies)
    finally:
        if pool is not None:
            pool.terminate()
            pool.join()
    ctx.extra.pop("_shrunk", None)


def replay(ctx, payload):
    ctx.extra["rule"] = RULE
    ctx.extra["_shrunk"] = {"not-exact", "not-increasing", "history-read-not-exact", "call-sequence-not-exact",
                            "call-sequence-not-increasing", "targets-changed-by-call", "lazy-read-not-exact",
                            "ffcs-not-exact", "ffcs-not-increasing", "did-not-return",
                            "result-changed-after-return", "exception-on-valid-targets"}   # replay the case (the whole history) as recorded
    eval_cases(ctx, [payload["case"]])
    ctx.extra.pop("_shrunk", None)
THEOREMS += ['gen_region_tree_init']   # translator tie, second round (Props/C12Gen.lean)
