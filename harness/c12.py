"""C12 - flood-fill region list: correspondence of rig/machine_control/regions.py
with the Lean model RigModel/Model/C12.lean (exact list equality, tree state and
`add_core` return values included), and the Lean specification of a region word
(`selects`) run as oracle on the implementation's own output."""
import json
import os
import random

CLAIM = dict(
    text=("Machine-checked proof (Lean 4) over ALL target sets in the 256 x 256 x 18 core space and ALL insertion "
          "orders: the (region, core mask) list produced by compress_flood_fill_regions selects, under an "
          "independently written semantics of the region word (level in bits 17:16, base masked to the level, 16 block "
          "bits), every requested core of every requested chip exactly once and nothing else; the list is strictly "
          "increasing in (region, core mask), hence in (region << 32) | mask and (region << 18) | mask; a level-3 word "
          "from get_region_for_chip selects that chip only. For a tree constructed directly at any level (public class "
          "RegionCoreTree) every in-square insertion sequence keeps the invariant and the node's set plus the squares of "
          "the cores it reported full is exactly the inserted set (subtree_insert). The executable oracle the driver runs on the "
          "implementation's own output is proved to decide exactly these predicates for all inputs (exactB_iff, "
          "nodupB_iff, strictB_iff). The word semantics is proved identical to the one C09's machine model uses "
          "(c09_selects_agree) and the output is proved to meet the contract C09's load theorems assume of "
          "compress_flood_fill_regions (c09_regions_contract, c09_compressOK). Tied to rig/machine_control/regions.py by "
          "exact list equality (plus tree state, add_core return values and generator order) on generated target sets "
          "per run, with the proved oracle evaluated on the implementation's own pairs."),
    design="3/C12",
    note=("Proved: everything above, about the Lean model and the Lean specification. Validated only (differential "
          "testing, every run): that the Lean model computes what regions.py computes. Trusted: that SC&MP reads a "
          "region word as documented. Insertion order (dict/set iteration) is an explicit input of the model and "
          "universally quantified in the theorems. Out-of-range coordinates/cores raise ValueError in code and model. "
          "regions.py has no public function besides get_region_for_chip, compress_flood_fill_regions and "
          "RegionCoreTree (__init__, add_core, get_regions_and_coremasks); all are modelled and compared."),
    technique="Lean 4 theorems over a hand-written model + differential correspondence + Lean spec as oracle")

THEOREMS = ["region_word_selects", "single_chip", "add_inv", "insert_all", "compress_ok", "compress_err",
            "compress_exact", "exact_select_iff", "compress_sorted", "compress_keys", "chipsOf_spec",
            "exactB_iff", "nodupB_iff", "strictB_iff", "oracle_decides",
            "c09_selects_agree", "c09_selectsCore_agree", "c09_strictlyIncreasing_agree",
            "c09_regions_contract", "c09_compressOK", "subtree_insert", "emit_not_sorted"]
THEOREMS += ['gen_get_region_for_chip']   # translator tie: generated function bodies = model (Props/C12Gen.lean)

RULE = ("target sets built from shapes: sparse points (whole grid or a small window), aligned full blocks of side "
        "4/16/64 (and 256 in the thorough tier) for a random core set with 0-3 holes (a hole removes some or all cores "
        "of one chip), blocks shifted off their alignment so they straddle level boundaries, windows where "
        "neighbouring chips get different core sets, and unions of 2-4 such shapes; dictionary and set insertion "
        "order shuffled; a separate malformed stream (x, y = -1/256, p = -1/18) for the ValueError branch; "
        "get_region_for_chip on random and edge (x, y, level); trees constructed directly as RegionCoreTree(base_x, "
        "base_y, level) for every level, squares filled completely for some cores with the holes filled last (add_core "
        "returns True below the root), re-insertion after a mask was cleared, chips just outside the square, some "
        "unaligned bases. A case is non-trivial when the output contains a "
        "region word of level < 3 (at least one collapse of sixteen children) or >= 2 pairs, for a directly constructed "
        "tree when some add_core returned True; distinct = distinct canonical case JSON")

CORE_SETS = [[0], [1], [17], [0, 1], [1, 2, 3], [0, 17], list(range(1, 17)), list(range(18)),
             [5, 6, 7, 8], [2], [16, 17]]


# ---------------------------------------------------------------- generators
def rand_cores(rng):
    r = rng.random()
    if r < 0.55:
        return list(rng.choice(CORE_SETS))
    k = rng.choice([1, 1, 2, 3, 5, 9, 17, 18])
    return sorted(rng.sample(range(18), k))


def shape_block(rng, side, aligned):
    n = 256 // side
    x0, y0 = rng.randrange(n) * side, rng.randrange(n) * side
    if rng.random() < 0.3:
        x0 = rng.choice([0, 256 - side])
    if rng.random() < 0.3:
        y0 = rng.choice([0, 256 - side])
    if not aligned:
        off = rng.choice([1, 2, 3, side // 2, side - 1]) if side > 1 else 1
        x0 = min(max(0, x0 + rng.choice([-off, off, 0])), 256 - side)
        y0 = min(max(0, y0 + rng.choice([-off, off])), 256 - side)
    cores = rand_cores(rng)
    if side >= 8 and len(cores) > 3 and rng.random() < 0.85:
        cores = sorted(rng.sample(cores, rng.choice([1, 2, 3])))
    if side >= 64 and len(cores) > 2:
        cores = cores[:rng.choice([1, 2])]
    shapes = [["rect", x0, y0, side, side, cores]]
    for _ in range(rng.choice([0, 0, 1, 1, 2, 3])):
        hx, hy = x0 + rng.randrange(side), y0 + rng.randrange(side)
        r = rng.random()
        if r < 0.4:
            hc = cores                      # whole chip missing
        elif r < 0.8:
            hc = [rng.choice(cores)]        # block full only for the other cores
        else:
            hc = rng.sample(cores, max(1, len(cores) // 2))
        shapes.append(["hole", hx, hy, sorted(hc)])
    if rng.random() < 0.25:                 # one more core on a few chips of the block
        for _ in range(rng.choice([1, 2, 16])):
            shapes.append(["pt", x0 + rng.randrange(side), y0 + rng.randrange(side), rng.randrange(18)])
    return shapes


def shape_sparse(rng):
    n = rng.choice([1, 2, 3, 5, 8, 13, 25, 40])
    if rng.random() < 0.5:
        wx = wy = 256
        bx = by = 0
    else:
        wx, wy = rng.choice([2, 4, 5, 8, 17]), rng.choice([2, 4, 5, 8, 17])
        bx, by = rng.randrange(257 - wx), rng.randrange(257 - wy)
        if rng.random() < 0.3:
            bx, by = rng.choice([0, 62, 126, 254 - wx, 256 - wx]), rng.choice([0, 14, 62, 256 - wy])
    return [["pt", bx + rng.randrange(wx), by + rng.randrange(wy),
             rng.choice([0, 1, 17, rng.randrange(18)])] for _ in range(n)]


def shape_neigh(rng):
    w, h = rng.choice([2, 4, 5, 8]), rng.choice([2, 4, 5, 8])
    bx, by = rng.randrange(257 - w), rng.randrange(257 - h)
    if rng.random() < 0.5:
        bx, by = bx // 4 * 4, by // 4 * 4
    pats = [rand_cores(rng) for _ in range(rng.choice([2, 3]))]
    return [["rect", bx + i, by + j, 1, 1, rng.choice(pats)] for i in range(w) for j in range(h)
            if rng.random() < 0.9]


def gen_case(rng, tier_big):
    def one():
        r = rng.random()
        if r < 0.22:
            return shape_sparse(rng)
        if r < 0.45:
            return shape_block(rng, 4, True)
        if r < 0.60:
            return shape_block(rng, 16, True)
        if r < 0.61 or (tier_big and r < 0.64):
            return shape_block(rng, 64, True)
        if tier_big and r < 0.641:
            return shape_block(rng, 256, True)
        if r < 0.80:
            return shape_block(rng, rng.choice([4, 4, 8, 16, 20]), False)
        return shape_neigh(rng)
    shapes = one()
    if rng.random() < 0.35:
        for _ in range(rng.choice([1, 1, 2, 3])):
            shapes = shapes + one()
    return {"kind": "compress", "shapes": shapes, "order": rng.randrange(1 << 30)}


def gen_malformed(rng):
    c = gen_case(rng, False)
    bad = rng.choice([[-1, 3, 2], [256, 0, 0], [3, -1, 1], [0, 256, 17], [4, 4, 18], [4, 4, -1],
                      [300, 300, 30], [255, 255, 18], [256, 256, 0]])
    c["shapes"] = c["shapes"][:rng.randrange(1, 4)] + [["pt"] + bad]
    if rng.random() < 0.3:
        c["shapes"] = [["pt"] + bad]
    return c


def gen_subtree(rng):
    """a tree constructed directly as RegionCoreTree(base_x, base_y, level) (public class): explicit insertion
    list; squares filled completely for some cores (add_core returns True below the root and clears the mask),
    holes filled last, sparse points, now and then a chip just outside the square (ValueError of a non-root node)
    or an unaligned base (correspondence only)."""
    level = rng.choice([0, 1, 2, 2, 3, 3, 3])
    scale = 4 ** (4 - level)
    bx, by = rng.randrange(256 // scale) * scale, rng.randrange(256 // scale) * scale
    if level and rng.random() < 0.12:
        bx, by = bx + rng.choice([1, 2, 3, scale // 2]), by + rng.choice([0, 1, scale - 1])
        bx, by = min(bx, 255), min(by, 255)
    pts = []
    r = rng.random()
    full_side = scale if (level >= 2 or (level == 1 and r < 0.25)) else scale // 4
    if r < 0.75:
        cores = rand_cores(rng)[:rng.choice([1, 1, 2, 3]) if full_side <= 16 else 1]
        ox, oy = bx + rng.randrange(scale // full_side) * full_side, by + rng.randrange(scale // full_side) * full_side
        block = [[x, y, p] for x in range(ox, ox + full_side) for y in range(oy, oy + full_side) for p in cores]
        rng.shuffle(block)
        k = rng.choice([0, 0, 1, 2, 5])
        held, block = block[:k], block[k:]
        pts += block
        if rng.random() < 0.7:
            pts += held                     # the holes are filled last: the node becomes full now
        if rng.random() < 0.5 and pts:
            pts += [list(rng.choice(pts)) for _ in range(3)]      # again after the mask was cleared
    for _ in range(rng.choice([0, 1, 3, 8])):
        pts.append([bx + rng.randrange(scale), by + rng.randrange(scale), rng.randrange(18)])
    if rng.random() < 0.15:
        bad = rng.choice([[bx - 1, by, 0], [bx + scale, by, 1], [bx, by + scale, 2], [bx, by - 1, 17],
                          [bx, by, 18], [bx, by, -1], [bx + scale - 1, by + scale, 3]])
        pts.insert(rng.randrange(len(pts) + 1), bad)
    return {"kind": "subtree", "x": bx, "y": by, "level": level, "points": pts}


def build_targets(case):
    """shapes -> {(x, y): set(cores)} with shuffled insertion order; a shrunk
    case lists its points explicitly, in insertion order."""
    if "points" in case:
        targets = {}
        for x, y, p in case["points"]:
            targets.setdefault((x, y), set()).add(p)
        return targets
    acc = {}
    for s in case["shapes"]:
        if s[0] == "rect":
            _, x0, y0, w, h, cores = s
            for x in range(x0, x0 + w):
                for y in range(y0, y0 + h):
                    acc.setdefault((x, y), set()).update(cores)
        elif s[0] == "hole":
            _, x, y, cores = s
            if (x, y) in acc:
                acc[(x, y)] -= set(cores)
        else:
            _, x, y, p = s
            acc.setdefault((x, y), set()).add(p)
    r = random.Random(case["order"])
    keys = sorted(k for k in acc if acc[k])
    r.shuffle(keys)
    targets = {}
    for k in keys:
        cs = sorted(acc[k])
        r.shuffle(cs)
        targets[k] = set()
        for p in cs:
            targets[k].add(p)
    return targets


# ---------------------------------------------------------------- implementation side
def dump_tree(t):
    return {"x": t.base_x, "y": t.base_y, "level": t.level, "ls": list(t.locally_selected),
            "subs": [None if s is None else dump_tree(s) for s in getattr(t, "subregions", [])]}


def impl_compress(targets):
    from rig.machine_control import regions
    try:
        out = regions.compress_flood_fill_regions(targets)
        return {"ok": [[int(r), int(m)] for (r, m) in out]}
    except ValueError:
        return {"err": "ValueError"}
    except Exception as e:  # noqa
        return {"err": "Other " + type(e).__name__}


def impl_tree(order):
    from rig.machine_control import regions
    t = regions.RegionCoreTree()
    rets = []
    try:
        for (x, y, p) in order:
            rets.append(bool(t.add_core(x, y, p)))
        return {"ok": {"tree": dump_tree(t), "returns": rets,
                       "yield": [[int(r), int(m)] for (r, m) in t.get_regions_and_coremasks()]}}
    except ValueError:
        return {"err": "ValueError"}
    except Exception as e:  # noqa
        return {"err": "Other " + type(e).__name__}


def impl_subtree(bx, by, level, order):
    from rig.machine_control import regions
    t = regions.RegionCoreTree(bx, by, level)
    rets = []
    try:
        for (x, y, p) in order:
            rets.append(bool(t.add_core(x, y, p)))
        return {"ok": {"tree": dump_tree(t), "returns": rets,
                       "yield": [[int(r), int(m)] for (r, m) in t.get_regions_and_coremasks()]}}
    except ValueError:
        return {"err": "ValueError"}
    except Exception as e:  # noqa
        return {"err": "Other " + type(e).__name__}


def impl_region(x, y, level):
    from rig.machine_control import regions
    try:
        return {"ok": int(regions.get_region_for_chip(x, y, level))}
    except ValueError:
        return {"err": "ValueError"}
    except Exception as e:  # noqa
        return {"err": "Other " + type(e).__name__}


TREE_LIMIT = 2000


def queries(c, order):
    """points at which the literal Lean specification `countSel` is evaluated: a sample of the targets
    (expected 1) and of non-targets next to them, on the same chips with other cores, mirrored and far
    away (expected 0); deterministic in the case."""
    r = random.Random(len(order) * 7919 + c.get("order", 0))
    tset = {tuple(t) for t in order}
    sample = order if len(order) <= 120 else r.sample(order, 120)
    qs = [[x, y, p, 1] for x, y, p in sample]
    cand = set()
    for x, y, p in sample[:60]:
        for dx, dy in ((1, 0), (-1, 0), (0, 1), (0, -1), (4, 0), (0, 16)):
            cand.add((x + dx, y + dy, p))
        cand.add((x, y, (p + 1) % 18))
        cand.add((x, y, r.randrange(32)))
        cand.add((y, x, p))
        cand.add((255 - x, 255 - y, p))
    for _ in range(20):
        cand.add((r.randrange(256), r.randrange(256), r.randrange(18)))
    qs += [[x, y, p, 0] for x, y, p in sorted(cand) if (x, y, p) not in tset and 0 <= x < 256 and 0 <= y < 256]
    return qs


def judge(ctx, points_list):
    """oracle verdict keys for several explicit point lists (one driver call)."""
    reqs, outs = [], []
    for pts in points_list:
        targets = build_targets({"points": pts})
        order = [[x, y, p] for (x, y), cs in targets.items() for p in cs]
        r = impl_compress(targets)
        outs.append(r)
        if "ok" in r:
            reqs.append({"suite": "c12", "op": "oracle", "targets": sorted(order), "out": r["ok"],
                         "queries": queries({}, order)})
    reps = iter(ctx.lean(reqs))
    keys = []
    for r in outs:
        if "ok" not in r:
            keys.append({"exception-on-valid-targets"})
        else:
            o = next(reps)
            if not o["nodup"]:
                raise RuntimeError("harness error: the oracle was given a target list with repetitions")
            keys.append({k for k, bad in (("not-exact", not o["exact"] or bool(o["bad"])),
                                          ("not-increasing", not o["sorted"])) if bad})
    return keys


def shrink(ctx, case, key):
    """greedy delta debugging on the explicit point list, keeping the same finding key."""
    targets = build_targets(case)
    pts = [[x, y, p] for (x, y), cs in targets.items() for p in cs]
    if key not in judge(ctx, [pts])[0]:
        return case
    n, rounds = 2, 0
    while len(pts) >= 2 and rounds < 250:
        rounds += 1
        size = max(1, len(pts) // n)
        cands = [pts[:i] + pts[i + size:] for i in range(0, len(pts), size)]
        cands = [c for c in cands if c][:64]
        verdicts = judge(ctx, cands)
        hit = [c for c, v in zip(cands, verdicts) if key in v]
        if hit:
            pts = min(hit, key=len)
            n = max(n - 1, 2)
        elif size == 1:
            break
        else:
            n = min(len(pts), n * 2)
    return {"kind": "compress", "points": pts}


WORKERS = 4         # worker processes (implementation + model driver per batch); results do not depend on it


def work(batch):
    """one batch, in a worker process or inline: run the implementation, then the model driver on the requests.
    A pure function of the batch (all randomness was consumed when the cases were generated)."""
    from harness import common
    reqs, idx = prepare(batch)
    return batch, idx, common.Driver().run(reqs), len(reqs)


def eval_cases(ctx, cases):
    reqs, idx = prepare(cases)
    finish(ctx, cases, idx, ctx.lean(reqs))


def prepare(cases):
    """run the implementation on every case and build the model / oracle requests"""
    reqs, idx = [], []
    for c in cases:
        if c["kind"] == "region":
            c["impl"] = impl_region(c["x"], c["y"], c["level"])
            reqs.append({"suite": "c12", "op": "region", "x": c["x"], "y": c["y"], "level": c["level"]})
            idx.append((c, "model"))
            if "ok" in c["impl"] and c["level"] <= 3:
                reqs.append({"suite": "c12", "op": "chips", "r": c["impl"]["ok"]})
                idx.append((c, "chips"))
            continue
        if c["kind"] == "subtree":
            c["impl"] = impl_subtree(c["x"], c["y"], c["level"], c["points"])
            reqs.append({"suite": "c12", "op": "subtree", "x": c["x"], "y": c["y"], "level": c["level"],
                         "targets": c["points"]})
            idx.append((c, "model"))
            continue
        targets = build_targets(c)
        order = [[x, y, p] for (x, y), cs in targets.items() for p in cs]
        c["_n"] = len(order)
        c["_valid"] = all(0 <= x < 256 and 0 <= y < 256 and 0 <= p < 18 for x, y, p in order)
        c["impl"] = impl_compress(targets)
        reqs.append({"suite": "c12", "op": "compress", "targets": order})
        idx.append((c, "model"))
        if len(order) <= TREE_LIMIT:
            c["impl_tree"] = impl_tree(order)
            reqs.append({"suite": "c12", "op": "tree", "targets": order})
            idx.append((c, "model_tree"))
        if c["_valid"] and "ok" in c["impl"]:
            reqs.append({"suite": "c12", "op": "oracle", "targets": sorted(order), "out": c["impl"]["ok"],
                         "queries": queries(c, order)})
            idx.append((c, "oracle"))
    return reqs, idx


def finish(ctx, cases, idx, replies):
    """compare implementation and model, apply the oracle verdicts (in case order)"""
    for (c, what), r in zip(idx, replies):
        c[what] = r
    for c in cases:
        desc = {k: v for k, v in c.items() if k in ("kind", "shapes", "order", "points", "x", "y", "level")}
        ctx.traces += 1
        if c["kind"] == "region":
            if c["impl"] != c["model"]:
                ctx.mismatch("c12.region", "impl=%r model=%r" % (c["impl"], c["model"]), desc)
            ctx.tag("region_level%d_%s" % (c["level"], "ok" if "ok" in c["impl"] else "err"))
            if "chips" in c:
                chips = c["chips"]
                if c["level"] == 3 and chips != [[c["x"], c["y"]]]:
                    ctx.violation("single-chip-word",
                                  "get_region_for_chip(%d, %d, 3) = %#x selects chips %r under the documented word "
                                  "layout, not exactly that chip" % (c["x"], c["y"], c["impl"]["ok"], chips[:20]), desc)
                elif [c["x"], c["y"]] not in chips:
                    ctx.violation("region-word-misses-chip",
                                  "get_region_for_chip(%d, %d, %d) = %#x does not select the chip itself"
                                  % (c["x"], c["y"], c["level"], c["impl"]["ok"]), desc)
            ctx.case(desc, c["level"] == 3)
            continue
        if c["kind"] == "subtree":
            if c["impl"] != c["model"]:
                ctx.mismatch("c12.subtree", "RegionCoreTree(%d, %d, %d): tree state / add_core returns / yield differ: "
                             "impl=%s model=%s" % (c["x"], c["y"], c["level"], str(c["impl"])[:300],
                                                   str(c["model"])[:300]), desc)
            full = "ok" in c["impl"] and any(c["impl"]["ok"]["returns"])
            ctx.tag("subtree_level%d_%s" % (c["level"], "err" if "err" in c["impl"] else
                                            "reports_full" if full else "partial"))
            ctx.case(desc, full)
            continue
        if c["impl"] != c["model"]:
            ctx.mismatch("c12.compress", "impl=%s model=%s" % (str(c["impl"])[:300], str(c["model"])[:300]), desc)
        if "impl_tree" in c and c["impl_tree"] != c["model_tree"]:
            ctx.mismatch("c12.tree", "tree state / add_core returns / yield order differ: impl=%s model=%s"
                         % (str(c["impl_tree"])[:300], str(c["model_tree"])[:300]), desc)
            ctx.traces += 1
        nontriv = False
        if not c["_valid"]:
            ctx.tag("malformed_" + c["impl"].get("err", "accepted"))
        elif "ok" not in c["impl"]:
            ctx.tag("valid_raised")
            ctx.violation("exception-on-valid-targets",
                          "compress_flood_fill_regions raised %s on an in-range target set" % c["impl"]["err"], desc)
        else:
            out = c["impl"]["ok"]
            levels = sorted({(r >> 16) & 3 for r, _ in out})
            for l in levels:
                ctx.tag("emits_level%d" % l)
            ctx.tag("pairs_%s" % ("0" if not out else "1" if len(out) == 1 else "2-9" if len(out) < 10 else "10+"))
            ctx.tag("triples_%s" % ("<=16" if c["_n"] <= 16 else "<=256" if c["_n"] <= 256 else
                                    "<=4096" if c["_n"] <= 4096 else ">4096"))
            if len({m for _, m in out}) > 1:
                ctx.tag("several_core_masks")
            nontriv = len(out) >= 2 or any(l < 3 for l in levels)
            o = c["oracle"]
            if not o["nodup"]:      # hypothesis of exactB_iff, decided by the driver (nodupB_iff)
                raise RuntimeError("harness error: the oracle was given a target list with repetitions")
            if o["exact"] == bool(o["bad"]):
                ctx.tag("oracle_enumeration_vs_pointwise_differ" if o["exact"] else "oracle_nonexact_sample_missed")
            for key, bad, what in (
                    ("not-exact", not o["exact"] or bool(o["bad"]),
                     "the emitted pairs do not select exactly the requested cores once each under the documented "
                     "region word%s" % (" (before shrinking: (x, y, p, expected, selected by) = %r)" % o["bad"]
                                        if o["bad"] else "")),
                    ("not-increasing", not o["sorted"],
                     "the emitted pairs are not in strictly increasing (region, core mask) order")):
                if not bad:
                    continue
                small = desc
                if key not in ctx.extra.setdefault("_shrunk", set()) and c["_n"] <= 20000:
                    ctx.extra["_shrunk"].add(key)
                    small = shrink(ctx, desc, key)
                st = build_targets(small)
                ctx.violation(key, "%s: targets %s -> output %s" % (
                    what, str({k: sorted(v) for k, v in st.items()})[:300],
                    str(impl_compress(st))[:300]), small)
        ctx.case(desc, nontriv)


def region_cases(ctx, n):
    rng = ctx.rng
    cs = []
    edge = [0, 1, 3, 4, 15, 16, 63, 64, 127, 128, 191, 192, 252, 255]
    for _ in range(n):
        x = rng.choice(edge) if rng.random() < 0.4 else rng.randrange(256)
        y = rng.choice(edge) if rng.random() < 0.4 else rng.randrange(256)
        lv = 3 if rng.random() < 0.5 else rng.choice([0, 1, 2, 3, 4])
        cs.append({"kind": "region", "x": x, "y": y, "level": lv})
    return cs


def run(ctx):
    ctx.extra["rule"] = RULE
    ctx.assumptions += [
        "coordinates 0..255 and cores 0..17 (anything else raises ValueError, checked as correspondence only)",
        "semantics of a region word as documented in regions.py / _send_ffcs (written independently in Lean as `selects`); "
        "that SC&MP implements this semantics is trusted",
        "the insertion order used by the implementation is the iteration order of the targets dict and its sets",
        "the enumerating oracle (exactB, strictB) is proved to decide `Exact` / `StrictlyIncreasing` for target lists "
        "without repetition (exactB_iff, strictB_iff); that hypothesis is decided by the driver on every call "
        "(nodupB, nodupB_iff) and a repetition would be reported as a harness error; the literal `countSel` is still "
        "evaluated on sampled targets and non-targets as a redundant cross-check"]
    n = ctx.scale(1500, 30000)
    nreg = ctx.scale(3000, 0)
    if ctx.extended:
        n *= 4
    rng = ctx.rng
    cases = []
    cdir = os.path.join(os.path.dirname(os.path.dirname(os.path.abspath(__file__))), "corpus", "C12")
    if os.path.isdir(cdir):
        for fn in sorted(os.listdir(cdir)):
            if fn.endswith(".json"):
                cases.append(json.load(open(os.path.join(cdir, fn)))["case"])
                ctx.tag("corpus")
    for i in range(n):
        if rng.random() < 0.06:
            cases.append(gen_malformed(rng))
        else:
            cases.append(gen_case(rng, not ctx.quick))
    # whole machine, one core: the root keeps 0xffff (the only node that may)
    cases.append({"kind": "compress", "shapes": [["rect", 0, 0, 256, 256, [rng.randrange(18)]]], "order": 1})
    cases += [gen_subtree(rng) for _ in range(ctx.scale(300, 3000) * (4 if ctx.extended else 1))]
    if ctx.quick:
        cases += region_cases(ctx, nreg)
    else:
        cases += [{"kind": "region", "x": x, "y": y, "level": 3} for x in range(256) for y in range(256)]
        cases += [{"kind": "region", "x": x, "y": y, "level": l} for x in range(0, 256, 3) for y in range(0, 256, 5)
                  for l in (0, 1, 2, 4)]
        cases.append({"kind": "compress", "shapes": [["rect", 0, 0, 256, 256, [1]], ["hole", 255, 255, [1]]], "order": 2})
    # the batches are independent: WORKERS forked processes run implementation + model driver on them; the verdicts
    # are applied here strictly in case order, so the result does not depend on timing or on WORKERS
    batches = [cases[i:i + 400] for i in range(0, len(cases), 400)]
    pool = None
    if len(batches) > 1:
        try:
            import multiprocessing
            pool = multiprocessing.get_context("fork").Pool(WORKERS)
        except (OSError, ValueError, ImportError):
            pool = None
    try:
        for batch, idx, replies, n in (pool.imap(work, batches) if pool else map(work, batches)):
            ctx.driver.calls += n
            finish(ctx, batch, idx, replies)
    finally:
        if pool is not None:
            pool.terminate()
            pool.join()
    ctx.extra.pop("_shrunk", None)


def replay(ctx, payload):
    ctx.extra["rule"] = RULE
    ctx.extra["_shrunk"] = {"not-exact", "not-increasing"}   # replay the case as recorded
    eval_cases(ctx, [payload["case"]])
    ctx.extra.pop("_shrunk", None)
THEOREMS += ['gen_region_tree_init']   # translator tie, second round (Props/C12Gen.lean)
