"""C02 (companion) - HARDENING streams: things the other streams never do.

(L) LAZY: the order functions return generators.  Two generators of every order function (and a twin of one of
    them) are advanced alternately, a few items at a time, one is abandoned half-way, other rig calls happen in
    between.  What each fully consumed generator yielded must equal what a fresh eager call yields (correspondence)
    and, handed to the sequential placer on the exactly-filling unit-demand problem, must give a placement the
    Lean oracle accepts (the verdict; keys of the Hilbert / RCM placer).
(S) SCALE: a handful of cases far beyond the usual size - 1xN / Nx1 / 2xN machines with N in the thousands, a
    257-wide machine, 65,537 vertices, nets with hundreds of sinks, chains of hundreds of same-chip constraints -
    through every placer.  An exception outside the two documented ones (RecursionError, OverflowError,
    MemoryError ...) or a call that does not return is reported; placements are judged by the Lean oracle
    where its quadratic cost allows (tagged otherwise).
(K) TWO KERNELS: two annealing kernels of one class (states prepared by sa.place for two problems) driven
    alternately; both final placements go through the Lean oracle.

Hooked into harness/c02.py: run() calls run_harden(ctx); replay() calls replay_harden(ctx, payload) when
payload["case"] has the key "harden"."""
import random as _random

RULE_HARDEN = ("hardening: (L) for an orders case (named vertices, dead chips / links), two generators of "
               "breadth_first_vertex_order, rcm_vertex_order, rcm_chip_order, hilbert_chip_order advanced alternately 1-4 "
               "items at a time, a twin abandoned half-way, eager calls in between; (S) per run 2 (thorough 8) large cases "
               "drawn from: 1xN / Nx1 / 2xN machine with N in 1000..3000 and 40 vertices, 257x2 machine, 65,537 unit "
               "vertices on 257x3 (thorough tier), 700 vertices with a 600-sink net, a chain of 400 (thorough 1100) same-chip constraints "
               "that fits, and on every run one chain of 300-1500 that fits NO chip (only InsufficientResourceError is accepted); one fixed case of the known finding sa-c-raises-OverflowError (SDRAM 2**31+5000 with the C kernel); (K) two PythonKernel / two CKernel objects driven alternately with 3-6 run_steps calls each")

CLAIM_HARDEN = ("The generators returned by the order functions are also consumed lazily and alternately (results equal "
                "to an eager call, and accepted by the Lean oracle when used for a placement); a few cases per run are far "
                "beyond the usual size (thousands of chips in a row, 65,537 vertices, hundreds of sinks, hundreds of "
                "chained same-chip constraints): any undocumented exception or a call that does not return is reported; "
                "two annealing kernels are driven alternately.")

NOTE_HARDEN = (
    "HARDENING CHECKLIST - what is validated by which stream, and what is left out and why. "
    "(1) Argument kinds: vertex / resource identifiers of every hashable kind (c02_names, all streams); resource "
    "quantities up to 2**100 (variants: scale) for every placer except the C annealing kernel, an external binary "
    "working on C ints (quantities >= 2**31 raise OverflowError from c_kernel.py: KNOWN FINDING "
    "sa-c-raises-OverflowError, reproduced by one fixed case on every run; the random generators keep such quantities "
    "away from that kernel so that any other failure of it is reported under its own key); dict / OrderedDict / subclasses for vertices_resources and resource dictionaries, subclasses of "
    "Machine, Net and the constraint classes, Net(source, single_sink), tuple for SameChipConstraint.vertices "
    "(variants: containers). NOT generated: nets / constraints as tuples or iterators (documented as lists: the placers "
    "copy them with [:] and assign items - a tuple raises TypeError in every placer); Net sinks other than a list are BY "
    "DOCUMENTATION a single vertex; bool / IntEnum / numpy integers as resource quantities or chip coordinates (rig never "
    "passes them to the placers and documents ints); locations other than (x, y) tuples. "
    "(2) Optional parameters: sequential.place vertex_order / chip_order (list, tuple, generator, keys view, dict, "
    "iterator; positional and keyword), breadth_first.place chip_order, hilbert.place breadth_first (both values, "
    "positional and keyword), rand.place random (positional, keyword, default = the random module, patched to record), "
    "sa.place effort / random / on_temperature_change (callback, None) / kernel (Python, C, default) / kernel_kwargs "
    "(given, default) positional, keyword and through rig.place_and_route.place; Net weight, "
    "ReserveResourceConstraint location, Machine dead_chips / dead_links / chip_resource_exceptions. Left at the "
    "default: hilbert(level, angle, s) angle and s (documented 'for internal use only'); PythonKernel no_warn=False "
    "(only prints a warning). "
    "(3) Scale: c02_harden (S); the Hilbert placer walks 4**ceil(log2(max(w, h))) points before it gives up, so 1xN "
    "machines with N in the thousands are run with placeable problems only (an unplaceable one takes minutes: slow, "
    "not wrong); chains of 300-1500 same-chip constraints whose merged vertex fits no chip are run on every run (scale "
    "stream and two problems of the main stream: only InsufficientResourceError is accepted - finding F24, fixed); the "
    "Lean oracle is quadratic in the number of vertices, so the 65,537-vertex and the 1100-deep chain "
    "cases are judged on exceptions, non-return and the number of placed vertices only (tagged). "
    "(4) Histories: c02_sessions (same objects, repeated calls, two problems alternately, machines differing in one "
    "aspect in both orders, placer modules reloaded at the start of every history, replays carry the whole history and "
    "are chosen to fail alone in a fresh interpreter), c02_harden (K) two kernels alternately. "
    "(5) The caller keeps and edits: c02_sessions - in-place edits of every passed object between calls (demands, new "
    "vertex, nets added / removed / extended, chips killed / revived, capacities, constraints), results cleared / "
    "overwritten by the caller, kept results re-read at the end of the session (a placement that was feasible when "
    "returned and reads infeasible later: key returned-placement-changed-later; changed but still feasible: tagged); "
    "c02_harden (L) generators consumed lazily, alternately, abandoned. "
    "(6) Faults then continued use: c02_sessions - the caller's RNG, callback or kernel raises at its k-th use; the "
    "injected exception passing through is accepted (any other outcome is tagged, not judged: the property does not "
    "speak about failing callbacks), the same objects are used afterwards and judged as usual. The placers talk to "
    "nothing else that can fail. "
    "(7) Configuration: number of resource types 0-3, per-chip resource exceptions, dead chips, dead links incl. no "
    "wrap-around (variants: links), machine sizes 1x1 .. 3000x1; nothing else of the machine is read by the placers. "
    "(8) Non-termination: every placer call runs under common.cpu_limit (10 s; 30-120 s for anneals; lowered after "
    "hangs): sequential family and random placer - the model is proved / structurally terminating - are reported "
    "under did-not-return, the annealer (schedule not modelled) as a broken correspondence.")

DOCUMENTED = ("InsufficientResourceError", "InvalidConstraintError")


# ---------------------------------------------------------------------------
# (L) lazily consumed generators
# ---------------------------------------------------------------------------

def gen_lazy(rng):
    from harness import c02_orders
    while True:
        case = c02_orders.gen_case(rng)
        if len(case["vs"]) >= 3 and not case["unknown"]:
            break
    case["lazy_seed"] = rng.randrange(2 ** 30)
    return {"harden": "lazy", "case": case}


def _consume(c02, rng, gens, twin, eager, fns):
    steps = 0
    with c02.common.cpu_limit(60):
        while not all(g[3] for g in gens):

            g = rng.choice([g for g in gens if not g[3]])
            for _ in range(rng.choice([1, 1, 2, 4])):
                try:
                    g[2].append(next(g[1]))
                except StopIteration:
                    g[3] = True
                    break
            steps += 1
            if gens[twin] is g and len(g[2]) >= len(eager[g[0]]) // 2 and not g[3]:
                getattr(g[1], "close", lambda: None)()      # abandoned half-way
                g[3] = "abandoned"
            if rng.random() < 0.1:
                list(fns[rng.choice(sorted(fns))]())        # other work in between


def run_lazy(ctx, h):
    from harness import c02, c02_orders, c02_names
    from rig.place_and_route.place import breadth_first, rcm, hilbert, sequential
    case = h["case"]
    desc = dict(h)
    vr, nets, machine, working, base, extra, nm = c02_orders.build(case)
    fns = {"bfs": lambda: breadth_first.breadth_first_vertex_order(vr, nets),
           "rcm_v": lambda: rcm.rcm_vertex_order(vr, nets),
           "rcm_c": lambda: rcm.rcm_chip_order(machine),
           "hil_c": lambda: hilbert.hilbert_chip_order(machine)}
    try:
        with c02.common.cpu_limit(10 if c02._HANGS[0] < 4 else 2):
            eager = {k: list(f()) for k, f in fns.items()}
    except c02.common.ImplHang as e:
        # the order functions terminate on every input (bfsOrder_terminates, rcmVertexOrder_terminates,
        # rcmChipOrder_terminates); the wrapper placers consume them completely - the placer runs report the violation
        c02._HANGS[0] += 1
        ctx.mismatch("c02.did-not-return", "an order function consumed eagerly did not return: %s" % e, desc)
        ctx.case(desc, False)
        return
    rng = _random.Random(case["lazy_seed"])
    gens = [[k, fns[k](), [], False] for k in sorted(fns) for _ in (0, 1)]      # name, generator, items, done
    twin = rng.randrange(len(gens))
    try:
        _consume(c02, rng, gens, twin, eager, fns)
    except c02.common.ImplHang as e:
        ctx.mismatch("c02.did-not-return", "generators of the order functions advanced alternately: %s" % e, desc)
        ctx.case(desc, False)
        return
    for k, _, items, done in gens:
        ctx.traces += 1
        if done is True and items != eager[k]:
            ctx.mismatch("c02harden.lazy-" + k, "consumed alternately: %r...; eagerly: %r..." % (items[:8], eager[k][:8]), desc)
        ctx.tag("lazy:%s:%s" % (k, "abandoned" if done == "abandoned" else "consumed"))
    # verdict: the alternately consumed orders place the exactly-filling unit-demand problem
    full = {}
    for k, _, items, done in gens:
        if done is True:
            full[k] = items
    lp = {"suite": "c02", "op": "valid", "w": case["w"], "h": case["h"], "res": [base], "dead": case["dead"],
          "exc": [[list(c), [base + 1]] for c in working[:extra]],
          "vr": [[v, [0 if v in {z for z, _ in case.get("zero", [])} else 1]] for v in case["vs"]], "cs": []}
    n_work = len(working)
    for placer, vo, co in (("hilbert", "bfs", "hil_c"), ("rcm", "rcm_v", "rcm_c")):
        if vo not in full or co not in full:
            continue
        out = c02.outcome(lambda: sequential.place(vr, nets, machine, [], iter(full[vo]), iter(full[co])))
        ctx.traces += 1
        case_ = dict(desc, placer=placer)
        if "ok" in out:
            idx = {v: c02_names.index_of(v) for v in out["ok"]}
            if any(i is None for i in idx.values()):
                ctx.violation("infeasible-placement-" + placer, "placement of a foreign vertex from the orders of %s consumed "
                              "alternately" % placer, case_)
                continue
            rep = ctx.lean([dict(lp, p=sorted([idx[v], list(c)] for v, c in out["ok"].items()))])[0]
            if not rep.get("valid"):
                ctx.violation("infeasible-placement-" + placer, "the vertex / chip orders of the %s placer, consumed "
                              "alternately with other generators, give an infeasible placement (%s)" % (placer, rep.get("why")),
                              case_)
        elif out["err"] == "DidNotReturn":
            c02.did_not_return(ctx, "sequential", out, case_)
        elif out["err"] not in DOCUMENTED:
            ctx.violation("%s-raises-%s" % (placer, out["err"]), "with the orders of the %s placer consumed alternately the "
                          "sequential placer raised %s (%s)" % (placer, out["err"], out.get("msg")), case_)
        elif n_work >= 1:
            ctx.violation("incomplete-" + placer, "with the orders of the %s placer consumed alternately the sequential "
                          "placer raised %s on an exactly-filling unit-demand problem" % (placer, out["err"]), case_)
    ctx.case(desc, True)


# ---------------------------------------------------------------------------
# (S) scale
# ---------------------------------------------------------------------------

def gen_scale(rng, thorough, kind=None):
    kind = kind or rng.choice(["row", "row", "wide257", "sinks", "chain", "chain-too-big"] +
                              (["vertices65537"] if thorough else []))      # 65,537 vertices: thorough tier only
    seeds = [rng.randrange(2 ** 30) for _ in range(4)]
    if kind == "chain-too-big":
        # chained same-chip constraints whose merged vertex (depth + 1 units) fits no chip (depth units each): the only
        # acceptable outcome is InsufficientResourceError (finding F24: RecursionError from the error message, fixed)
        depth = rng.choice([300, 350, 500] + ([800, 1100, 1500] if thorough else []))
        return {"harden": "scale", "kind": kind, "w": 2, "h": 2, "cap": depth, "n": depth + 1, "nets": "sparse",
                "chain": depth, "dead": [], "seeds": seeds, "oracle": True}
    if kind == "row":
        N = rng.choice([1000, 2048, 2049, 3000])
        w, h = rng.choice([(1, N), (N, 1), (2, N), (N, 2)])
        return {"harden": "scale", "kind": kind, "w": w, "h": h, "cap": 1, "n": 40, "nets": "ring", "chain": 0,
                "dead": [[0, 0]] if rng.random() < 0.5 else [], "seeds": seeds, "oracle": True}
    if kind == "wide257":
        return {"harden": "scale", "kind": kind, "w": 257, "h": 2, "cap": 1, "n": 60, "nets": "ring", "chain": 0, "dead": [],
                "seeds": seeds, "oracle": True}
    if kind == "vertices65537":
        return {"harden": "scale", "kind": kind, "w": 257, "h": 3, "cap": 86, "n": 65537, "nets": "sparse", "chain": 0,
                "dead": [], "seeds": seeds, "oracle": False}
    if kind == "sinks":
        return {"harden": "scale", "kind": kind, "w": 3, "h": 3, "cap": 100, "n": 700, "nets": "fan", "chain": 0, "dead": [],
                "seeds": seeds, "oracle": True}
    # chained same-chip constraints (v0,v1), (v1,v2), ...: merged vertices nest that deep; this chain fits on a chip
    depth = 1100 if thorough else 400
    return {"harden": "scale", "kind": kind, "w": 2, "h": 2, "cap": depth + 1, "n": depth + 1, "nets": "sparse",
            "chain": depth, "dead": [], "seeds": seeds, "oracle": depth <= 400}


def scale_problem(h):
    n = h["n"]
    if h["nets"] == "ring":
        nets = [[v, [(v + 1) % n], 1] for v in range(n)]
    elif h["nets"] == "fan":
        nets = [[0, list(range(1, 601)), 1], [5, list(range(300, 650)), 2]] + [[v, [(v * 7 + 1) % n], 1] for v in range(0, n, 3)]
    else:
        nets = [[v, [(v + 1) % n], 1] for v in range(0, n - 1, 64)]
    cs = [{"t": "same", "vs": [v, v + 1]} for v in range(h["chain"])]
    working = [(x, y) for x in range(h["w"]) for y in range(h["h"]) if [x, y] not in h["dead"]]
    return {"w": h["w"], "h": h["h"], "res": [h["cap"]], "exc": [], "dead": h["dead"], "vr": [[v, [1], [True]] for v in range(n)],
            "nets": nets, "cs": cs, "ood": False, "unit": False, "vo": list(range(n)), "co": [list(c) for c in working],
            "seeds": h["seeds"], "effort": 0.01, "max_temps": 2, "hilbert_bf": True, "unit_r0": None,
            "names": "t2" if h["seeds"][0] % 2 else "plain", "names_seed": h["seeds"][1]}


def run_scale(ctx, h):
    from harness import c02, c02_sessions
    prob = scale_problem(h)
    desc = dict(h)
    base = c02.lean_problem(prob)
    for name in c02_sessions.PLACERS:
        vr, nets, machine, cs = c02.build(prob)
        out = None
        with_limit = 120
        real = c02.outcome
        # the calls of this stream are long: their own CPU limit
        c02.outcome = lambda fn, limit=None: real(fn, with_limit)
        try:
            out = c02_sessions.call_placer(name, h["seeds"][2], prob, vr, nets, machine, cs)
        finally:
            c02.outcome = real
        if out is None:
            continue
        ctx.traces += 1
        case = dict(desc, placer=name)
        ctx.tag("scale:%s:%s:%s" % (h["kind"], name, "placed" if "ok" in out else out["err"]))
        if "ok" in out and h["kind"] == "chain-too-big":
            ctx.violation("infeasible-placement-" + name, "%s returned a placement for %d vertices chained by same-chip "
                          "constraints on chips that hold %d" % (name, h["n"], h["cap"]), case)
        elif "ok" in out:
            if len(out["ok"]) != h["n"]:
                ctx.violation("infeasible-placement-" + name, "%s returned %d placements for %d vertices" % (
                    name, len(out["ok"]), h["n"]), case)
            elif h["oracle"]:
                enc = c02.enc_placement(out["ok"])
                rep = ctx.lean([dict(base, suite="c02", op="valid", p=enc)])[0] if enc is not None else {}
                if not rep.get("valid"):
                    ctx.violation("infeasible-placement-" + name, "%s returned an infeasible placement (%s) on the large case %s"
                                  % (name, rep.get("why"), h["kind"]), case)
            else:
                ctx.tag("scale:oracle-not-run-(quadratic)")
        elif out["err"] == "DidNotReturn":
            c02.did_not_return(ctx, name, out, case)
        elif out["err"] not in DOCUMENTED:
            ctx.violation("%s-raises-%s" % (name, out["err"]), "%s raised %s (%s) on the large case %s; only "
                          "InsufficientResourceError and InvalidConstraintError are documented" % (
                              name, out["err"], out.get("msg"), h["kind"]), case)
    ctx.case(desc, True)


# ---------------------------------------------------------------------------
# (K) two kernels alternately
# ---------------------------------------------------------------------------

def gen_two_kernels(rng):
    from harness import c02_kernel
    a, b = c02_kernel.gen_kernel_case(rng, big=False), c02_kernel.gen_kernel_case(rng, big=False)
    sched = [[rng.randrange(2), rng.choice([1, 5, 20, 60]), rng.choice(c02_kernel.TEMPS), rng.choice([1, 2, 100])]
             for _ in range(rng.choice([6, 8, 12]))]
    return {"harden": "two-kernels", "a": {"problem": a["problem"], "seed": a["seed"]},
            "b": {"problem": b["problem"], "seed": b["seed"]}, "schedule": sched, "c": rng.random() < 0.5}


def run_two_kernels(ctx, h):
    from harness import c02, c02_kernel
    from rig.place_and_route.place.sa import python_kernel
    from rig.place_and_route.place.utils import finalise_same_chip_constraints
    cls, kw, label = python_kernel.PythonKernel, {"no_warn": True}, "sa-python-kernel"
    if h["c"]:
        try:
            from rig.place_and_route.place.sa.c_kernel import CKernel
            cls, kw, label = CKernel, {}, "sa-c-kernel"
        except ImportError:
            pass
    desc = dict(h)
    caps = []
    for side in ("a", "b"):
        out, kargs, rr, merged, keep = c02_kernel._capture(h[side], h[side]["seed"])
        if kargs is None:
            ctx.tag("two-kernels:trivial-problem")
            ctx.case(desc, False)
            return
        caps.append((kargs, keep, h[side]["problem"]))
    outs = []
    res = c02.outcome(lambda: [cls(*k, **kw) for k, _, _ in caps], 60)
    if "ok" in res:
        kernels = res["ok"]

        def drive():
            for which, steps, temp, dist in h["schedule"]:
                m = caps[which][0][5]
                kernels[which].run_steps(steps, min(dist, max(m.width, m.height)), temp)
            return [k.get_placements() for k in kernels]
        res = c02.outcome(drive, 120)
    ctx.traces += 1
    if "err" in res:
        ctx.tag("two-kernels:%s:%s" % (label, res["err"]))
        if res["err"] == "DidNotReturn":
            ctx.mismatch("c02.did-not-return", "two %s objects driven alternately: %s" % (label, res.get("msg")), desc)
        else:
            ctx.violation("%s-raises-%s" % (label, res["err"]), "two %s objects driven alternately: %s (%s)" % (
                label, res["err"], res.get("msg")), desc)
    else:
        for (kargs, keep, prob), p in zip(caps, res["ok"]):
            p = dict(p)
            fin = c02.outcome(lambda: finalise_same_chip_constraints(keep, p))
            enc = c02.enc_placement(p) if "ok" in fin else None
            rep = ctx.lean([dict(c02.lean_problem(prob), suite="c02", op="valid", p=enc)])[0] if enc is not None else {}
            ctx.tag("two-kernels:%s:%s" % (label, "feasible" if rep.get("valid") else "INFEASIBLE"))
            if not rep.get("valid"):
                ctx.violation("infeasible-placement-" + label, "two %s objects driven alternately: infeasible placement (%s)" % (
                    label, rep.get("why")), desc)
    ctx.case(desc, True)


# ---------------------------------------------------------------------------

# ---------------------------------------------------------------------------
# known finding: the C kernel stores resource quantities in C ints
# ---------------------------------------------------------------------------

C_OVERFLOW = {"harden": "c-overflow", "w": 2, "h": 2, "cores": 4, "sdram": 2 ** 31 + 5000, "n": 4, "vertex_sdram": 1000}


def run_c_overflow(ctx, h=C_OVERFLOW):
    """ONE fixed small feasible problem whose chips have 2**31 + 5000 units of SDRAM, placed by sa.place with the C
    kernel (KNOWN_FINDINGS sa-c-raises-OverflowError; the random generators keep such quantities away from the C
    kernel so that any other failure of it is reported under its own key)"""
    import collections
    from harness import c02
    try:
        from rig.place_and_route.place.sa.c_kernel import CKernel
    except ImportError:
        ctx.tag("c-overflow:CKernel-not-importable")
        return
    from rig.place_and_route import Machine, Cores, SDRAM
    from rig.netlist import Net
    from rig.place_and_route.place.sa import algorithm as sa_alg
    n = h["n"]
    vr = collections.OrderedDict((v, {Cores: 1, SDRAM: h["vertex_sdram"]}) for v in range(n))
    nets = [Net(v, [(v + 1) % n]) for v in range(n)]
    machine = Machine(h["w"], h["h"], chip_resources={Cores: h["cores"], SDRAM: h["sdram"]})
    out = c02.outcome(lambda: sa_alg.place(vr, nets, machine, [], effort=0.1, random=_random.Random(1), kernel=CKernel), 30)
    ctx.traces += 1
    desc = dict(h)
    ctx.tag("c-overflow:%s" % ("placed" if "ok" in out else out["err"]))
    what_in = ("sa.place(kernel=CKernel) on %d vertices {Cores: 1, SDRAM: %d} in a ring of nets, Machine(%d, %d, "
               "chip_resources={Cores: %d, SDRAM: 2**31 + %d}), no constraints" % (
                   n, h["vertex_sdram"], h["w"], h["h"], h["cores"], h["sdram"] - 2 ** 31))
    if "ok" in out:
        enc = c02.enc_placement(out["ok"])
        lp = {"suite": "c02", "op": "valid", "w": h["w"], "h": h["h"], "res": [h["cores"], h["sdram"]], "exc": [], "dead": [],
              "vr": [[v, [1, h["vertex_sdram"]]] for v in range(n)], "cs": [], "p": enc}
        rep = ctx.lean([lp])[0] if enc is not None else {}
        if not rep.get("valid"):
            ctx.violation("infeasible-placement-sa-c", "%s returned an infeasible placement (%s)" % (what_in, rep.get("why")), desc)
    elif out["err"] == "DidNotReturn":
        ctx.mismatch("c02.did-not-return", "%s: %s" % (what_in, out.get("msg")), desc)
    else:
        # the problem is feasible: a documented error would be wrong as well, but is not what this case is about
        if out["err"] in DOCUMENTED:
            ctx.tag("c-overflow:documented-error-on-a-feasible-problem")
        else:
            ctx.violation("sa-c-raises-%s" % out["err"], "%s raised %s (%s); only InsufficientResourceError and "
                          "InvalidConstraintError are documented (the C kernel stores resource quantities in C ints)" % (
                              what_in, out["err"], out.get("msg")), desc)
    ctx.case(desc, True)


def run_one(ctx, h):
    from harness import c02_sessions
    c02_sessions.reload_rig()
    if h["harden"] == "c-overflow":
        return run_c_overflow(ctx, h)
    {"lazy": run_lazy, "scale": run_scale, "two-kernels": run_two_kernels}[h["harden"]](ctx, h)


def run_harden(ctx):
    from harness import c02
    rng = ctx.rng
    n_lazy, n_scale, n_k = ctx.scale(40, 400), ctx.scale(2, 8), ctx.scale(12, 100)
    if ctx.extended:
        n_lazy, n_k = n_lazy * 4, n_k * 4
    for _ in range(n_lazy):
        run_one(ctx, gen_lazy(rng))
        if c02.hang_verdict_reached(ctx):       # many calls did not return and the violation is recorded
            break
    for _ in range(n_k):
        run_one(ctx, gen_two_kernels(rng))
    for _ in range(n_scale):
        run_one(ctx, gen_scale(rng, not ctx.quick))
    run_one(ctx, gen_scale(rng, not ctx.quick, "chain-too-big"))        # on every run
    run_c_overflow(ctx)


def replay_harden(ctx, payload):
    run_one(ctx, payload["case"])
